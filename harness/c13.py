"""C13 — the device receives exactly the lines given, and failures stop the run.

proof: coq/proofs/Send_Proofs.v + Response_Proofs.v + ResponseRaw_Proofs.v over coq/model/Send.v + Response.v + ResponseRaw.v, props/C13.v.
tie: Gen_Send.v regenerated from the source (marker lists, level tables, abort shapes of both twins read
from the AST, structural facts of send_commands) + correspondence of the model against the real drivers
(sync and asyncio, generic / network / the five core platforms) over the simulated device.
oracle: decided on the device's own received-bytes / executed-line log, independent of the model."""
import json
import os
import re
import time

from . import c13_levels, common
from .common import coq_bool, coq_list

LEVEL = "proof"
SOURCES = ["scrapli/driver/generic/sync_driver.py", "scrapli/driver/generic/async_driver.py",
           "scrapli/driver/generic/base_driver.py", "scrapli/driver/network/sync_driver.py",
           "scrapli/driver/network/async_driver.py", "scrapli/driver/network/base_driver.py",
           "scrapli/response.py", "scrapli/channel/sync_channel.py", "scrapli/channel/async_channel.py",
           "scrapli/channel/base_channel.py"] + [
    "scrapli/driver/core/%s/%s_driver.py" % (p, s)
    for p in ("cisco_iosxe", "cisco_iosxr", "cisco_nxos", "arista_eos", "juniper_junos") for s in ("sync", "async", "base")]

SESSION = "sess1"
KINDS = ["generic", "network", "cisco_iosxe", "cisco_iosxr", "cisco_nxos", "arista_eos", "juniper_junos"]
GENERIC_OPS = ["send_command", "send_commands", "send_commands_from_file"]
NET_OPS = GENERIC_OPS + ["send_configs", "send_config", "send_configs_from_file"]
OPCODE = {("generic", "send_commands"): 0, ("generic", "send_commands_from_file"): 1, ("generic", "send_command"): 2,
          ("net", "send_command"): 3, ("net", "send_commands"): 4, ("net", "send_commands_from_file"): 5,
          ("net", "send_configs"): 6, ("net", "send_config"): 7, ("net", "send_configs_from_file"): 8}
CONFIG_LEVELS = {
    "network": [""], "cisco_iosxe": [""], "cisco_iosxr": ["", "configuration_exclusive", "configuration"],
    "cisco_nxos": ["", SESSION, "configuration"], "arista_eos": ["", SESSION, "configuration"],
    "juniper_junos": ["", "configuration_exclusive", "configuration_private", "configuration"]}
# vendor side: which lines a platform accepts as an abort / rollback step (not scrapli's tables)
ABORT_STEPS = {"cisco_iosxr": {"abort"}, "cisco_nxos": {"abort"}, "arista_eos": {"abort"},
               "juniper_junos": {"rollback 0", "exit", "exit configuration-mode"}}
# device markers per vendor (what the vendor prints; used to build failing outputs)
VENDOR_ERRORS = {
    "generic": ["unknown command"], "network": ["% Invalid input detected at '^' marker."],
    "cisco_iosxe": ["% Invalid input detected at '^' marker.", "% Incomplete command.", "% Ambiguous command:  \"x\""],
    "cisco_iosxr": ["% Invalid input detected at '^' marker.", "% Incomplete command."],
    "cisco_nxos": ["% Invalid command at '^' marker.", "% Invalid parameter detected at '^' marker.", "% Incomplete command at '^' marker."],
    "arista_eos": ["% Invalid input", "% Incomplete command", "% Error in config"],
    "juniper_junos": ["syntax error.", "unknown command.", "error: 'x' is ambiguous."]}
BOUNDARIES = ["\n", "\r\n", "\r", "\x0b", "\x0c", "\x1c", "\x1d", "\x1e", "\x85", "\u2028", "\u2029"]


def _transition_lines():
    from .simdevice import PLATFORMS
    out = set()
    for p in PLATFORMS.values():
        for tbl in p()["trans"].values():
            out |= set(tbl)
    return out | c13_levels.enter_commands()


# ------------------------------------------------------------------------------------------------
# running one connection: a list of ops against the real driver over the simulated device
# ------------------------------------------------------------------------------------------------
def plat(kind):
    return "cisco_iosxe" if kind == "network" else kind


def dev_key(line):
    """how SimDevice reads a received line for interpretation"""
    return line.encode("utf-8").decode("latin-1").strip()


def out_bytes(x):
    """what the device prints for one planned output: a str stands for its UTF-8 encoding, {"hex": ...} for exactly these bytes
    (any bytes: latin-1 text, lone continuation bytes, truncated or ill-formed sequences)"""
    return bytes.fromhex(x["hex"]) if isinstance(x, dict) else x.encode("utf-8")


def is_utf8(b):
    """well-formed UTF-8?  Decided from the standard's table of well-formed sequences (no lone continuation bytes, no truncated
    sequences, no overlong forms, no surrogates, nothing above U+10FFFF), not by calling the code under test."""
    i, n = 0, len(b)
    while i < n:
        c = b[i]
        if c < 0x80:
            i += 1
            continue
        if 0xC2 <= c <= 0xDF:
            need, lo, hi = 1, 0x80, 0xBF
        elif 0xE0 <= c <= 0xEF:
            need, lo, hi = 2, (0xA0 if c == 0xE0 else 0x80), (0x9F if c == 0xED else 0xBF)
        elif 0xF0 <= c <= 0xF4:
            need, lo, hi = 3, (0x90 if c == 0xF0 else 0x80), (0x8F if c == 0xF4 else 0xBF)
        else:
            return False
        tail = b[i + 1:i + 1 + need]
        if len(tail) != need or not (lo <= tail[0] <= hi) or any(not (0x80 <= t <= 0xBF) for t in tail[1:]):
            return False
        i += 1 + need
    return True


def raw_text(b):
    """the text a byte string is read as (the documented reading of Response.result): UTF-8 where it is well-formed UTF-8,
    otherwise one character per byte (ISO-8859-1)"""
    return b.decode("utf-8") if is_utf8(b) else "".join(chr(c) for c in b)


def out_text(x):
    return raw_text(bytes.fromhex(x["hex"])) if isinstance(x, dict) else x


def op_lines(op):
    """the lines of an op as Python itself splits them (independent of the model)"""
    if op["op"] in ("send_config", "send_commands_from_file", "send_configs_from_file"):
        return op["text"].splitlines()
    return list(op["lines"])


_FILE_DIRS = [0]


def apply_edits(lst, edits):
    """the CALLER's own in-place changes of a list between two calls (repairing a line, adding / removing one)"""
    for e in edits or []:
        if e[0] == "set":
            lst[e[1]] = e[2]
        elif e[0] == "append":
            lst.append(e[1])
        elif e[0] == "insert":
            lst.insert(e[1], e[2])
        elif e[0] == "del":
            del lst[e[1]]
        else:
            raise ValueError("unknown edit %r" % (e,))


def new_pool(hist):
    """the caller's objects of one history: "live" = the list objects handed to the driver (ONE object per id, handed over again and
    again, on every connection of the history), "shadow" = what the caller put into them (same initial content, same edits; never
    handed to any code under test), "fwc" = the marker lists handed over per call (one object per distinct content)"""
    return {"live": {k: list(v) for k, v in hist["lists"].items()}, "shadow": {k: list(v) for k, v in hist["lists"].items()}, "fwc": {}}


def canon_list(x):
    return [(type(e).__name__, e) for e in x]


def run_history(hist, workdir):
    pool = new_pool(hist)
    return [run_connection(c, workdir, pool) for c in hist["connections"]]


def run_connection(scn, workdir, pool=None):
    """returns the list of observations, one per op.
    The caller's objects are observed too: the list handed to send_commands / send_configs (and a per-call marker list) is compared
    after the call with a copy taken before it ("caller").  An op with a "list_id" is handed the history's shared list object of that
    id (pool, see new_pool) after the caller's own "edits" of it; op["lines"] is what the caller put into it by then.
    Files of the from-file ops live in a directory of this connection alone (removed afterwards): nothing a process keeps per path
    carries over from one scenario to the next, so a scenario fails or holds on its own and its replay in a fresh process sees what
    the run saw.  The history of a file is part of the scenario: ops with the same "path_id" send the SAME path again, rewritten in
    between ("keep_mtime": with the modification time it had, as cp -p / rsync -t do)."""
    import shutil
    from .simdevice import Runner, SimDevice, Starved, make_driver
    fdir = os.path.join(workdir, "c13_files_%d_%d" % (os.getpid(), _FILE_DIRS[0]))
    _FILE_DIRS[0] += 1
    shutil.rmtree(fdir, ignore_errors=True)
    os.makedirs(fdir)

    kind, stack = scn["kind"], scn["stack"]
    state = {"lines": [], "outs": [], "i": 0}

    def outputs(mode, line):
        ls, outs = state["lines"], state["outs"]
        while state["i"] < len(ls) and not dev_key(ls[state["i"]]):
            state["i"] += 1
        if state["i"] < len(ls) and dev_key(ls[state["i"]]) == line:
            o = outs[state["i"]]
            state["i"] += 1
            return out_bytes(o)
        return b""

    ulevels = scn.get("user_levels") or []
    dkw = {}
    if ulevels:                            # the user's own privilege levels: the device has the modes, the driver is told about them
        if kind not in c13_levels.ABORT_PLATFORMS:
            raise RuntimeError("user levels are run on %s only" % c13_levels.ABORT_PLATFORMS)
        dev = c13_levels.UserLevelDevice(plat(kind), ulevels, outputs=outputs, host=scn.get("host", "router1"))
        dkw["privilege_levels"] = c13_levels.privilege_levels(kind, ulevels)
    else:
        dev = SimDevice(plat(kind), outputs=outputs, host=scn.get("host", "router1"))
    dev.start()
    if scn.get("driver_markers") is not None:           # the driver-level marker set given at construction
        dkw["failed_when_contains"] = list(scn["driver_markers"])
    d = make_driver(kind, stack, dev, tuple(scn.get("policy", ("whole",))), **dkw)
    run = Runner(stack)
    navs = []
    nav_open = [0]                        # set when the device went silent inside acquire_priv
    if kind != "generic":
        orig = d.acquire_priv
        if stack == "sync":
            def acquire_priv(desired_priv):
                w, l = len(d.transport.writes), len(dev.log)
                try:
                    return orig(desired_priv=desired_priv)
                except Starved:
                    nav_open[0] = 1
                    raise
                finally:
                    navs.append((w, len(d.transport.writes), desired_priv, l, len(dev.log)))
        else:
            async def acquire_priv(desired_priv):
                w, l = len(d.transport.writes), len(dev.log)
                try:
                    return await orig(desired_priv=desired_priv)
                except Starved:
                    nav_open[0] = 1
                    raise
                finally:
                    navs.append((w, len(d.transport.writes), desired_priv, l, len(dev.log)))
        d.acquire_priv = acquire_priv
    obs = []
    try:
        try:
            run.call(d.open)
        except Starved:                    # (a BaseException) the session never got as far as the first op: fail closed
            raise RuntimeError("the driver starved while opening the session (before any op): device received %r" % bytes(dev.rx[-80:]))
        if kind in ("cisco_nxos", "arista_eos"):
            d.register_configuration_session(session_name=SESSION)
        for k, op in enumerate(scn["ops"]):
            lines = op_lines(op)
            outs = list(op["outs"]) + [""] * (len(lines) - len(op["outs"]))
            state.update(lines=lines, outs=outs, i=0)
            del navs[:]
            nav_open[0] = 0
            w0, l0, r0 = len(d.transport.writes), len(dev.log), len(dev.rx)
            cur0 = d._current_priv_level.name if kind != "generic" else ""
            kw = {}
            caller = {"before": None, "after": None, "stale": None, "fwc_stale": None, "fwc_before": None, "fwc_after": None, "iter_left": None}
            fw = op["fwc"]
            if isinstance(fw, list):
                if pool is not None:                       # one marker list object per distinct content, handed over again and again
                    fw = pool["fwc"].setdefault(json.dumps(fw), list(fw))
                    if fw != op["fwc"]:
                        caller["fwc_stale"] = "the caller's marker list %r holds %r by now" % (op["fwc"][:4], fw[:4])
                else:
                    fw = list(fw)
                caller["fwc_before"] = canon_list(fw)
            if op["fwc"] is not None:
                kw["failed_when_contains"] = fw
            name = op["op"]
            if name != "send_command":
                kw.update(stop_on_failed=op["stop"], eager=op["eager"])
            if name in ("send_configs", "send_config", "send_configs_from_file") and op["priv"]:
                kw["privilege_level"] = op["priv"]
            if name in ("send_commands_from_file", "send_configs_from_file"):
                path = os.path.join(fdir, "input_%s.txt" % ("p%d" % op["path_id"] if op.get("path_id") is not None else k))
                before = os.stat(path) if os.path.exists(path) else None
                with open(path, "wb") as f:
                    f.write(op["text"].encode("utf-8"))
                if before is not None and op.get("keep_mtime"):
                    os.utime(path, ns=(before.st_atime_ns, before.st_mtime_ns))
                arg = path
            elif name == "send_config":
                arg = op["text"]
            elif name == "send_command":
                arg = op["lines"][0]
            else:
                lid = op.get("list_id")
                if lid is not None:
                    if pool is None:
                        raise RuntimeError("the op refers to a shared list but the scenario is not run as a history")
                    arg = pool["live"][lid]
                    apply_edits(pool["shadow"][lid], op.get("edits"))
                    if pool["shadow"][lid] != op["lines"]:
                        raise RuntimeError("history inconsistent: list %s holds %r after the caller's edits, the op says %r" % (
                            lid, pool["shadow"][lid][:6], op["lines"][:6]))
                    try:
                        apply_edits(arg, op.get("edits"))
                    except IndexError:                     # the object is no longer what the caller made it
                        pass
                    if canon_list(arg) != canon_list(op["lines"]):
                        caller["stale"] = "the caller put %d line(s) into the list (%r), it holds %d by now (%r)" % (
                            len(op["lines"]), [l[:30] for l in op["lines"]][:6], len(arg), [str(l)[:30] for l in arg][:6])
                else:
                    arg = list(op["lines"])
                caller["before"] = canon_list(arg)
                held = arg
                if op.get("container") == "tuple":
                    arg = tuple(arg)
                elif op.get("container") == "generator":
                    arg = iter(list(arg))
            o = {"exc": None, "flags": [], "results": [], "inputs": [], "multi_failed": None, "merged": None, "starved": False,
                 "nav_starved": False, "caller": caller}
            try:
                res = run.call(getattr(d, name), arg, **kw)
                if name == "send_command":
                    o["flags"], o["results"], o["inputs"] = [res.failed], [res.result], [res.channel_input]
                elif name == "send_config":
                    o["merged"] = [res.failed, res.result, res.channel_input]
                else:
                    o["flags"] = [r.failed for r in res]
                    o["results"] = [r.result for r in res]
                    o["inputs"] = [r.channel_input for r in res]
                    o["multi_failed"] = res.failed
            except Starved:
                o["exc"], o["starved"], o["nav_starved"] = "Starved", True, nav_open[0] > 0
            except Exception as e:  # noqa
                o["exc"] = type(e).__name__
            if caller["before"] is not None:
                caller["after"] = canon_list(held)
                if op.get("container") == "generator":
                    caller["iter_left"] = canon_list(list(arg))
            if caller["fwc_before"] is not None:
                caller["fwc_after"] = canon_list(fw)
            writes = d.transport.writes[w0:]
            events, pos = [], 0
            in_nav = set()
            for (a, b, target, la, lb) in navs:
                a, b = a - w0, b - w0
                in_nav |= set(range(la - l0, lb - l0))
                events += [("w", x) for x in writes[pos:a]]
                events.append(("nav", target))
                pos = b
            events += [("w", x) for x in writes[pos:]]
            o["events"] = events
            o["log"] = [(m, bytes(raw), bytes(out), j in in_nav) for j, (m, raw, out) in enumerate(dev.log[l0:])]
            o["rx"] = bytes(dev.rx[r0:])
            o["cur0"] = cur0
            o["cur"] = d._current_priv_level.name if kind != "generic" else ""
            o["mode"] = dev.mode
            o["residue"] = d.transport.residue()
            o["markers_default"] = list(getattr(d, "failed_when_contains", []) or []) if kind != "generic" else []
            o["user_levels"] = ulevels
            obs.append(o)
            if o["exc"] == "Starved":
                break
    finally:
        run.close()
        shutil.rmtree(fdir, ignore_errors=True)
    return obs


# ------------------------------------------------------------------------------------------------
# the property oracle (independent of the model): decided on what the device saw
# ------------------------------------------------------------------------------------------------
def target_mode(kind, op):
    if kind == "generic":
        return "shell"
    if op["op"] in GENERIC_OPS:
        return "exec" if kind == "juniper_junos" else "privilege_exec"
    p = op["priv"] or "configuration"
    return "session:" + p if (p == SESSION and kind in ("cisco_nxos", "arista_eos")) else p


def call_markers(kind, op, o):
    f = op["fwc"]
    if f is None:
        if op.get("dflt") is not None:                  # the scenario's own driver-level set
            return list(op["dflt"])
        return [] if kind == "generic" else o["markers_default"]
    return [f] if isinstance(f, str) else list(f)


def is_transition(kind, mode, raw, ulevels=None):
    from .simdevice import PLATFORMS
    t = PLATFORMS[plat(kind)]()
    line = raw.decode("latin-1").strip()
    if c13_levels.is_user_transition(ulevels, mode, line):
        return True
    tbl = t["trans"].get("session" if mode.startswith("session:") else mode, {})
    if line in tbl:
        return True
    s = t.get("session_cmd")
    return bool(s and mode == "privilege_exec" and line.startswith(s))


def planned(kind, op, o):
    """which lines must be sent and which responses must be failed, from the scenario's own outputs"""
    lines = op_lines(op)
    n = len(lines)
    outs = list(op["outs"]) + [""] * (n - len(op["outs"]))
    M = call_markers(kind, op, o)
    stop, eager = (op["stop"], op["eager"]) if op["op"] != "send_command" else (False, False)
    sent, exp_flags = [], []
    for i, l in enumerate(lines):
        res = "" if (eager and i < n - 1) else out_text(outs[i])
        f = any(m in res for m in M)
        sent.append(l)
        exp_flags.append(f)
        if stop and f:
            break
    return sent, exp_flags, M


def device_lines(sent):
    """what the device executes when it receives the wire image of the lines (each line byte for byte + one return), read by the
    device's own line discipline: CR, LF and CR LF each end a line, blank lines are not executed.  For a line without CR / LF in it
    this is the line itself; a line that carries a terminator of its own ("description x\n", "x\r\n", "\nx") is still written
    byte for byte and followed by its one return, the device then reads its segments."""
    wire = b"".join(l.encode("utf-8") + b"\n" for l in sent)
    return [s for s in re.split(b"\r\n|\r|\n", wire)[:-1] if s.decode("latin-1").strip()]


def returns_inside(l):
    """the line carries a CR / LF of its own after its text (the device has run the text before the line's own return arrives)"""
    return bool(re.search("[\r\n]", l.lstrip()))


def where(sent, k):
    """(line index, offset in that line, length of that line + return) of byte offset k of the wire"""
    pos = 0
    for j, l in enumerate(sent):
        ln = len(l.encode("utf-8")) + 1
        if k < pos + ln:
            return j, k - pos, ln
        pos += ln
    return len(sent), 0, 0


def oracle_starved(kind, op, o):
    """the call never came back: the driver reads although the (causal, echoing) device has answered everything it
    received.  The property is decided on what the device HAS received when the driver stalls: it must be
    the wire image of the lines (then the stall is the reading side's matter, C01/C02/C05), otherwise a line
    reached the device altered, cut short or without its return."""
    if o.get("nav_starved"):
        return []                          # inside privilege navigation: C03/C04's subject, reported as a harness failure
    sent, _, _ = planned(kind, op, o)
    wr = b"".join(x for k, x in o["events"] if k == "w")
    want = b"".join(l.encode("utf-8") + b"\n" for l in sent)
    c = 0
    while c < len(wr) and c < len(want) and wr[c] == want[c]:
        c += 1
    if c < len(wr) and c < len(want):
        j, off, ln = where(sent, c)
        return [("delivery-altered", "line %d of %d reached the device altered at byte %d of %d (then the call stalls, the driver waiting "
                 "for output that never comes): device received %r, the line is %r" % (j, len(sent), off, ln - 1, wr[c - min(c, 20):c + 40], want[c - min(c, 20):c + 40]))]
    if len(wr) < len(want):
        j, off, ln = where(sent, len(wr))
        if off == 0:
            return [("delivery-stalled", "the driver stopped after %d of %d lines and waits for output the device will never produce; "
                     "lines from %r on were never written" % (j, len(sent), sent[j][:60]))]
        if off == ln - 1:
            return [("return-missing", "line %d of %d (%r) reached the device without its return; the driver waits for output the "
                     "device will never produce" % (j, len(sent), sent[j][-40:]))]
        return [("delivery-cut-short", "line %d of %d reached the device cut short: %d of its %d bytes were written (%d characters), then "
                 "the driver waits for the echo of the rest; device received ...%r" % (
                     j, len(sent), off, ln - 1, len(sent[j]), wr[-40:]))]
    return []


def oracle_caller(kind, op, o):
    """the caller's own objects: the list handed to send_commands / send_configs (and a marker list handed over per call) holds after
    the call - however it ended - exactly what it held before it (deep comparison with the copy taken before the call), and when the
    call is made it holds what the caller put into it (an object handed over before is still the caller's).  Containers that are
    refused (tuple, iterator) are refused untouched."""
    c = o.get("caller") or {}
    bad = []
    if c.get("stale"):
        bad.append(("caller-list-stale", "%s handed over again: %s - an earlier call changed the caller's object, so this call is "
                    "not given the lines the caller means to send" % (op["op"], c["stale"])))
    if c.get("fwc_stale"):
        bad.append(("caller-markers-stale", "%s, failed_when_contains handed over again: %s - an earlier call changed the caller's object, so "
                    "this call is not given the markers the caller means" % (op["op"], c["fwc_stale"])))
    if c.get("before") is not None and c["after"] != c["before"]:
        b, a = [x[1] for x in c["before"]], [x[1] for x in c["after"]]
        bad.append(("caller-list-changed", "%s changed the caller's list: it held %d line(s) %r when the call was made and holds %d "
                    "afterwards %r (outcome of the call: %s)" % (op["op"], len(b), [str(x)[:40] for x in b][:8], len(a),
                                                                 [str(x)[:40] for x in a][:8], o["exc"] or "returned")))
    if c.get("fwc_before") is not None and c["fwc_after"] != c["fwc_before"]:
        bad.append(("caller-markers-changed", "%s changed the caller's failed_when_contains list: %r before the call, %r afterwards" % (
            op["op"], [x[1] for x in c["fwc_before"]][:6], [x[1] for x in c["fwc_after"]][:6])))
    if c.get("iter_left") is not None and c["iter_left"] != c["before"]:
        bad.append(("caller-iterator-consumed", "%s refused the iterator but took %d of its %d items" % (
            op["op"], len(c["before"]) - len(c["iter_left"]), len(c["before"]))))
    return bad


def oracle(kind, op, o):
    """list of (signature, text) property failures of one observed op ([] = holds): delivery, flags, abort on the device's side, and
    the caller's objects"""
    return oracle_delivery(kind, op, o) + oracle_caller(kind, op, o)


def oracle_delivery(kind, op, o):
    bad = []
    lines = op_lines(op)
    n = len(lines)
    outs = list(op["outs"]) + [""] * (n - len(op["outs"]))
    if o.get("starved"):
        return oracle_starved(kind, op, o)
    if o["exc"] is not None:
        if op.get("expect_exc") and o["exc"] == op["expect_exc"]:
            if any(k == "w" for k, _ in o["events"]) or o["log"]:
                bad.append(("wrote-before-refusal", "the refused call wrote to the device"))
            return bad
        sig = "empty-input-" + o["exc"] if n == 0 else "exception-" + o["exc"]
        bad.append((sig, "%s(%d lines) raised %s" % (op["op"], n, o["exc"])))
        return bad
    if op.get("expect_exc"):
        bad.append(("missing-exception", "expected %s, call returned" % op["expect_exc"]))
        return bad
    stop, eager = (op["stop"], op["eager"]) if op["op"] != "send_command" else (False, False)
    # which lines must have been sent, from the scenario's own outputs
    sent, exp_flags, M = planned(kind, op, o)
    tm = target_mode(kind, op)
    # (A) bytes: everything written outside navigation = each sent line once, in order, + one return, + abort step
    wr = b"".join(x for k, x in o["events"] if k == "w")
    want = b"".join(l.encode("utf-8") + b"\n" for l in sent)
    if not wr.startswith(want):
        j = 0
        while j < len(sent) and wr.startswith(b"".join(l.encode("utf-8") + b"\n" for l in sent[:j + 1])):
            j += 1
        kindof = "withheld-or-altered" if len(wr) < len(want) or j < len(sent) else "altered"
        c = 0
        while c < len(wr) and c < len(want) and wr[c] == want[c]:
            c += 1
        _, off, ln = where(sent, c)
        bad.append(("delivery-" + kindof, "bytes written outside navigation differ from the lines at line %d of %d (byte %d of its %d): "
                    "wrote ...%r, the lines are ...%r" % (j, len(sent), off, max(ln - 1, 0), wr[c - min(c, 20):c + 60], want[c - min(c, 20):c + 60])))
        return bad
    extra = wr[len(want):]
    # (B) the device's executed-line log: navigation, then the lines in the target mode, then the abort step
    failed_run = stop and any(exp_flags)
    seen_w = False
    for kk, x in o["events"]:
        seen_w = seen_w or kk == "w"
        if kk == "nav" and seen_w:
            bad.append(("abort-outside-session" if failed_run else "nav-after-lines",
                        "privilege navigation to %r after the lines were written (the failed session is %s)" % (x, tm)))
            break
    for (m, raw, _, nav) in o["log"]:
        if nav and not is_transition(kind, m, raw, o.get("user_levels")):
            bad.append(("nav-wrote-content", "navigation wrote the non-navigation line %r in %s" % (raw, m)))
            break
    full = o["log"]
    lead = 0
    while lead < len(full) and full[lead][3]:
        lead += 1
    user = device_lines(sent)
    got = full[lead:lead + len(user)]
    if [g[1] for g in got] != user or any(g[3] for g in got):
        bad.append(("delivery-log", "device executed %r, expected the lines %r" % ([g[1] for g in full[lead:]][:8], user[:8])))
        return bad
    wrong_mode = [g for g in got if g[0] != tm]
    if wrong_mode:
        bad.append(("line-in-wrong-mode", "line %r ran in %s, expected %s" % (wrong_mode[0][1], wrong_mode[0][0], tm)))
    post = full[lead + len(user):]
    is_cfg = op["op"] in ("send_configs", "send_config", "send_configs_from_file")
    # a level the USER added (his privilege_levels: a shell, ...) is no configuration session on any platform
    at_user_level = tm in [u["name"] for u in o.get("user_levels") or []]
    sessionful = ((kind in ("cisco_iosxr", "juniper_junos")) and not at_user_level) or tm.startswith("session:")
    if not (failed_run and is_cfg and sessionful):
        if post or extra:
            steps = [p[1] for p in post if p[1].decode("latin-1").strip() in ABORT_STEPS.get(kind, set())]
            if at_user_level and failed_run and steps:
                bad.append(("abort-at-user-level:" + kind, "after the failed line the abort / rollback step %r was written at the user-supplied "
                            "privilege level %r, which is no configuration session (device log after the lines: %r; the driver now believes it "
                            "is in %r, the device is in %r)" % (steps, tm, [(p[0], p[1]) for p in post], o["cur"], o["mode"])))
            else:
                bad.append(("extra-lines", "lines beyond the input were written: %r %r" % (extra[:80], [p[1] for p in post])))
    else:
        steps = 0
        for (m, raw, _, nav) in post:
            if m != tm:
                bad.append(("abort-outside-session", "after the failed line, %r ran in %s while the failed session is %s" % (raw, m, tm)))
                break
            if raw.decode("latin-1").strip() in ABORT_STEPS[kind]:
                steps += 1
            elif not nav:
                bad.append(("extra-lines", "unexpected line %r after the failed one" % raw))
                break
        if not steps and not bad:
            bad.append(("abort-missing", "the run failed inside %s but no abort / rollback step was issued" % tm))
    # (C) flags
    if op["op"] == "send_config":
        mf, mres, minp = o["merged"]
        if mf != any(exp_flags):
            bad.append(("merged-failed-flag", "send_config response failed=%s, lines failed=%s" % (mf, exp_flags)))
        if minp != op["text"]:
            bad.append(("merged-input", "send_config response channel_input altered"))
        # (markers with a newline: known finding; nothing sent: there is no output to speak of)
        if sent and not any("\n" in m for m in M) and not eager and mf != any(m in mres for m in M):
            bad.append(("merged-failed-vs-output", "send_config failed=%s but marker containment of its output is %s" % (mf, not mf)))
    else:
        if len(o["flags"]) != len(sent):
            bad.append(("response-count", "%d responses for %d lines sent" % (len(o["flags"]), len(sent))))
        else:
            if o["inputs"] != sent:
                bad.append(("response-inputs", "response channel_inputs differ from the lines sent"))
            for j, (f, res) in enumerate(zip(o["flags"], o["results"])):
                if f != any(m in res for m in M):
                    bad.append(("failed-vs-output", "response %d failed=%s but its output %r contains a marker: %s" % (j, f, res[:80], not f)))
                    break
                if f != exp_flags[j]:
                    bad.append(("failed-vs-device", "response %d failed=%s but the device's output %r says %s (markers %r)" % (
                        j, f, out_bytes(outs[j])[:80] if isinstance(outs[j], dict) else outs[j][:80], exp_flags[j], [m[:40] for m in M][:4])))
                    break
            if op["op"] != "send_command" and o["multi_failed"] != any(o["flags"]):
                bad.append(("multi-failed", "MultiResponse.failed=%s, elements %s" % (o["multi_failed"], o["flags"])))
    return bad


# ------------------------------------------------------------------------------------------------
# model side
# ------------------------------------------------------------------------------------------------
HEADER = """From Verif Require Import Bytes Response Send.
From Gen Require Import Gen_Send.
Definition obs := (list ev * N * list bool * option (bool * bytes) * bytes)%type.
Definition case := (nat * ver * drv * bytes * fwc * (bool * bool) * bytes * list bytes * bytes * list bytes * obs)%type.
Definition code {A} (o : outcome A) : N := match o with Ok _ => 0 | Raised e => exn_code e end.
Definition fl (o : outcome (list response)) : list bool := match o with Ok rs => flags rs | Raised _ => [] end.
Definition chk (c : case) : bool :=
  let '(op, v, d, cur, f, (stop, eager), priv, lines, text, outs, (oev, ocode, oflags, omerged, ocur)) := c in
  let dev := fun (i : nat) (_ : bytes) => nth i outs [] in
  let cmp3 (r : list ev * outcome (list response) * bytes) :=
    let '(es, o, cur') := r in
    ev_beq es oev && (code o =? ocode) && bools_beq (fl o) oflags && beq cur' ocur in
  match op with
  | 0%nat => cmp3 (send_commands dev (v_guard_cmds v) f stop eager lines, [])
  | 1%nat => cmp3 (send_commands_from_file dev (v_guard_cmds v) f stop eager text, [])
  | 2%nat => let (es, r) := send_command dev f false 0 (hd [] lines) in
             ev_beq es oev && (0 =? ocode) && bools_beq [r_failed r] oflags
  | 3%nat => let '(es, r, cur') := net_send_command dev d cur f (hd [] lines) in
             ev_beq es oev && (0 =? ocode) && bools_beq [r_failed r] oflags && beq cur' ocur
  | 4%nat => cmp3 (net_send_commands dev v d cur f stop eager lines)
  | 5%nat => cmp3 (net_send_commands_from_file dev v d cur f stop eager text)
  | 6%nat => cmp3 (send_configs dev v d cur f stop eager priv lines)
  | 8%nat => cmp3 (send_configs_from_file dev v d cur f stop eager priv text)
  | 7%nat => let '(es, o, cur') := send_config dev v d cur f stop eager priv text in
             ev_beq es oev && (code o =? ocode) && beq cur' ocur &&
             match o, omerged with
             | Ok r, Some (mf, mres) => Bool.eqb (r_failed r) mf && beq (r_result r) mres
             | Raised _, None => true
             | _, _ => false
             end
  | _ => false
  end.
"""
# the 256 byte values as named constants: Coq reads a name several times faster than a number literal, and the
# cases with very long lines are dominated by reading the bytes in
HEADER += "".join("Definition xb%d : N := %d.\n" % (i, i) for i in range(256))
_XB = ["xb%d" % i for i in range(256)]


def coq_bytes(b):                                          # (shadows common.coq_bytes: same value, named bytes)
    return "[" + ";".join(_XB[x] for x in b) + "]"


EXC_CODE = {None: 0, "IndexError": 1, "ScrapliPrivilegeError": 2}


def u8(s):
    return coq_bytes(s.encode("utf-8"))


def case_term(kind, stack, op, o):
    fam = "generic" if kind == "generic" else "net"
    code = OPCODE[(fam, op["op"])]
    lines = op_lines(op)
    n = len(lines)
    # outputs the channel returned: observed where a line was read to the prompt, planned otherwise
    outs = [out_text(x) for x in op["outs"]] + [""] * (n - len(op["outs"]))
    if op["op"] != "send_config":
        for j, res in enumerate(o["results"]):
            if j < n and not (op["op"] != "send_command" and op["eager"] and j < n - 1):
                outs[j] = res
    f = op["fwc"]
    fwc = "FNone" if f is None else ("(FStr %s)" % u8(f) if isinstance(f, str) else "(FList %s)" % coq_list([u8(x) for x in f]))
    drv = "gen_drv_%s_%s" % ("network" if kind == "generic" else kind, stack)
    if op.get("dflt") is not None or o.get("user_levels"):
        # the driver as constructed by the scenario: its own marker set, the user's extra levels (name, "pattern contains config\-s")
        lv = "(d_levels %s)" % drv
        if o.get("user_levels"):
            lv = "(%s ++ %s)" % (lv, coq_list(["(%s, %s)" % (u8(u["name"]), coq_bool(c13_levels.is_session_pattern(u["pattern"])))
                                               for u in o["user_levels"]]))
        mk = coq_list([u8(x) for x in op["dflt"]]) if op.get("dflt") is not None else "(d_markers %s)" % drv
        drv = "(mkD (d_abort %s) %s (d_default_priv %s) %s)" % (drv, lv, drv, mk)
    ver = "(mkV gen_sc_guard_empty_%s gen_guard_cfg)" % stack
    evs = coq_list(["(EW %s)" % coq_bytes(x) if k == "w" else "(ENav %s)" % u8(x) for k, x in o["events"]])
    merged = "None" if o["merged"] is None else "(Some (%s, %s))" % (coq_bool(o["merged"][0]), u8(o["merged"][1]))
    stop, eager = (op["stop"], op["eager"]) if op["op"] != "send_command" else (False, False)
    return "((%d%%nat, %s, %s, %s, %s, (%s, %s), %s, %s, %s, %s, (%s, %d, %s, %s, %s)) : case)" % (
        code, ver, drv, u8(o["cur0"]), fwc, coq_bool(stop), coq_bool(eager), u8(op.get("priv", "") or ""),
        coq_list([u8(l) for l in lines]) if op["op"] not in ("send_config", "send_commands_from_file", "send_configs_from_file") else "[]",
        u8(op.get("text", "") or ""), coq_list([u8(x) for x in outs]),
        evs, EXC_CODE.get(o["exc"], 9), coq_list([coq_bool(x) for x in o["flags"]]), merged, u8(o["cur"]))


# ------------------------------------------------------------------------------------------------
# generators
# ------------------------------------------------------------------------------------------------
WORDS = ["interface", "loopback", "description", "show", "version", "set", "system", "ip", "address", "no", "shutdown",
         "vlan", "router", "bgp", "neighbor", "10.0.0.1", "255.255.255.0", "Ethernet1/1", "lo0", "unit", "0", "family", "inet",
         "hostname", "r1-core", "snmp-server", "community", "RO", "ntp", "server", "logging", "host", "x", "y"]
UNI = ["\u00e9", "\u00fc", "\u00df", "\u03a9", "\u0436", "\u4e2d", "\u6587", "\u20ac", "\u00f1", "\u00a0", "\U0001d518", "\u0131", "\u0130"]
PUNCT = list("-_./=,'\"()+*!?;")


# multi-byte characters by UTF-8 width (none of their bytes is a blank, a control or a prompt character)
WIDE = {2: "\u00e9\u00fc\u00df\u03a9\u0436\u00f1", 3: "\u4e2d\u6587\u20ac", 4: "\U0001d518\U0001f600"}
LONG_CHARS = [257, 600, 1000, 1023, 1024, 1025, 1500, 2048, 4097]
LONG_FLAVOURS = ["ascii", "ascii", "ascii", "all2", "all3", "all4", "sprinkled", "head", "tail", "words"]
LONG_WORDS = ["Gr\u00fc\u00dfe", "aus", "K\u00f6ln", "\u043e\u043f\u0438\u0441\u0430\u043d\u0438\u0435", "\u63a5\u53e3", "uplink", "to", "core",
              "na\u00efve", "co\u00fbt", "10.0.0.1", "\u20ac42", "rack-7", "\U0001f600"]


def gen_long(rng, n=None, flavour=None):
    """a very long line: n characters; pure ASCII or with multi-byte characters (all of one width, sprinkled, only the
    first / the last character, or words) so that character count and encoded length differ by every factor up to 4"""
    n = n or rng.choice(LONG_CHARS)
    flavour = flavour or rng.choice(LONG_FLAVOURS)
    ab = "abcdefghij0123456789 "
    if flavour in ("all2", "all3", "all4"):
        n = min(n, {"all2": 2048, "all3": 1400, "all4": 1025}[flavour])   # encoded length stays below ~4.2 KiB
    if flavour == "ascii":
        body = "".join(rng.choice(ab) for _ in range(n))
    elif flavour in ("all2", "all3", "all4"):
        cs = WIDE[int(flavour[3])]
        body = "".join(rng.choice(cs) for _ in range(n))
    elif flavour == "sprinkled":
        cs = WIDE[2] + WIDE[3] + WIDE[4]
        body = "".join(rng.choice(cs) if rng.random() < 0.1 else rng.choice(ab) for _ in range(n))
    elif flavour == "head":
        body = rng.choice(WIDE[rng.choice([2, 3, 4])]) + "".join(rng.choice(ab) for _ in range(n - 1))
    elif flavour == "tail":
        body = "".join(rng.choice(ab) for _ in range(n - 1)) + rng.choice(WIDE[rng.choice([2, 3, 4])])
    else:
        ws = []
        while sum(len(w) + 1 for w in ws) < n:
            ws.append(rng.choice(LONG_WORDS))
        body = " ".join(ws)
    s = "description " + (body.strip() or "a")
    if rng.random() < 0.15:
        s += rng.choice([" ", "  ", "\t"])
    return s


def sized_line(nbytes, width, tag="d"):
    """a line of exactly nbytes encoded bytes made of width-byte characters (ASCII padding at the front)"""
    head = tag + " "
    k = (nbytes - len(head)) // width
    pad = nbytes - len(head) - k * width
    cs = WIDE[width] if width > 1 else "x"
    return head + "p" * pad + "".join(cs[i % len(cs)] for i in range(k))


def gen_line(rng, trans):
    k = rng.random()
    if k < 0.06:
        return ""
    if k < 0.10:
        return rng.choice([" ", "  ", "\t", " \t "])
    if k < 0.15:
        return gen_long(rng)
    toks = [rng.choice(WORDS) for _ in range(rng.randint(1, 5))]
    if rng.random() < 0.25:
        toks.insert(rng.randint(0, len(toks)), "".join(rng.choice(UNI) for _ in range(rng.randint(1, 4))))
    if rng.random() < 0.2:
        toks.append(rng.choice(PUNCT) + rng.choice(WORDS))
    s = rng.choice([" ", " ", "  ", "\t"]).join(toks) if rng.random() < 0.2 else " ".join(toks)
    if rng.random() < 0.2:
        s = rng.choice([" ", "  ", "\t"]) + s
    if rng.random() < 0.2:
        s = s + rng.choice([" ", "  ", "\t"])
    if dev_key(s) in trans or dev_key(s).startswith("configure") or dev_key(s) in ("abort", "rollback 0", "exit"):
        s = "x" + s.strip()
    return s


def ok_output(rng):
    k = rng.random()
    if k < 0.45:
        return ""
    if k < 0.8:
        return "ok %d" % rng.randint(0, 999)
    return "\n".join("row %d value %s" % (j, rng.choice(WORDS)) for j in range(rng.randint(2, 4)))


def gen_op(rng, kind, trans, force=None):
    force = force or {}
    ops = GENERIC_OPS if kind == "generic" else NET_OPS
    name = force.get("op") or rng.choice(ops if kind == "generic" else NET_OPS + ["send_configs", "send_configs", "send_config"])
    n = force.get("n")
    if n is None:
        n = 1 if name == "send_command" else rng.choice([0, 1, 1, 2, 2, 3, 3, 4, 5, 6, 8])
    if name == "send_command":
        n = 1
    if "lines" in force:
        lines = list(force["lines"])
        n = len(lines)
    else:
        lines = [gen_line(rng, trans) for _ in range(n)]
    if "lines" not in force and n >= 2 and rng.random() < 0.15:
        # the same line more than once in one call (next to each other or apart): each occurrence must be written
        i, j = rng.sample(range(n), 2)
        lines[j] = lines[i]
        if rng.random() < 0.3:
            lines[(j + 1) % n] = lines[i]
    # markers
    mk = rng.random()
    vendor = VENDOR_ERRORS[kind]
    if kind == "generic":
        fwc = rng.choice([None, "unknown command", ["unknown command", "ERR"], ["ERR"], [], ""]) if mk < 0.9 else "\u00e9!"
    elif mk < 0.55:
        fwc = None
    elif mk < 0.7:
        fwc = rng.choice(["ERR", "fail here", "\u00e9!", "Invalid"])
    elif mk < 0.9:
        fwc = rng.choice([["ERR", "bad thing"], ["\u00fc-marker"], ["Invalid", "syntax error"], []])
    else:
        fwc = rng.choice(["", ["", "ERR"]])
    if "fwc" in force:
        fwc = force["fwc"]
    outgen = force.get("outgen")
    eff = fwc if fwc is not None else ([] if kind == "generic" else vendor)
    eff = [eff] if isinstance(eff, str) else list(eff)
    # outputs: failing positions
    outs = []
    nfail = force.get("nfail", rng.choice([0, 0, 1, 1, 1, 2]))
    failpos = set(force.get("failpos", rng.sample(range(n), min(nfail, n)) if n else []))
    for i, l in enumerate(lines):
        if not dev_key(l):
            outs.append("")
            continue
        if outgen is not None:
            outs.append(outgen())
            continue
        if i in failpos:
            cands = [m for m in eff if m] or ["ERR"]
            m = rng.choice(cands)
            if fwc is None and kind != "generic":
                m = rng.choice(vendor)
            o = m if rng.random() < 0.6 else "line before\n  ^ " + m + " (detail)\nline after"
            outs.append(o.rstrip())
        else:
            outs.append(ok_output(rng))
    op = {"op": name, "lines": lines, "outs": outs, "fwc": fwc,
          "stop": force.get("stop", rng.random() < 0.6), "eager": force.get("eager", rng.random() < 0.25), "priv": ""}
    if name in ("send_configs", "send_config", "send_configs_from_file"):
        op["priv"] = force.get("priv", rng.choice(CONFIG_LEVELS[kind]))
    if name in ("send_config", "send_commands_from_file", "send_configs_from_file"):
        if name == "send_config" or rng.random() < 0.5:
            seps = [rng.choice(BOUNDARIES if rng.random() < 0.3 else ["\n", "\n", "\r\n"]) for _ in lines]
        else:
            seps = ["\n"] * len(lines)
        text = "".join(l + s for l, s in zip(lines, seps))
        if lines and lines[-1] and rng.random() < 0.5:
            text = text[:-len(seps[-1])]          # no terminator after the last line
        op["text"] = text
        sp = text.splitlines()
        if sp != lines:                           # e.g. "\r" + "\n" of two separators merge; keep outs aligned
            op["outs"] = _realign(lines, outs, sp)
    fix_eager(op)
    return op


def _realign(lines, outs, sp):
    m = {}
    for l, o in zip(lines, outs):
        m.setdefault(l, []).append(o)
    res = []
    for l in sp:
        res.append(m[l].pop(0) if m.get(l) else "")
    return res


def fix_eager(op):
    """eager mode with a blank last line makes the last response swallow earlier output (a framing
    matter, C01): keep the last line non-blank there"""
    if op["op"] == "send_command" or not op["eager"]:
        return
    ls = op_lines(op)
    if ls and not dev_key(ls[-1]):
        op["eager"] = False


# ------------------------------------------------------------------------------------------------
# failure-marker sets as TEXT: markers over an alphabet with every regular-expression / glob metacharacter, vendor
# complaints in full, markers that are prefixes / suffixes / superstrings of each other, the empty marker, very long
# markers; outputs that carry (i) a marker literally, (ii) a string that a pattern reading of the marker accepts
# although the marker is not in it, (iii) near misses.  Expectation is always literal containment (planned()).
# ------------------------------------------------------------------------------------------------
META = "\\^$.|?*+()[]{}"
MARKER_ALPHA = list(META) * 2 + list("abAB01 %'\"-_:/,!<=&~") + ["\u00e9", "\u00df", "\u20ac"]
MARKER_ATOMS = list(META) + ["(", "[", "\\", "*", "+", "?", "{", ")", "a|", "|", "(?", "[^", "a{2", ".*", "^$", "[]", "()", "\\d", "x\\",
                             "*a", "+a", "?a", "a**", "(?P<", "[a-", "{1,", "(a|", "\\1", "(?i)e"]
MARKER_TEXTS = sorted({m for ms in VENDOR_ERRORS.values() for m in ms}) + [
    "error: syntax error, expecting <command>.", "Error: (config) [line 3]: bad value {x}", "cost $5 + tax?", "C:\\temp\\x.cfg not found",
    "a.b.c.d/32", "*** failed ***", "what?", "(y/n)", "[confirm]", "% Invalid input detected at '^' marker", "^", "'^'",
    "Aborted: Permission denied (uid=0)", "%Error: [OK]?", "rc=1|2", "1+1=2", "^% Invalid", "marker.$"]
MARKER_PATTERNS = ["ERR.*", "^ERR", "ERR$", "E?RR", "ER+", "a|b", "[Ee]rror", "err(or)?", "\\d+ errors", "fail{2}", "x*", ".", "..", "\\.",
                   "[a-z]", "(a)(b)", "\\berr", "bad.value", "Inv.lid", "% *Invalid", "[%] Invalid", "error|fail", "error|", "|fail",
                   "fail*", "fail?", "E[R]R", "(ERR)", "ERR{1}", "\\s", "\\w+", "[^x]", "e.r", "ok|ERR"]
LONG_MARKERS = {"p": 0.03, "sizes": [260, 300, 420]}      # (reading long cases into Coq is what costs: the thorough tier has more and longer ones)
OUT_PRE = ["", "", "a", "line before\n  ^ ", "r1: ", "x"]
OUT_POST = ["", "", "z", " (detail)\nline after", ".", " !", "\nnext line"]
LINE_ENDS_OK = ".)!'\""        # (besides letters and digits) no vendor's prompt ends like this


def gen_marker(rng):
    k = rng.random()
    if k < 0.28:
        m = "".join(rng.choice(MARKER_ALPHA) for _ in range(rng.randint(1, 8)))
        if not any(c in META for c in m):
            i = rng.randint(0, len(m))
            m = m[:i] + rng.choice(META) + m[i:]
        return m
    if k < 0.42:
        return rng.choice(MARKER_ATOMS)
    if k < 0.64:
        return rng.choice(MARKER_TEXTS)
    if k < 0.86:
        return rng.choice(MARKER_PATTERNS)
    if k < 1.0 - LONG_MARKERS["p"]:
        return rng.choice(["\u00e9*", "\u00fc.\u00df", "\u20ac5.00", "(\u4e2d)", "\u0130?", "\u00f1|\u00d1", "[\u00e9\u00e8]"])
    n = rng.choice(LONG_MARKERS["sizes"])
    body = "".join(rng.choice(MARKER_ALPHA) if rng.random() < 0.15 else rng.choice("abcdefgh01 ") for _ in range(n))
    return "E" + body + "!"


def gen_marker_set(rng, want_list=False):
    """a per-call (str or list) or driver-level (list) marker set"""
    base = [gen_marker(rng) for _ in range(rng.choice([1, 1, 1, 2, 2, 3]))]
    m = base[0]
    if len(m) >= 2 and rng.random() < 0.35:
        cut = rng.randint(1, len(m) - 1)
        base += rng.choice([[m[:cut]], [m[cut:]], [m[:cut], m[cut:]], [m + "x"], ["x" + m], [m], [m.swapcase()], [m[:cut] + m[cut + 1:]]])
    if rng.random() < 0.08:
        base.insert(rng.randint(0, len(base)), "")
    rng.shuffle(base)
    if not want_list and len(base) == 1 and rng.random() < 0.6:
        return base[0]
    return base


def pattern_accepts(m, text):
    """would a pattern reading of the marker (regular expression, or shell glob) find it in the text?  None: not a valid pattern.
    Used to SHAPE outputs and to report the distribution, never to decide the property."""
    import fnmatch
    import re
    import warnings
    if len(m) > 40:
        return False
    try:
        with warnings.catch_warnings():
            warnings.simplefilter("ignore")
            if re.search(m, text):
                return True
    except (re.error, RecursionError, OverflowError):
        pass
    try:
        return bool(fnmatch.fnmatchcase(text, "*" + m + "*"))
    except Exception:  # noqa
        return False


def lookalikes(rng, m):
    """(accepted by a pattern reading and not literal, all structural rewrites)"""
    c = set()
    fill = rng.choice(["x", "Q", "7", "qq", "_"])
    for i, ch in enumerate(m):
        if ch == ".":
            c.add(m[:i] + fill[0] + m[i + 1:])
        elif ch in "?*":
            c |= {m[:max(i - 1, 0)] + m[i + 1:], m[:i] + m[i + 1:], m[:i] + fill + m[i + 1:], m[:i] + m[max(i - 1, 0):i] * 2 + m[i + 1:]}
        elif ch == "+":
            c |= {m[:i] + m[max(i - 1, 0):i] * 2 + m[i + 1:], m[:i] + m[i + 1:]}
        elif ch == "^":
            c |= {m[:i] + m[i + 1:], m[i + 1:]}
        elif ch == "$":
            c |= {m[:i] + m[i + 1:], m[:i]}
        elif ch == "|":
            c |= {m[:i], m[i + 1:]}
        elif ch == "\\":
            c |= {m[:i] + m[i + 1:], m[:i] + {"d": "7", "w": "k", "s": " ", "b": ""}.get(m[i + 1:i + 2], m[i + 1:i + 2]) + m[i + 2:]}
        elif ch == "[":
            j = m.find("]", i + 2)
            if j > 0:
                c |= {m[:i] + x + m[j + 1:] for x in m[i + 1:j] if x not in "^-"}
        elif ch == "(":
            j = m.find(")", i)
            if j > 0:
                c |= {m[:i] + m[i + 1:j] + m[j + 1:], m[:i] + m[j + 2:] if m[j + 1:j + 2] == "?" else m[:i] + m[i + 1:j] * 2 + m[j + 1:]}
        elif ch == "{":
            j = m.find("}", i)
            if j > 0 and m[i + 1:j].isdigit() and i > 0:
                c.add(m[:i - 1] + m[i - 1] * min(int(m[i + 1:j]), 5) + m[j + 1:])
    plain = "".join(ch for ch in m if ch not in META)
    c |= {plain, m.replace(".", fill[0]), m.replace("*", fill).replace("?", fill[0])}
    c = sorted(x for x in c if x and m not in x)
    good = [x for x in c if pattern_accepts(m, x)]
    return good, c


def near_misses(rng, m):
    i = rng.randint(0, max(len(m) - 1, 0))
    sub = "x" if m[i:i + 1] != "x" else "y"
    c = {m[:i] + m[i + 1:], m[:i] + sub + m[i + 1:], m.swapcase(), m[:i] + " " + m[i:], m[::-1], m[:-1], m[1:], m[:i] + m[i:i + 1] * 2 + m[i + 1:],
         " ".join(m.split()), m.lower(), m.upper(), m[:i] + "\n" + m[i:]}
    return sorted(x for x in c if x and x != m)


def out_safe(o):
    """the channel rstrips every output line and strips the whole; a line that ends like a prompt (# > $ % ~ @ : ] ...) is read as
    one and removed (C01/C02's subject): the outputs of this stream stay away from both, so that the device's output IS the
    response's output.  (The stream is read unsplit for the same reason: a read that ends inside a line after such a character.)"""
    if o != o.strip():
        return False
    ls = o.split("\n")
    return all(l == l.rstrip() and (not l or l[-1].isalnum() or l[-1] in LINE_ENDS_OK) for l in ls) and \
        not any(ord(ch) < 32 and ch != "\n" for ch in o)


def wrap_output(rng, x):
    for pre, post in ((rng.choice(OUT_PRE), rng.choice(OUT_POST)), ("a", "z")):
        o = pre + x + post
        if out_safe(o):
            return o
    return "a" + x.replace("\n", "_") + "z"


def marker_output(rng, M):
    """one device output for a call whose effective marker set is M"""
    ms = [m for m in M if m]
    k = rng.random()
    if not ms or k < 0.2:
        return ok_output(rng)
    m = rng.choice(ms)
    if k < 0.5:
        x = m
    elif k < 0.8:
        good, allc = lookalikes(rng, m)
        pool = good if (good and rng.random() < 0.75) else (allc or near_misses(rng, m))
        x = rng.choice(pool) if pool else m
    else:
        nm = near_misses(rng, m)
        x = rng.choice(nm) if nm else m
    return wrap_output(rng, x)


def gen_marker_scenario(rng, trans, kind=None):
    kind = kind or rng.choice(KINDS)
    stack = rng.choice(["sync", "async"])
    scn = {"kind": kind, "stack": stack, "ops": [], "policy": ["whole"]}
    dflt = None
    if kind != "generic" and rng.random() < 0.35:
        dflt = [m for m in gen_marker_set(rng, want_list=True) if m] or [gen_marker(rng)]
        scn["driver_markers"] = dflt
    for _ in range(rng.choice([1, 1, 2])):
        if dflt is not None and rng.random() < 0.7:
            fwc = None
        else:
            fwc = gen_marker_set(rng)
        eff = fwc if fwc is not None else dflt
        eff = [eff] if isinstance(eff, str) else list(eff)
        force = {"fwc": fwc, "outgen": (lambda eff=eff: marker_output(rng, eff)), "stop": rng.random() < 0.7, "eager": rng.random() < 0.15}
        if rng.random() < 0.5:
            force["n"] = rng.choice([2, 3, 4])
        op = gen_op(rng, kind, trans, force)
        if dflt is not None:
            op["dflt"] = list(dflt)
        scn["ops"].append(op)
    return scn


def marker_corpus():
    """fixed shapes: the vendors' own complaints given in full as the per-call marker, with the device printing exactly that"""
    out = []
    for kind, stack in (("cisco_iosxe", "sync"), ("cisco_nxos", "async"), ("juniper_junos", "sync"), ("generic", "async")):
        full = VENDOR_ERRORS[kind][-1] if kind != "generic" else "unknown command (try '?')"
        for fwc in (full, [full, "never-printed"]):
            name = "send_commands" if kind == "generic" else "send_configs"
            out.append({"kind": kind, "stack": stack, "policy": ["whole"], "ops": [
                {"op": name, "lines": ["set ok 1", "set bad 2", "set never 3"], "outs": ["", "set bad 2\n      ^\n" + full, ""], "fwc": fwc, "stop": True,
                 "eager": False, "priv": ""},
                {"op": "send_command", "lines": ["show thing"], "outs": [full[:-1]], "fwc": fwc, "stop": False, "eager": False, "priv": ""}]})
    # a very long marker (every metacharacter in it), printed literally and with one character changed in the middle
    big = "E" + "".join((META[i % len(META)] if i % 9 == 4 else "abcdefgh01 "[i % 11]) for i in range(400)) + "!"
    for kind, stack in (("cisco_iosxr", "async"), ("arista_eos", "sync")):
        out.append({"kind": kind, "stack": stack, "policy": ["whole"], "driver_markers": [big[:200] + "#", big], "ops": [
            {"op": "send_configs", "lines": ["set ok 1", "set near 2", "set bad 3", "set never 4"],
             "outs": ["ok", "x" + big[:200] + "y" + big[201:] + "z", "x" + big + "z", ""], "fwc": None, "dflt": [big[:200] + "#", big], "stop": True,
             "eager": False, "priv": ""}]})
    return out


# ------------------------------------------------------------------------------------------------
# device outputs as BYTES: what a device prints need not be UTF-8.  Families of outputs with bytes >= 0x80 that are not
# well-formed UTF-8 (lone continuation bytes, ISO-8859-1 text, truncated sequences, ill-formed ones: overlong forms,
# surrogates, above U+10FFFF, 0xFE/0xFF) and of well-formed multi-byte UTF-8, each with and without a failure marker
# (the marker before / after / right next to the bytes, on another line, or broken by such a byte), on every op kind,
# mostly with stop_on_failed.  Expectation as everywhere (planned()): failed <=> a marker occurs in the output's text.
# ------------------------------------------------------------------------------------------------
RAW_FAMILIES = {
    "lone-continuation": [b"\x80", b"\xbf", b"\x93\xa5", b"\xb6", b"\xb6\x93\xa5", b"\xa9", b"\x99x\x9c"],
    "latin1-text": [t.encode("latin-1") for t in ("caf\xe9", "Gr\xfc\xdfe aus K\xf6ln", "r\xe9sum\xe9 n\xb05", "se\xf1or", "\xa9 2024 ACME",
                                                  "na\xefve co\xfbt", "d\xe9j\xe0 vu", "\xe9", "\xc5ngstr\xf6m 5\xb5m")],
    "truncated": [b"\xc3", b"\xe2\x82", b"\xf0\x9f\x98", b"\xe4\xb8", b"\xf0\x9f", b"\xd0", b"\xe2", b"\xf0"],
    "ill-formed": [b"\xc0\xaf", b"\xc1\xbf", b"\xed\xa0\x80", b"\xf5\x80\x80\x80", b"\xff", b"\xfe\xff", b"\xe0\x80\x80", b"\xf4\x90\x80\x80",
                   b"\xc3\x28", b"\xf0\x80\x80\x80", b"\xf8\x88\x80\x80\x80", b"\xe2\x28\xa1"],
}
RAW_VALID = ["\u00e9", "Gr\u00fc\u00dfe", "\u4e2d\u6587 ok", "\U0001f600", "\u20ac42", "\u0436", "na\u00efve co\u00fbt", "\u00a9 2024", "\u03a9",
             "\U0010ffff", "\ud7ff\ue000", "\u0080\u07ff\u0800"]
RAW_KINDS = sorted(RAW_FAMILIES) + ["valid-multibyte", "valid-multibyte", "mixed"]


def raw_safe(b):
    """(as out_safe, on bytes) the channel rstrips lines, strips the whole and removes lines that end like a prompt: stay away from that"""
    if b != b.strip() or any(c < 32 and c != 10 for c in b):
        return False
    return all(l == l.rstrip() and (not l or l[-1] >= 0x80 or chr(l[-1]).isalnum() or chr(l[-1]) in LINE_ENDS_OK) for l in b.split(b"\n"))


def raw_piece(rng, fam):
    if fam == "valid-multibyte":
        return rng.choice(RAW_VALID).encode("utf-8")
    if fam == "mixed":
        a, b = rng.choice(RAW_VALID).encode("utf-8"), rng.choice(RAW_FAMILIES[rng.choice(sorted(RAW_FAMILIES))])
        return rng.choice([a + b" " + b, b + b" " + a, a + b, b + a])
    return rng.choice(RAW_FAMILIES[fam])


def gen_raw_output(rng, M, fam=None, safe=True):
    """one device output (str if it is well-formed UTF-8, {"hex": ...} otherwise) for a call whose effective marker set is M"""
    ms = [m for m in M if m]
    raw = raw_piece(rng, fam or rng.choice(RAW_KINDS))
    k = rng.random()
    mk = None
    if ms and k < 0.45:                                    # a marker, literally
        mk = rng.choice(ms).encode("utf-8")
    elif ms and k < 0.62:                                  # a near miss: the marker broken by such a byte, or one character short
        m = rng.choice(ms).encode("utf-8")
        i = rng.randint(1, max(1, len(m) - 1))
        mk = rng.choice([m[:i] + rng.choice([b"\x80", b"\xe9", b"\xc3", b"\xff"]) + m[i:], m[:-1] or b"x", m[1:] or b"x"])
    if mk is None:
        b = rng.choice([raw, b"ok " + raw, raw + b" ok %d" % rng.randint(0, 99), b"row 1 " + raw + b"\nrow 2 value x", b"a" + raw + b"z",
                        raw + b"\n" + raw_piece(rng, rng.choice(RAW_KINDS))])
    else:
        raw2 = raw_piece(rng, rng.choice(RAW_KINDS))
        b = rng.choice([raw + b" " + mk, mk + b" " + raw, raw + mk + raw2, mk + raw, raw + mk,
                        b"line before\n" + raw + b"\n  ^ " + mk + b" (detail)\nline after", mk + b"\n" + raw, b"a" + raw + b"z " + mk + b" ok"])
    if safe and not raw_safe(b):
        b = b"a" + b.replace(b"\n", b"_").strip() + b"z"
        if not raw_safe(b):
            b = b"ok " + raw_piece(rng, "latin1-text") + b" 1"
    return b.decode("utf-8") if is_utf8(b) else {"hex": b.hex()}


def gen_raw_scenario(rng, trans, kind=None, stack=None):
    kind = kind or rng.choice(KINDS)
    stack = stack or rng.choice(["sync", "async"])
    vendor = VENDOR_ERRORS[kind]
    r = rng.random()
    if r >= 0.88:                                          # a marker that is not ASCII itself
        fwc = rng.choice(["\u00e9!", ["\u00fc-marker"], ["\u20ac5", "ERR"]])
    elif kind == "generic":
        fwc = rng.choice(["unknown command", ["unknown command", "ERR"], ["ERR"], "ERR"])
    elif r < 0.5:
        fwc = None
    else:
        fwc = rng.choice(["ERR", ["ERR", "bad thing"], ["Invalid", "syntax error"], vendor[0], "fail here"])
    eff = vendor if fwc is None else ([fwc] if isinstance(fwc, str) else list(fwc))
    ops = []
    for _ in range(rng.choice([1, 1, 2])):
        force = {"fwc": fwc, "outgen": (lambda: gen_raw_output(rng, eff)), "stop": rng.random() < 0.8, "eager": rng.random() < 0.1,
                 "n": rng.choice([1, 2, 3, 3, 4, 5])}
        ops.append(gen_op(rng, kind, trans, force))
    pol = rng.choice([("whole",), ("whole",), ("bytes", 1), ("bytes", 3), ("bytes", 7), ("random", rng.randint(0, 10 ** 6), 9)])
    if any(o["eager"] for o in ops if o["op"] != "send_command"):
        pol = ("whole",)
    return {"kind": kind, "stack": stack, "ops": ops, "policy": list(pol)}


def raw_corpus():
    """fixed shapes, every driver: a stop_on_failed run whose first lines print non-UTF-8 / multi-byte output WITHOUT a marker (the run
    must go on), then one with a marker next to such bytes (the run must stop there), then a line that must never be sent"""
    out = []
    for i, kind in enumerate(KINDS):
        stack = ("sync", "async")[i % 2]
        err = VENDOR_ERRORS[kind][0]
        fwc = err if kind == "generic" else None
        name = "send_commands" if kind == "generic" else ("send_configs", "send_configs_from_file", "send_config")[i % 3]
        lines = ["set ok 1", "set ok 2", "set ok 3", "set bad 4", "set never 5"]
        outs = [{"hex": "caf\xe9 ok".encode("latin-1").hex()}, "Gr\u00fc\u00dfe \u4e2d\u6587 ok", {"hex": (b"row 1 \xe2\x82").hex()},
                {"hex": (b"\xb6\x93\xa5 " + err.encode("utf-8")).hex()}, ""]
        op = {"op": name, "lines": lines, "outs": outs, "fwc": fwc, "stop": True, "eager": False, "priv": ""}
        if name in ("send_config", "send_configs_from_file"):
            op["text"] = "\n".join(lines)
        op2 = {"op": "send_command", "lines": ["show thing"], "outs": [{"hex": (b"\x80 up \xc0\xaf").hex()}], "fwc": fwc, "stop": False, "eager": False,
               "priv": ""}
        op3 = {"op": "send_commands", "lines": ["show a", "show b", "show c"], "fwc": fwc, "stop": False, "eager": False, "priv": "",
               "outs": [{"hex": (b"\xff\xfe").hex()}, {"hex": (err.encode("utf-8") + b"\xbf").hex()}, "\U0001f600 " + err]}
        out.append({"kind": kind, "stack": stack, "policy": [["whole"], ["bytes", 1], ["bytes", 3]][i % 3], "ops": [op, op2, op3]})
    return out


def gen_file_history(rng, trans):
    """the same file path sent two or three times on one connection, rewritten in between (other lines, fewer / more lines, or the very
    same content), with its modification time preserved or not: every send delivers the lines the file holds NOW"""
    kind = rng.choice(KINDS)
    names = ["send_commands_from_file"] if kind == "generic" else ["send_commands_from_file", "send_configs_from_file", "send_configs_from_file"]
    ops = []
    for j in range(rng.choice([2, 2, 3])):
        if ops and rng.random() < 0.15:
            op = json.loads(json.dumps(ops[-1]))             # sent again unchanged
        else:
            op = gen_op(rng, kind, trans, {"op": rng.choice(names), "n": rng.choice([1, 2, 3, 4])})
        op["path_id"] = 0 if rng.random() < 0.85 else 1
        op["keep_mtime"] = rng.random() < 0.5
        ops.append(op)
    return {"kind": kind, "stack": rng.choice(["sync", "async"]), "ops": ops, "policy": ["whole"]}


def file_history_corpus():
    out = []
    for kind, stack, name in (("generic", "sync", "send_commands_from_file"), ("cisco_iosxe", "async", "send_configs_from_file"),
                              ("juniper_junos", "sync", "send_configs_from_file")):
        texts = ["set a 1\nset b 2\n", "set c 3\n", "set c 3\nset d 4\nset e 5"]
        out.append({"kind": kind, "stack": stack, "policy": ["whole"], "ops": [
            {"op": name, "text": t, "lines": [], "outs": [], "fwc": None, "stop": bool(j % 2), "eager": False, "priv": "", "path_id": 0, "keep_mtime": j != 2}
            for j, t in enumerate(texts)]})
    return out


# ------------------------------------------------------------------------------------------------
# list histories: the list handed to send_commands / send_configs is the CALLER's.  ONE list object is handed over again and again:
# to the next call on the same connection (second push, also after a stop_on_failed break and after the caller repaired / added /
# removed a line IN PLACE) and to the next connection (the loop over devices: other platforms, the other stack).  Every call must
# put on the wire the lines the caller's list holds when it is made, and leave the list as it was.
# ------------------------------------------------------------------------------------------------
def gen_edits(rng, trans, cur):
    """the caller's own in-place changes between two calls; returns (edits, the list after them)"""
    cur, edits = list(cur), []
    for _ in range(rng.choice([1, 1, 2])):
        k = rng.choice(["set", "set", "append", "insert", "del"])
        if k in ("set", "del") and not cur:
            k = "append"
        if k == "del" and len(cur) == 1:
            k = "set"
        if k == "set":
            e = ["set", rng.randrange(len(cur)), gen_line(rng, trans)]
        elif k == "append":
            e = ["append", gen_line(rng, trans)]
        elif k == "insert":
            e = ["insert", rng.randint(0, len(cur)), gen_line(rng, trans)]
        else:
            e = ["del", rng.randrange(len(cur))]
        apply_edits(cur, [e])
        edits.append(e)
    return edits, cur


def gen_list_history(rng, trans):
    lists = {}
    for i in range(rng.choice([1, 1, 1, 2])):
        n = rng.choice([1, 1, 2, 2, 3, 3, 4, 5, 6]) if rng.random() < 0.95 else 0
        lists[str(i)] = [gen_line(rng, trans) for _ in range(n)]
    cur = {k: list(v) for k, v in lists.items()}
    conns = []
    same_kind = rng.choice(KINDS) if rng.random() < 0.3 else None
    for _ in range(rng.choice([1, 2, 2, 3])):
        kind = same_kind or rng.choice(KINDS)
        names = ["send_commands"] if kind == "generic" else ["send_commands", "send_configs", "send_configs"]
        ops = []
        for _ in range(rng.choice([1, 1, 2, 2, 3]) if len(conns) else rng.choice([2, 2, 3])):
            if rng.random() < 0.12:                        # something else in between (a list of its own, a file, a single line)
                ops.append(gen_op(rng, kind, trans))
                continue
            lid = rng.choice(sorted(lists))
            edits = []
            if rng.random() < 0.3:
                edits, cur[lid] = gen_edits(rng, trans, cur[lid])
            force = {"op": rng.choice(names), "lines": cur[lid]}
            if rng.random() < 0.5:
                force["stop"] = True
            op = gen_op(rng, kind, trans, force)
            op["list_id"] = lid
            if edits:
                op["edits"] = edits
            ops.append(op)
        pol = rng.choice([("whole",), ("whole",), ("bytes", 3), ("bytes", 7)])
        if any(o["eager"] for o in ops if o["op"] != "send_command"):
            pol = ("whole",)
        conns.append({"kind": kind, "stack": rng.choice(["sync", "async"]), "ops": ops, "policy": list(pol)})
    return {"lists": lists, "connections": conns}


def list_history_corpus():
    """fixed shapes: the loop over devices, the second push on one connection (after a failed line was repaired in place), the list of
    one line, three pushes in a row; then the containers that are not lists (refused, untouched)"""
    def op(name, lines, lid, outs=None, stop=False, priv="", fwc=None, edits=None, eager=False):
        o = {"op": name, "lines": list(lines), "outs": list(outs or []), "fwc": fwc, "stop": stop, "eager": eager, "priv": priv, "list_id": lid}
        if edits:
            o["edits"] = edits
        return o
    cfg = ["interface lo0", "description uplink", "no shutdown x"]
    out = [{"lists": {"0": cfg}, "connections": [
        {"kind": k, "stack": st, "policy": ["whole"], "ops": [op("send_configs", cfg, "0", stop=bool(i % 2))]}
        for i, (k, st) in enumerate((("cisco_iosxe", "sync"), ("cisco_nxos", "async"), ("juniper_junos", "sync"), ("arista_eos", "async"),
                                     ("cisco_iosxr", "sync"), ("network", "async")))]}]
    for kind, stack, err, priv in (("cisco_iosxe", "sync", VENDOR_ERRORS["cisco_iosxe"][0], ""), ("juniper_junos", "async", "syntax error.", "configuration_private"),
                                   ("cisco_nxos", "sync", VENDOR_ERRORS["cisco_nxos"][0], SESSION)):
        bad = ["set ok 1", "set bogus 2", "set ok 3", "set ok 4"]
        good = ["set ok 1", "set fine 2", "set ok 3", "set ok 4"]
        out.append({"lists": {"0": bad}, "connections": [{"kind": kind, "stack": stack, "policy": ["whole"], "ops": [
            op("send_configs", bad, "0", outs=["", err], stop=True, priv=priv),
            op("send_configs", good, "0", stop=True, priv=priv, edits=[["set", 1, "set fine 2"]]),
            op("send_commands", good, "0")]}]})
    for stack in ("sync", "async"):
        cmds = ["show a", "show b"]
        out.append({"lists": {"0": cmds, "1": ["show only"]}, "connections": [
            {"kind": "generic", "stack": stack, "policy": ["whole"], "ops": [
                op("send_commands", cmds, "0", fwc=["unknown command"]), op("send_commands", ["show only"], "1"),
                op("send_commands", cmds, "0", fwc=["unknown command"], eager=True),
                op("send_commands", ["show only"], "1"), op("send_commands", cmds + ["show c"], "0", edits=[["append", "show c"]])]},
            {"kind": "cisco_iosxe", "stack": stack, "policy": ["whole"], "ops": [
                op("send_commands", ["show only"], "1", fwc=["unknown command"]), op("send_commands", cmds + ["show c"], "0", fwc=["unknown command"])]}]})
    for cont in ("tuple", "generator"):
        for kind, stack, name in (("generic", "sync", "send_commands"), ("cisco_iosxe", "async", "send_configs"), ("juniper_junos", "sync", "send_commands")):
            o1 = op(name, cmds, "0")
            del o1["list_id"]
            o1.update(container=cont, expect_exc="ScrapliTypeError")
            out.append({"lists": {"0": cmds}, "connections": [{"kind": kind, "stack": stack, "policy": ["whole"], "ops": [o1, op(name, cmds, "0")]}]})
    return out


def history_fails(hist, sig, workdir):
    """does the LAST op of the last connection fail with this signature?"""
    try:
        obs = run_history(hist, workdir)
    except Exception:  # noqa
        return None
    c = hist["connections"][-1]
    if len(obs[-1]) != len(c["ops"]):
        return None
    return next((t for sg, t in oracle(c["kind"], c["ops"][-1], obs[-1][-1]) if sg == sig), None)


def minimise_history(hist, ci, k, sig, workdir):
    """cut the history after the failing op, then drop whole ops / connections before it while it still fails this way (an op whose
    edits later ops build on cannot go: the history would no longer be consistent and does not run)"""
    best = jsonable(dict(hist, connections=hist["connections"][:ci] + [dict(hist["connections"][ci], ops=hist["connections"][ci]["ops"][:k + 1])]))
    changed = True
    while changed:
        changed = False
        for a in range(len(best["connections"])):
            conn = best["connections"][a]
            last = a == len(best["connections"]) - 1
            cands = []
            if not last:
                cands.append(best["connections"][:a] + best["connections"][a + 1:])
            for j in range(len(conn["ops"]) - (1 if last else 0)):
                ops = conn["ops"][:j] + conn["ops"][j + 1:]
                if ops:
                    cands.append(best["connections"][:a] + [dict(conn, ops=ops)] + best["connections"][a + 1:])
            for cs in cands:
                cand = dict(best, connections=cs)
                if history_fails(cand, sig, workdir):
                    best, changed = cand, True
                    break
            if changed:
                break
    used = {o.get("list_id") for c in best["connections"] for o in c["ops"]}
    best["lists"] = {i: v for i, v in best["lists"].items() if i in used} or best["lists"]
    return best


# ------------------------------------------------------------------------------------------------
# user-supplied privilege levels (harness/c13_levels.py): the driver is constructed with privilege_levels = the platform's own + one or
# two levels of the user's (the device's Linux shell, a guest shell, a line-card shell: custom names, custom patterns; NOT configuration
# sessions), on the platforms that have an abort / rollback step.  Histories of 1-3 calls: pushes at the user's level - mostly
# stop_on_failed with a failing line -, at the registered session, at the plain configuration levels, commands in between (the next
# call shows whether the driver still knows where it is).  Oracle as everywhere: navigation, the lines up to the failing one, and the
# abort step ONLY inside a configuration session.
# ------------------------------------------------------------------------------------------------
def gen_shell_line(rng, trans):
    if rng.random() < 0.6:
        return rng.choice(c13_levels.SHELL_LINES) + rng.choice(["", "", "", " ", " x%d" % rng.randint(0, 99)])
    return gen_line(rng, trans)


def gen_user_level_scenario(rng, trans, kind=None, stack=None):
    kind = kind or rng.choice(c13_levels.GUARDED * 3 + ["cisco_iosxr", "juniper_junos"])
    stack = stack or rng.choice(["sync", "async"])
    levels = c13_levels.gen_levels(rng, kind)
    names = [u["name"] for u in levels]
    ops = []
    for j in range(rng.choice([1, 2, 2, 3])):
        r = rng.random()
        if j and r < 0.25:
            ops.append(gen_op(rng, kind, trans, {"op": rng.choice(["send_command", "send_commands"])}))
            continue
        force = {"op": rng.choice(["send_configs", "send_configs", "send_config", "send_configs_from_file"])}
        if j == 0 or r < 0.75:
            force["priv"] = rng.choice(names)
            force["fwc"] = rng.choice([None, None, "No such file", ["command not found", "No such file or directory"], ["Permission denied"], "ERR"])
            force["lines"] = [gen_shell_line(rng, trans) for _ in range(rng.choice([1, 2, 3, 3, 4, 5]))]
            force["stop"] = rng.random() < 0.85
            force["nfail"] = rng.choice([1, 1, 1, 0, 2])
            if kind not in c13_levels.GUARDED:
                # IOS-XR / Junos abort unconditionally (known findings C13-*-abort-at-user-level, replayed on every run): the generated
                # histories keep away from a failed stop_on_failed run AT the user's level there, everything else is explored
                if rng.random() < 0.5:
                    force["stop"] = False
                else:
                    force["nfail"] = 0
        else:
            force["priv"] = rng.choice(CONFIG_LEVELS[kind])
            force["stop"] = rng.random() < 0.8
            force["nfail"] = rng.choice([0, 1, 1])
        ops.append(gen_op(rng, kind, trans, force))
    pol = rng.choice([("whole",), ("whole",), ("bytes", 3), ("bytes", 7), ("random", rng.randint(0, 10 ** 6), 9)])
    if any(o["eager"] for o in ops if o["op"] != "send_command"):
        pol = ("whole",)
    return {"kind": kind, "stack": stack, "ops": ops, "policy": list(pol), "user_levels": levels}


def user_level_corpus():
    """fixed shapes: on NX-OS / EOS, both stacks: a failed stop_on_failed push in the user's shell (nothing but the lines up to the
    failing one), a command right after it (the driver must know where it is), a failed push in the registered session with the
    user's level present (abort inside the session), the shell again; on IOS-XR / Junos: a push in the user's level that does not
    stop, and a failed push in a real configuration session with the user's level present (abort / rollback there)"""
    out = []
    sh = ["ls /mnt/flash", "cat /nope", "rm -f /mnt/flash/old.swi"]
    shout = ["", "cat: /nope: No such file or directory", ""]

    def op(name, lines, outs, priv, fwc=None, stop=True):
        return {"op": name, "lines": list(lines), "outs": list(outs), "fwc": fwc, "stop": stop, "eager": False, "priv": priv}
    for i, (kind, flavour, name) in enumerate((("arista_eos", "bash", "bash"), ("cisco_nxos", "run-bash", "bash"),
                                               ("cisco_nxos", "guestshell", "guest"), ("arista_eos", "bash-plain", "linux_shell"))):
        for si, stack in enumerate(("sync", "async")):
            lv = c13_levels.make_level(kind, flavour, name, i + si)
            err = VENDOR_ERRORS[kind][0]
            out.append({"kind": kind, "stack": stack, "policy": ["whole"], "user_levels": [lv], "ops": [
                op("send_configs", sh, shout, name, fwc=["No such file"]),
                op("send_command", ["show version"], ["version 4"], ""),
                op("send_configs", ["vlan 10", "bogus", "never"], ["", err, ""], SESSION),
                op("send_configs", sh[:1] + ["bogus here"], ["", err], name),
                op("send_configs", ["vlan 20", "bogus"], ["", err], "")]})
    for kind, flavour, name, cfg in (("cisco_iosxr", "run", "bash", "configuration_exclusive"), ("juniper_junos", "pfe-vty", "vty", "configuration_private")):
        for stack in ("sync", "async"):
            lv = c13_levels.make_level(kind, flavour, name)
            err = VENDOR_ERRORS[kind][0]
            out.append({"kind": kind, "stack": stack, "policy": ["whole"], "user_levels": [lv], "ops": [
                op("send_configs", sh, shout, name, fwc=["No such file"], stop=False),
                op("send_configs", ["set a 1", "set bogus 2", "set never 3"], ["", err, ""], cfg),
                op("send_configs", sh[:1], [""], name),
                op("send_command", ["show version"], ["version 4"], "")]})
    return out


def gen_scenario(rng, trans, kind=None, stack=None):
    kind = kind or rng.choice(KINDS)
    stack = stack or rng.choice(["sync", "async"])
    nops = rng.choice([1, 1, 2, 3])
    ops = [gen_op(rng, kind, trans) for _ in range(nops)]
    pol = rng.choice([("whole",), ("whole",), ("bytes", 1), ("bytes", 3), ("bytes", 7), ("random", rng.randint(0, 10 ** 6), 9)])
    if any(o["eager"] for o in ops if o["op"] != "send_command"):
        pol = ("whole",)
    return {"kind": kind, "stack": stack, "ops": ops, "policy": list(pol)}


def gen_malformed(rng, trans):
    """outside the property's domain (model-vs-implementation only, plus 'refused calls write nothing'):
    unknown privilege level names"""
    kind = rng.choice([k for k in KINDS if k != "generic"])
    op = gen_op(rng, kind, trans, {"op": rng.choice(["send_configs", "send_config", "send_configs_from_file"])})
    op["priv"] = rng.choice(["nosuchlevel", "Configuration", "sess2", "configuration "])
    op["expect_exc"] = "ScrapliPrivilegeError"
    return {"kind": kind, "stack": rng.choice(["sync", "async"]), "ops": [op], "policy": ["whole"]}


# ------------------------------------------------------------------------------------------------
# lines that carry a line terminator of their own (in-memory lists only: splitlines never leaves one in a file line or in a line
# of a multi-line send_config): the return char / CR LF at the end, at the front, at both ends, followed by blanks, nothing else.
# The oracle is the same: the line byte for byte, then one return.  Only shapes with ONE non-blank segment: a second one
# ("a\nb") never comes back on the unchanged code (the echo read waits for "ab" in one piece) and is left out.  A line whose text
# is followed by a terminator of its own is given no device output (which response such output would land in depends on how the
# reads are chunked - a framing matter, not examined here), and these connections are read in whole chunks.
# ------------------------------------------------------------------------------------------------
TERMINATED = {
    "tail-lf": lambda s, b: s + "\n",
    "tail-crlf": lambda s, b: s + "\r\n",
    "tail-lf-lf": lambda s, b: s + "\n\n",
    "tail-lf-blank": lambda s, b: s + "\n" + b,
    "tail-blank-lf": lambda s, b: s + b + "\n",
    "head-lf": lambda s, b: "\n" + s,
    "head-crlf": lambda s, b: "\r\n" + s,
    "head-blank-lf": lambda s, b: b + "\n" + s,
    "both-lf": lambda s, b: "\n" + s + "\n",
    "both-crlf": lambda s, b: "\r\n" + s + "\r\n",
    "only-lf": lambda s, b: "\n",
    "only-crlf": lambda s, b: "\r\n",
    "only-lf-lf": lambda s, b: "\n\n",
}
TERMINATED_TAIL = ["tail-lf", "tail-lf", "tail-crlf", "tail-lf-lf", "tail-lf-blank", "tail-blank-lf", "both-lf", "both-crlf"]


def terminated_shape(l):
    """which of the shapes a line is ("" = an ordinary line)"""
    if not re.search("[\r\n]", l):
        return ""
    core = l.strip()
    for name, f in TERMINATED.items():
        for b in (" ", "  ", "\t"):
            if name.startswith("only-") != (not core):
                continue
            if f(core, b) == l:
                return name
    return "other"


def terminated_op(rng, kind, trans, name=None, lines=None, **force):
    """one list op (send_commands / send_configs) in which at least one line carries its own terminator"""
    name = name or rng.choice(["send_commands"] if kind == "generic" else ["send_commands", "send_configs", "send_configs"])
    if lines is None:
        n = rng.choice([1, 1, 2, 2, 3, 3, 4, 5])
        lines = []
        for _ in range(n):
            s = gen_line(rng, trans)
            while not dev_key(s) or len(s) > 120:
                s = gen_line(rng, trans)
            lines.append(s)
        picks = set(rng.sample(range(n), rng.randint(1, max(1, (n + 1) // 2))))
        for i in picks:
            shape = rng.choice(TERMINATED_TAIL) if rng.random() < 0.6 else rng.choice(sorted(TERMINATED))
            lines[i] = TERMINATED[shape](lines[i].strip() if rng.random() < 0.7 else lines[i], rng.choice([" ", "  ", "\t"]))
    op = gen_op(rng, kind, trans, dict(force, op=name, lines=lines))
    op["outs"] = ["" if returns_inside(l) else o for l, o in zip(op["lines"], op["outs"])]
    return op


def gen_terminated_scenario(rng, trans, kind=None, stack=None):
    kind = kind or rng.choice(KINDS)
    stack = stack or rng.choice(["sync", "async"])
    ops = []
    for _ in range(rng.choice([1, 1, 2])):
        if ops and rng.random() < 0.3:             # an ordinary call after one with such lines
            ops.append(gen_op(rng, kind, trans, {"op": rng.choice(["send_command", "send_commands"])}))
        else:
            ops.append(terminated_op(rng, kind, trans))
    return {"kind": kind, "stack": stack, "ops": ops, "policy": ["whole"]}


def terminated_corpus():
    """every shape once per driver and stack, as the first, a middle and the last line of a list, eager and not"""
    out = []
    shapes = sorted(TERMINATED)
    for ki, kind in enumerate(KINDS):
        for si, stack in enumerate(("sync", "async")):
            name = "send_commands" if kind == "generic" or (ki + si) % 3 == 0 else "send_configs"
            ops = []
            for j in range(3):
                sh = shapes[(ki * 2 + si + j * 5) % len(shapes)]
                t = TERMINATED[sh]("description x%d" % j, " ")
                lines = [["interface lo0", t, "no shutdown"], [t, "description y"], ["interface lo0", t]][j]
                eager = bool((ki + si + j) % 2) and bool(dev_key(lines[-1]))
                ops.append({"op": name, "lines": lines, "outs": ["" if returns_inside(l) or not dev_key(l) else "ok" for l in lines],
                            "fwc": None, "stop": bool(j % 2), "eager": eager, "priv": ""})
            out.append({"kind": kind, "stack": stack, "policy": ["whole"], "ops": ops})
    return out


def corpus():
    """boundary shapes and the replays of all findings first"""
    out = []
    for stack in ("sync", "async"):
        out.append({"kind": "generic", "stack": stack, "policy": ["whole"], "ops": [
            {"op": "send_commands", "lines": [], "outs": [], "fwc": None, "stop": False, "eager": False, "priv": ""},
            {"op": "send_commands_from_file", "text": "", "lines": [], "outs": [], "fwc": None, "stop": True, "eager": False, "priv": ""}]})
        out.append({"kind": "cisco_iosxe", "stack": stack, "policy": ["whole"], "ops": [
            {"op": "send_commands", "lines": [], "outs": [], "fwc": None, "stop": False, "eager": False, "priv": ""},
            {"op": "send_configs", "lines": [], "outs": [], "fwc": None, "stop": True, "eager": False, "priv": ""},
            {"op": "send_config", "text": "", "lines": [], "outs": [], "fwc": None, "stop": False, "eager": False, "priv": ""},
            {"op": "send_configs_from_file", "text": "", "lines": [], "outs": [], "fwc": None, "stop": False, "eager": True, "priv": ""}]})
        for priv in ("configuration_exclusive", "configuration_private", ""):
            out.append({"kind": "juniper_junos", "stack": stack, "policy": ["whole"], "ops": [
                {"op": "send_configs", "lines": ["set system host-name r1", "set bogus", "set never sent"],
                 "outs": ["", "syntax error.", ""], "fwc": None, "stop": True, "eager": False, "priv": priv},
                {"op": "send_command", "lines": ["show version"], "outs": ["Junos 21"], "fwc": None, "stop": False, "eager": False, "priv": ""}]})
        out.append({"kind": "cisco_iosxr", "stack": stack, "policy": ["bytes", 3], "ops": [
            {"op": "send_config", "text": "interface lo0\n bogus\n never", "lines": [], "outs": ["", "% Invalid input detected at '^' marker.", ""],
             "fwc": None, "stop": True, "eager": False, "priv": "configuration_exclusive"}]})
        for kind in ("cisco_nxos", "arista_eos"):
            out.append({"kind": kind, "stack": stack, "policy": ["whole"], "ops": [
                {"op": "send_configs", "lines": ["vlan 10", "bogus", "never"], "outs": ["", "% Invalid input detected", ""],
                 "fwc": None, "stop": True, "eager": False, "priv": SESSION},
                {"op": "send_configs", "lines": ["vlan 10", "bogus", "never"], "outs": ["", "% Invalid input detected", ""],
                 "fwc": None, "stop": True, "eager": False, "priv": ""}]})
    return out


def size_sweep(rng, thorough):
    """boundary shapes of the line length: encoded sizes around the powers of two x character widths 1..4, through
    every way of handing lines over (list, multi-line string, file; commands and configs), both stacks"""
    if thorough:
        sizes = [s + d for s in (256, 512, 1024, 2048, 4096, 8192) for d in (-1, 0, 1)]
        widths = [1, 2, 3, 4]
        kinds = ["generic", "cisco_iosxe", "juniper_junos", "cisco_nxos"]
    else:
        kinds = ["cisco_iosxe"]
    if thorough:
        lines = [sized_line(n, w) for n in sizes for w in widths]
    else:
        pairs = [(300, 3), (1025, 2), (1025, 4), (2049, 3), (4097, 2), (4097, 4),
                 (rng.choice([513, 1023, 1024, 2047, 2048, 4095, 4096, 8193]), rng.choice([2, 3, 4]))]
        lines = [sized_line(n, w) for n, w in pairs]
    out = []
    for ki, kind in enumerate(kinds):
        for si, stack in enumerate(("sync", "async")):
            rot = (ki * 2 + si) * 5 % len(lines)
            ls = lines[rot:] + lines[:rot]
            names = GENERIC_OPS if kind == "generic" else ["send_commands", "send_configs", "send_config", "send_configs_from_file",
                                                           "send_commands_from_file", "send_command"]
            if si:
                names = names[2:] + names[:2]
            # groups of at most 2 (quick) or 3 lines / ~12 KiB, handed to the op kinds in turn; at most 6 ops per connection
            groups, cur = [], []
            for l in ls:
                if cur and (len(cur) >= (3 if thorough else 2) or sum(len(x.encode("utf-8")) for x in cur + [l]) > 12000):
                    groups.append(cur)
                    cur = []
                cur.append(l)
            groups.append(cur)
            ops, j = [], 0
            while groups:
                name = names[j % len(names)]
                part = groups.pop(0)
                if name == "send_command" and len(part) > 1:
                    groups.insert(0, part[1:])
                    part = part[:1]
                op = {"op": name, "lines": list(part), "outs": ["ok %d" % i for i in range(len(part))], "fwc": None, "stop": bool(j % 2),
                      "eager": False, "priv": ""}
                if name in ("send_config", "send_commands_from_file", "send_configs_from_file"):
                    op["text"] = "\n".join(part) + ("\n" if j % 2 else "")
                ops.append(op)
                j += 1
                if len(ops) == 6 or not groups:
                    out.append({"kind": kind, "stack": stack, "policy": ["whole"], "ops": ops})
                    ops = []
    return out


STRADDLE = {"kind": "cisco_iosxe", "stack": "sync", "policy": ["whole"], "ops": [
    {"op": "send_config", "text": "line one\nline two", "lines": [], "outs": ["first", "second"], "fwc": "first\nsecond",
     "stop": False, "eager": False, "priv": ""}]}


def exhaustive_small(kind, stack, maxlen):
    """all lists up to maxlen over {ok, failing, blank} x stop x eager, as send_configs on the richest level"""
    import itertools
    priv = CONFIG_LEVELS[kind][1] if len(CONFIG_LEVELS[kind]) > 1 else ""
    err = VENDOR_ERRORS[kind][0]
    for n in range(0, maxlen + 1):
        for shape in itertools.product("ofb", repeat=n):
            for stop in (False, True):
                for eager in (False, True):
                    lines = [{"o": "set ok %d" % i, "f": "set bad %d" % i, "b": " "}[c] for i, c in enumerate(shape)]
                    outs = [{"o": "", "f": err, "b": ""}[c] for c in shape]
                    op = {"op": "send_configs", "lines": lines, "outs": outs, "fwc": None, "stop": stop, "eager": eager, "priv": priv}
                    fix_eager(op)
                    yield {"kind": kind, "stack": stack, "policy": ["whole"], "ops": [op]}


# ------------------------------------------------------------------------------------------------
# the response layer alone: Response / MultiResponse of the real code on (marker set, output) pairs without a device in
# between, so that outputs may be anything (marker at the very edge, blank edges, newlines inside markers, empty output)
# ------------------------------------------------------------------------------------------------
DIRECT_HEADER = """From Verif Require Import Bytes Response ResponseRaw.
Definition dcase := (fwc * list bytes * list bytes * list bool * bool)%type.
Definition bools_eq (a b : list bool) : bool :=
  (length a =? length b)%nat && forallb (fun p => Bool.eqb (fst p) (snd p)) (combine a b).
(* the bytes handed to record_response, the observed result texts (as UTF-8), the observed flags *)
Definition dchk (c : dcase) : bool :=
  let '(f, raws, oresults, oflags, omulti) := c in
  let rs := map (fun raw => record_raw (new_response [120] f) raw) raws in
  bools_eq (map r_failed rs) oflags && lbeq (map r_result rs) oresults && Bool.eqb (multi_failed rs) omulti.
"""
DIRECT_HEADER += "".join("Definition xb%d : N := %d.\n" % (i, i) for i in range(256))


DIRECT_JOBS = 3                  # coqc processes of the response-layer cases (the rest of common.JOBS goes to the main suite)


def gen_direct(rng):
    k = rng.random()
    if k < 0.05:
        f = rng.choice([None, [], "", [""]])
    else:
        f = gen_marker_set(rng)
        if rng.random() < 0.1:                             # markers with line breaks / blank edges (no device in between here)
            extra = rng.choice(["a\nb", "ERR\n", "\nERR", " ERR ", "\t", "\r\n", "$\n^", "x\n.*"])
            f = [f, extra] if isinstance(f, str) else f + [extra]
    M = [] if f is None else ([f] if isinstance(f, str) else list(f))
    outs = []
    for _ in range(rng.choice([1, 1, 2, 3, 4])):
        ms = [m for m in M if m]
        k = rng.random()
        if not ms or k < 0.1:
            outs.append(rng.choice(["", "ok", " ", "\n", "row 1\nrow 2"]))
            continue
        m = rng.choice(ms)
        if k < 0.4:
            x = m
        elif k < 0.7:
            good, allc = lookalikes(rng, m)
            pool = good if (good and rng.random() < 0.75) else (allc or near_misses(rng, m))
            x = rng.choice(pool) if pool else m
        elif k < 0.9:
            nm = near_misses(rng, m)
            x = rng.choice(nm) if nm else m
        else:
            x = "".join(rng.choice(MARKER_ALPHA) for _ in range(rng.randint(0, 12)))
        outs.append(rng.choice(["", "", "a", " ", "line\n", "x\n  ^ "]) + x + rng.choice(["", "", "z", " ", "\nline", " (detail)"]))
    return {"fwc": f, "outputs": outs}


def gen_direct_raw(rng):
    """(marker set, outputs as BYTES): anything at all - the families of gen_raw_output without the channel's constraints (blank edges,
    control characters), random byte strings, a marker / look-alike / near miss placed among them"""
    k = rng.random()
    if k < 0.3:
        f = rng.choice(["ERR", ["ERR", "bad thing"], "% Invalid input", ["\u00e9!"], "\u00e9", ["\u00fc-marker", "ERR"], "\u20ac5", None, []])
    else:
        f = gen_marker_set(rng)
    M = [] if f is None else ([f] if isinstance(f, str) else list(f))
    outs = []
    for _ in range(rng.choice([1, 1, 2, 3, 4])):
        k = rng.random()
        if k < 0.55:
            x = gen_raw_output(rng, M, safe=False)
            b = out_bytes(x)
        else:
            b = bytes(rng.choice([rng.randrange(256), rng.randrange(0x80, 0x100), rng.randrange(0x20, 0x7f)]) for _ in range(rng.randint(0, 10)))
            ms = [m for m in M if m]
            if ms and rng.random() < 0.5:
                m = rng.choice(ms)
                if rng.random() < 0.3:
                    nm = near_misses(rng, m)
                    m = rng.choice(nm) if nm else m
                i = rng.randint(0, len(b))
                b = b[:i] + rng.choice([m.encode("utf-8"), m.encode("utf-8"), m.encode("latin-1", "replace")]) + b[i:]
        b = rng.choice([b"", b"", b" ", b"\n", b"line\n"]) + b + rng.choice([b"", b"", b" ", b"\nline", b"\t"])
        outs.append(b.decode("utf-8") if is_utf8(b) and rng.random() < 0.5 else {"hex": b.hex()})
    return {"fwc": f, "outputs": outs}


def run_direct(case):
    """the real Response / MultiResponse on one (marker set, outputs) case"""
    from scrapli.response import MultiResponse, Response
    o = {"exc": None, "flags": [], "results": [], "multi": None}
    try:
        multi = MultiResponse()
        for out in case["outputs"]:
            r = Response(host="sim", channel_input="x", failed_when_contains=case["fwc"])
            r.record_response(out_bytes(out))
            multi.append(r)
            o["flags"].append(r.failed)
            o["results"].append(r.result)
        o["multi"] = multi.failed
    except Exception as e:  # noqa
        o["exc"] = type(e).__name__
    return o


def oracle_direct(case, o):
    f = case["fwc"]
    M = [] if f is None else ([f] if isinstance(f, str) else list(f))
    if o["exc"] is not None:
        return [("response-exception-" + o["exc"], "recording the output %r with the markers %r raised %s" % (
            case["outputs"][len(o["flags"]):][:1], M, o["exc"]))]
    bad = []
    texts = [out_text(x) for x in case["outputs"]]
    if o["results"] != texts:
        bad.append(("response-result", "the recorded output differs from the bytes given (read as UTF-8, or as ISO-8859-1 where they are not UTF-8)"))
    want = [any(m in out for m in M) for out in texts]
    for j, (got, w) in enumerate(zip(o["flags"], want)):
        if got != w:
            lit = [m for m in M if m in texts[j]]
            shown = case["outputs"][j]
            bad.append(("failed-vs-output", "output %r with the markers %r: failed=%s, but %s" % (
                out_bytes(shown)[:120] if isinstance(shown, dict) else shown[:120], [m[:60] for m in M], got,
                "the marker %r occurs in it" % lit[0][:60] if lit else "no marker occurs in it")))
            break
    if not bad and o["multi"] != any(want):
        bad.append(("multi-failed", "MultiResponse.failed=%s, elements %s" % (o["multi"], o["flags"])))
    return bad


def direct_term(case, o):
    f = case["fwc"]
    fwc = "FNone" if f is None else ("(FStr %s)" % u8(f) if isinstance(f, str) else "(FList %s)" % coq_list([u8(x) for x in f]))
    return "((%s, %s, %s, %s, %s) : dcase)" % (fwc, coq_list([coq_bytes(out_bytes(x)) for x in case["outputs"]]), coq_list([u8(x) for x in o["results"]]),
                                               coq_list([coq_bool(x) for x in o["flags"]]), coq_bool(bool(o["multi"])))


def minimise_direct(case, sig):
    def fails(c):
        return any(x[0] == sig for x in oracle_direct(c, run_direct(c)))
    best = case
    for out in case["outputs"]:
        c = dict(best, outputs=[out])
        if fails(c):
            best = c
            break
    f = best["fwc"]
    if isinstance(f, list) and len(f) > 1:
        for m in f:
            for c in (dict(best, fwc=[m]), dict(best, fwc=m)):
                if fails(c):
                    return c
    return best


def marker_stats(dist, M, outs):
    """distribution of the marker stream: what the marker sets and the outputs look like (literal vs pattern reading)"""
    ms = dist["marker_sets"]
    ms["sets"] += 1
    ms["with_metachar"] += any(any(c in META for c in m) for m in M)
    ms["with_empty_marker"] += any(m == "" for m in M)
    ms["with_long_marker"] += any(len(m) >= 300 for m in M)
    ms["with_nested_markers"] += any(a != b and a and a in b for a in M for b in M)
    ms["not_a_valid_pattern"] += any(_not_pattern(m) for m in M)
    for out in outs:
        lit = any(m in out for m in M)
        pat = any(pattern_accepts(m, out) for m in M if m)
        key = ("literal" if lit else "not-literal") + "/" + ("pattern-accepts" if pat else "pattern-rejects")
        ms["outputs"][key] = ms["outputs"].get(key, 0) + 1


def _not_pattern(m):
    import re
    import warnings
    try:
        with warnings.catch_warnings():
            warnings.simplefilter("ignore")
            re.compile(m)
        return False
    except (re.error, RecursionError, OverflowError):
        return True


# ------------------------------------------------------------------------------------------------
def jsonable(scn):
    return json.loads(json.dumps(scn))


def minimise(scn, k, workdir, sig):
    """shrink the failing op: drop other ops where the failure survives, then lines"""
    best = {"kind": scn["kind"], "stack": scn["stack"], "policy": scn["policy"], "ops": list(scn["ops"][:k + 1])}
    if scn.get("driver_markers") is not None:
        best["driver_markers"] = scn["driver_markers"]
    for key in ("user_levels", "host"):
        if scn.get(key) is not None:
            best[key] = scn[key]

    def fails(s):
        try:
            obs = run_connection(s, workdir)
        except Exception:  # noqa
            return False
        if len(obs) != len(s["ops"]):
            return False
        return any(x[0] == sig for x in oracle(s["kind"], s["ops"][-1], obs[-1]))

    if len(best["ops"]) > 1:
        cand = dict(best, ops=[best["ops"][-1]])
        if fails(cand):
            best = cand
        else:                                      # the history of the file may be what matters: keep the ops on the same path
            same = [x for x in best["ops"][:-1] if x.get("path_id") is not None and x.get("path_id") == best["ops"][-1].get("path_id")]
            for hist in ([same[-1:], same] if same else []):
                cand = dict(best, ops=list(hist) + [best["ops"][-1]])
                if len(cand["ops"]) < len(best["ops"]) and fails(cand):
                    best = cand
                    break
    op = best["ops"][-1]
    if op["op"] in ("send_commands", "send_configs"):
        changed = True
        while changed and len(op["lines"]) > 1:
            changed = False
            for j in range(len(op["lines"])):
                op2 = dict(op, lines=op["lines"][:j] + op["lines"][j + 1:], outs=op["outs"][:j] + op["outs"][j + 1:])
                cand = dict(best, ops=best["ops"][:-1] + [op2])
                if fails(cand):
                    best, op, changed = cand, op2, True
                    break
    # the marker set: one marker where one is enough
    if isinstance(op["fwc"], list) and len(op["fwc"]) > 1:
        for m in op["fwc"]:
            cand = dict(best, ops=best["ops"][:-1] + [dict(op, fwc=[m])])
            if fails(cand):
                best = cand
                break
    elif op["fwc"] is None and len(op.get("dflt") or []) > 1:
        for m in op["dflt"]:
            cand = dict(best, driver_markers=[m], ops=[dict(x, dflt=[m]) if x.get("dflt") is not None else x for x in best["ops"]])
            if fails(cand):
                best = cand
                break
    return best


def balanced_order(weights, jobs):
    """a permutation of the case indices and a shard size such that consecutive shards of that size have about equal weight"""
    import heapq
    n = len(weights)
    k = max(1, min(jobs, (n + 39) // 40))
    size = max(1, -(-n // k))
    caps = [min(size, n - j * size) for j in range(k) if n - j * size > 0]
    bins = [[] for _ in caps]
    heap = [(0, j) for j in range(len(caps))]
    heapq.heapify(heap)
    for i in sorted(range(n), key=lambda i: (-weights[i], i)):
        load, j = heapq.heappop(heap)
        bins[j].append(i)
        if len(bins[j]) < caps[j]:
            heapq.heappush(heap, (load + weights[i], j))
    return [i for b in bins for i in b], size


def run(rep):
    from gen import gen_send

    rng = rep.rng
    thorough = rep.tier == "thorough"
    LONG_MARKERS.update({"p": 0.07, "sizes": [300, 700, 1500]} if thorough else {"p": 0.03, "sizes": [260, 300, 420]})
    trans = _transition_lines()
    # 1. static part first (Gen_Send.v imports the model's record types), then regenerate from the source
    ok, _ = rep.build_static()
    if not ok:
        rep.broken.append("static-build")
    info = {}
    try:
        _, info = gen_send.generate(rep.workdir)
        rc, out, _ = common.coqc(os.path.join(rep.workdir, "Gen_Send.v"), rep.workdir)
        if rc:
            rep.broken.append("Gen_Send.v")
            rep.notes.append(out[-2000:])
    except Exception as e:  # translator aborted: broken tie
        rep.broken.append("gen_send:%s" % e)
    gen_ok = not rep.broken
    # 2. proofs
    rep.add_static_obligations("props/C13.v", ok)
    if ok and gen_ok:
        rep.compile_props("props/C13.v")
    # 3. implementation runs: corpus, findings, generated scenarios, malformed stream, small exhaustive
    scenarios = [("corpus", s) for s in corpus()]
    for f in rep.findings:
        p = os.path.join(common.VERIF, f.get("replay", ""))
        if f.get("kind") == "fixed" and os.path.exists(p):
            scenarios.append(("finding:" + f["id"], json.load(open(p))["scenario"]))
    for s in size_sweep(rng, thorough):
        scenarios.append(("size-sweep", s))
    n_gen = 1500 if thorough else 260
    for _ in range(n_gen):
        scenarios.append(("gen", gen_scenario(rng, trans)))
    for s in marker_corpus():
        scenarios.append(("markers", s))
    for j in range(400 if thorough else 70):
        scenarios.append(("markers", gen_marker_scenario(rng, trans, kind=KINDS[j % len(KINDS)] if j < 2 * len(KINDS) else None)))
    for _ in range(120 if thorough else 24):
        scenarios.append(("malformed", gen_malformed(rng, trans)))
    ex_kinds = [k for k in KINDS if k not in ("generic",)] if thorough else ["juniper_junos", "cisco_nxos"]
    for kind in ex_kinds:
        for stack in ("sync", "async"):
            for s in exhaustive_small(kind, stack, 4 if thorough else 3):
                scenarios.append(("exhaustive", s))
    # device outputs as bytes (own generator state, so that the streams above are what they were): fixed shapes on every driver, then generated
    import random
    rng_raw = random.Random(rep.seed * 1000003 + 0xC13B)
    for s in raw_corpus():
        scenarios.append(("rawout", s))
    for j in range(360 if thorough else 56):
        scenarios.append(("rawout", gen_raw_scenario(rng_raw, trans, kind=KINDS[j % len(KINDS)] if j < 2 * len(KINDS) else None,
                                                     stack=("sync", "async")[(j // len(KINDS)) % 2] if j < 2 * len(KINDS) else None)))
    for s in file_history_corpus():
        scenarios.append(("file-history", s))
    for _ in range(100 if thorough else 14):
        scenarios.append(("file-history", gen_file_history(rng_raw, trans)))
    # user-supplied privilege levels (own generator state again)
    rng_lvl = random.Random(rep.seed * 1000003 + 0xC13D)
    for s in user_level_corpus():
        scenarios.append(("user-levels", s))
    for j in range(320 if thorough else 44):
        scenarios.append(("user-levels", gen_user_level_scenario(rng_lvl, trans, kind=c13_levels.GUARDED[j % 2] if j < 8 else None,
                                                                 stack=("sync", "async")[(j // 2) % 2] if j < 8 else None)))
    # list histories (own generator state again): ONE list object handed to call after call, connection after connection
    rng_hist = random.Random(rep.seed * 1000003 + 0xC13C)
    histories = [jsonable(h) for h in list_history_corpus()] + [jsonable(gen_list_history(rng_hist, trans)) for _ in range(240 if thorough else 36)]
    # lines that carry a terminator of their own (own generator state again)
    rng_term = random.Random(rep.seed * 1000003 + 0xC13E)
    for s in terminated_corpus():
        scenarios.append(("terminated-lines", s))
    for j in range(240 if thorough else 42):
        scenarios.append(("terminated-lines", gen_terminated_scenario(rng_term, trans, kind=KINDS[j % len(KINDS)] if j < 2 * len(KINDS) else None,
                                                                      stack=("sync", "async")[(j // len(KINDS)) % 2] if j < 2 * len(KINDS) else None)))
    runs = [(stream, scn, None) for stream, scn in scenarios]
    for h in histories:
        pool = new_pool(h)
        for ci, c in enumerate(h["connections"]):
            runs.append(("list-history", c, {"hist": h, "ci": ci, "pool": pool}))
    dist = {"file_resent": {"ops": 0, "content_changed": 0, "mtime_preserved": 0},
            "raw_outputs": {"not_utf8": 0, "multibyte_utf8": 0, "with_marker": 0, "without_marker": 0, "not_utf8_without_marker": 0,
                            "not_utf8_with_marker": 0, "not_utf8_without_marker_before_last_line_of_stop_on_failed_run": 0,
                            "non_ascii_marker_sets": 0},
            "list_reuse": {"histories": len(histories), "connections": 0, "calls_given_a_shared_list": 0, "list_handed_over_before": 0,
                           "handed_over_before_on_another_connection": 0, "edited_in_place_by_the_caller_since": 0,
                           "after_a_stop_on_failed_break_on_it": 0, "marker_list_handed_over_before": 0, "refused_containers": 0},
            "user_levels": {"connections": 0, "two_levels": 0, "calls": 0, "calls_at_user_level": 0, "failed_stop_on_failed_runs_at_user_level": 0,
                            "failed_stop_on_failed_runs_in_session_or_configuration": 0, "calls_after_a_failed_run_at_user_level": 0,
                            "by_flavour": {}, "by_name": {}, "by_pattern": {}},
            "by_stream": {}, "by_kind": {}, "by_op": {}, "by_stack": {}, "lines_hist": {}, "stop": 0, "eager": 0, "policy": {},
            "fwc_kind": {}, "first_failing_pos": {}, "aborts_seen": 0, "unicode_lines": 0, "blank_lines": 0, "long_lines": 0,
            "nav_events": 0, "exceptions": {}, "stalled_calls": 0,
            "lines_with_own_terminator": {"lines": 0, "calls": 0, "eager_calls": 0, "by_shape": {}, "by_op": {}, "by_position": {}},
            "long_multibyte_lines": 0, "repeated_lines": 0, "adjacent_repeats": 0, "max_line_bytes": 0, "line_bytes_hist": {},
            "marker_sets": {"sets": 0, "with_metachar": 0, "with_empty_marker": 0, "with_long_marker": 0, "with_nested_markers": 0,
                            "not_a_valid_pattern": 0, "driver_level": 0, "outputs": {}, "failed_flags": {"True": 0, "False": 0}}}
    terms, meta, fails, hfails = [], [], [], []
    t_impl = time.time()
    for stream, scn, ctx in runs:
        scn = jsonable(scn)
        if ctx is not None:
            lr = dist["list_reuse"]
            lr["connections"] += 1
            if ctx["ci"] == 0:
                ctx["pool"]["seen"] = {}
        try:
            obs = run_connection(scn, rep.workdir, ctx["pool"] if ctx is not None else None)
        except Exception as e:  # the harness / device could not run it: fail closed
            rep.broken.append("harness: connection failed: %s: %s" % (type(e).__name__, e))
            rep.notes.append(json.dumps(scn)[:1500])
            continue
        if scn.get("user_levels"):
            ul = dist["user_levels"]
            ul["connections"] += 1
            ul["two_levels"] += len(scn["user_levels"]) > 1
            for u in scn["user_levels"]:
                for key, val in (("by_flavour", u["flavour"]), ("by_name", u["name"]), ("by_pattern", u["pattern"])):
                    ul[key][val] = ul[key].get(val, 0) + 1
            unames, after_failed = [u["name"] for u in scn["user_levels"]], False
            for k, o in enumerate(obs):
                op = scn["ops"][k]
                failed_run = op["op"] != "send_command" and op["stop"] and any(planned(scn["kind"], op, o)[1])
                ul["calls"] += 1
                ul["calls_at_user_level"] += op.get("priv") in unames
                ul["calls_after_a_failed_run_at_user_level"] += after_failed
                if "config" in op["op"] and failed_run:
                    ul["failed_stop_on_failed_runs_at_user_level" if op.get("priv") in unames else "failed_stop_on_failed_runs_in_session_or_configuration"] += 1
                    after_failed = after_failed or op.get("priv") in unames
        for k, o in enumerate(obs):
            op = scn["ops"][k]
            kind = scn["kind"]
            lines = op_lines(op)
            prev = [x for x in scn["ops"][:k] if x.get("path_id") is not None and x.get("path_id") == op.get("path_id")]
            if prev:
                dist["file_resent"]["ops"] += 1
                dist["file_resent"]["content_changed"] += prev[-1]["text"] != op["text"]
                dist["file_resent"]["mtime_preserved"] += bool(op.get("keep_mtime"))
            dist["by_stream"][stream] = dist["by_stream"].get(stream, 0) + 1
            if ctx is not None:
                lr["refused_containers"] += op.get("container") is not None
                if op.get("list_id") is not None:
                    seen = ctx["pool"]["seen"].setdefault(op["list_id"], {"conns": set(), "n": 0, "broke": False})
                    lr["calls_given_a_shared_list"] += 1
                    lr["list_handed_over_before"] += seen["n"] > 0
                    lr["handed_over_before_on_another_connection"] += bool(seen["conns"] - {ctx["ci"]})
                    lr["edited_in_place_by_the_caller_since"] += bool(seen["n"] and op.get("edits"))
                    lr["after_a_stop_on_failed_break_on_it"] += seen["broke"]
                    seen["conns"].add(ctx["ci"])
                    seen["n"] += 1
                    seen["broke"] = seen["broke"] or (op["stop"] and len(planned(kind, op, o)[0]) < len(lines))
                if isinstance(op["fwc"], list):
                    fseen = ctx["pool"]["seen"].setdefault("fwc:" + json.dumps(op["fwc"]), {"n": 0})
                    lr["marker_list_handed_over_before"] += fseen["n"] > 0
                    fseen["n"] += 1
            dist["by_kind"][kind] = dist["by_kind"].get(kind, 0) + 1
            dist["by_op"][op["op"]] = dist["by_op"].get(op["op"], 0) + 1
            dist["by_stack"][scn["stack"]] = dist["by_stack"].get(scn["stack"], 0) + 1
            dist["lines_hist"][len(lines)] = dist["lines_hist"].get(len(lines), 0) + 1
            dist["policy"][scn["policy"][0]] = dist["policy"].get(scn["policy"][0], 0) + 1
            dist["stop"] += bool(op["stop"])
            dist["eager"] += bool(op["eager"])
            fk = "none" if op["fwc"] is None else ("str" if isinstance(op["fwc"], str) else "list")
            dist["fwc_kind"][fk] = dist["fwc_kind"].get(fk, 0) + 1
            dist["unicode_lines"] += sum(1 for l in lines if any(ord(c) > 127 for c in l))
            dist["blank_lines"] += sum(1 for l in lines if not dev_key(l))
            dist["long_lines"] += sum(1 for l in lines if len(l) > 256)
            keyed = [l for l in lines if dev_key(l)]
            dist["repeated_lines"] += len(keyed) - len(set(keyed))
            dist["adjacent_repeats"] += sum(1 for a, b in zip(lines, lines[1:]) if a == b and dev_key(a))
            for l in lines:
                nb = len(l.encode("utf-8"))
                dist["long_multibyte_lines"] += nb > 1024 and nb != len(l)
                dist["max_line_bytes"] = max(dist["max_line_bytes"], nb)
                b = "0" if nb == 0 else "<=64" if nb <= 64 else "<=1024" if nb <= 1024 else "<=4096" if nb <= 4096 else ">4096"
                dist["line_bytes_hist"][b] = dist["line_bytes_hist"].get(b, 0) + 1
            if op["op"] in ("send_commands", "send_configs", "send_command"):
                tl = dist["lines_with_own_terminator"]
                shp = [(i, terminated_shape(l)) for i, l in enumerate(lines)]
                shp = [(i, x) for i, x in shp if x]
                if shp:
                    tl["calls"] += 1
                    tl["eager_calls"] += bool(op["eager"]) and op["op"] != "send_command"
                    tl["lines"] += len(shp)
                    tl["by_op"][op["op"]] = tl["by_op"].get(op["op"], 0) + 1
                    for i, x in shp:
                        tl["by_shape"][x] = tl["by_shape"].get(x, 0) + 1
                        pos = "only" if len(lines) == 1 else "first" if i == 0 else "last" if i == len(lines) - 1 else "middle"
                        tl["by_position"][pos] = tl["by_position"].get(pos, 0) + 1
            dist["nav_events"] += sum(1 for e in o["events"] if e[0] == "nav")
            if o["exc"]:
                dist["exceptions"][o["exc"]] = dist["exceptions"].get(o["exc"], 0) + 1
            ff = next((i for i, f in enumerate(o["flags"]) if f), None)
            if ff is not None:
                dist["first_failing_pos"][ff] = dist["first_failing_pos"].get(ff, 0) + 1
            if any(p[1].decode("latin-1").strip() in ABORT_STEPS.get(kind, set()) for p in o["log"]):
                dist["aborts_seen"] += 1
            if any(isinstance(x, dict) or any(ord(c) > 127 for c in x) for x in op["outs"]):
                ro, Mk = dist["raw_outputs"], call_markers(kind, op, o)
                ro["non_ascii_marker_sets"] += any(ord(c) > 127 for m in Mk for c in m)
                for j, x in enumerate(op["outs"][:len(lines)]):
                    bx = out_bytes(x)
                    if not any(c > 127 for c in bx):
                        continue
                    hit = any(m in out_text(x) for m in Mk)
                    bad8 = not is_utf8(bx)
                    ro["not_utf8" if bad8 else "multibyte_utf8"] += 1
                    ro["with_marker" if hit else "without_marker"] += 1
                    if bad8:
                        ro["not_utf8_with_marker" if hit else "not_utf8_without_marker"] += 1
                        ro["not_utf8_without_marker_before_last_line_of_stop_on_failed_run"] += (
                            not hit and op["op"] != "send_command" and op["stop"] and j < len(lines) - 1 and not op["eager"])
            if stream == "markers":
                marker_stats(dist, call_markers(kind, op, o), [out_text(x) for l, x in zip(lines, op["outs"]) if dev_key(l)])
                dist["marker_sets"]["driver_level"] += op["fwc"] is None and op.get("dflt") is not None
                for fl in (o["flags"] or ([o["merged"][0]] if o["merged"] else [])):
                    dist["marker_sets"]["failed_flags"][str(bool(fl))] += 1
            rep.case((kind, scn["stack"], json.dumps(op, sort_keys=True)), nontrivial=len(lines) > 1 or bool(o["exc"]))
            if o["starved"]:
                # the call never came back; decided on what the device had received when the driver stalled
                bad = oracle(kind, op, o) if stream != "malformed" else []
                for sig, text in bad:
                    fails.append((scn, k, sig, text)) if ctx is None else hfails.append((ctx["hist"], ctx["ci"], k, sig, text))
                if not bad:
                    rep.broken.append("harness: the driver read while the device had nothing to say (%s %s)" % (kind, op["op"]))
                    rep.notes.append(json.dumps({"scenario": scn, "op": k})[:2000])
                dist["stalled_calls"] += 1
                continue
            bad = oracle(kind, op, o) if stream != "malformed" or op.get("expect_exc") else []
            for sig, text in bad:
                fails.append((scn, k, sig, text)) if ctx is None else hfails.append((ctx["hist"], ctx["ci"], k, sig, text))
            if op.get("container") is not None:            # a refused container: decided by the oracle alone (the model's lines are lists)
                continue
            terms.append(case_term(kind, scn["stack"], op, o))
            meta.append((scn, k, bool(bad)))
            if len(rep.samples) < 4 and len(lines) >= 2 and stream == "gen":
                rep.sample({"kind": kind, "stack": scn["stack"], "op": op["op"], "lines": [l[:60] for l in lines], "stop": op["stop"],
                            "eager": op["eager"], "fwc": op["fwc"], "priv": op.get("priv"), "flags": o["flags"],
                            "device_log": [(m, raw.decode("latin-1")[:60]) for m, raw, _, _ in o["log"]][:10]})
    t_impl = time.time() - t_impl
    # known finding: a marker containing "\n" can match the merged output of send_config across the join
    try:
        o = run_connection(jsonable(STRADDLE), rep.workdir)[0]
        mf, mres, _ = o["merged"]
        if mf is False and STRADDLE["ops"][0]["fwc"] in mres:
            if not rep.violation("send_config: merged output %r contains the marker but failed=False" % mres,
                                 {"suite": "send-delivery", "scenario": STRADDLE, "op": 0, "signature": "merged-marker-straddle",
                                  "rerun": "./check C13 --replay <this file>"}, signature="merged-marker-straddle"):
                pass
    except Exception as e:  # noqa
        rep.notes.append("straddle replay could not run: %r" % (e,))
    # known findings: IOS-XR / Junos _abort_config is unconditional - after a failed stop_on_failed push at a user-supplied level the
    # abort / rollback step is typed there.  Replayed on every run; any OTHER failure of these replays is a violation.
    for f in rep.findings:
        p = os.path.join(common.VERIF, f.get("replay", ""))
        if f.get("kind") != "known" or not f.get("signature", "").startswith("abort-at-user-level:") or not os.path.exists(p):
            continue
        try:
            for stack in ("sync", "async"):
                kscn = dict(json.load(open(p))["scenario"], stack=stack)
                for k, o in enumerate(run_connection(jsonable(kscn), rep.workdir)):
                    for sig, text in oracle(kscn["kind"], kscn["ops"][k], o):
                        if sig == f["signature"]:
                            rep.violation("%s %s %s: %s" % (kscn["kind"], kscn["stack"], kscn["ops"][k]["op"], text),
                                          {"suite": "send-delivery", "scenario": kscn, "op": k, "signature": sig,
                                           "rerun": "./check C13 --replay <this file>"}, signature=sig)
                        else:
                            fails.append((kscn, k, sig, text))
        except Exception as e:  # noqa
            rep.broken.append("harness: replay of %s could not run: %r" % (f["id"], e))
    # the response layer alone (real Response / MultiResponse, no device): marker sets as text x outputs of every shape
    dcases, dterms, dmeta, dfails = [gen_direct(rng) for _ in range(4000 if thorough else 500)], [], [], []
    dcases += [gen_direct_raw(rng_raw) for _ in range(2000 if thorough else 250)]
    ddist = {"sets": 0, "with_metachar": 0, "with_empty_marker": 0, "with_long_marker": 0, "with_nested_markers": 0,
             "not_a_valid_pattern": 0, "outputs": {}, "failed_flags": {"True": 0, "False": 0}, "exceptions": {}}
    for dc in dcases:
        do = run_direct(dc)
        dbad = oracle_direct(dc, do)
        for sig, text in dbad:
            dfails.append((dc, sig, text))
        f = dc["fwc"]
        marker_stats({"marker_sets": ddist}, [] if f is None else ([f] if isinstance(f, str) else list(f)), [out_text(x) for x in dc["outputs"]])
        for x in dc["outputs"]:
            bx = out_bytes(x)
            if any(c > 127 for c in bx):
                key = "outputs_multibyte_utf8" if is_utf8(bx) else "outputs_not_utf8"
                ddist[key] = ddist.get(key, 0) + 1
        for fl in do["flags"]:
            ddist["failed_flags"][str(bool(fl))] += 1
        rep.case(("response", json.dumps(dc, sort_keys=True)), nontrivial=len(dc["outputs"]) > 1 or bool(do["exc"]))
        if do["exc"] is None:
            dterms.append(direct_term(dc, do))
            dmeta.append((dc, bool(dbad)))
        else:
            ddist["exceptions"][do["exc"]] = ddist["exceptions"].get(do["exc"], 0) + 1
    # 4. model on the same cases
    # (the cases are dealt out so that the parallel Coq shards carry the same weight: very long lines are expensive to read in)
    t_model = time.time()
    try:                                   # a multi-line text of many very long lines is one deep list literal for coqc
        import resource
        soft, hard = resource.getrlimit(resource.RLIMIT_STACK)
        want = 1 << 30
        if soft != resource.RLIM_INFINITY and soft < want:
            resource.setrlimit(resource.RLIMIT_STACK, (want if hard == resource.RLIM_INFINITY else min(want, hard), hard))
    except Exception:  # noqa
        pass
    # (the response-layer cases are evaluated by their own coqc process while the shards of the main suite run)
    import threading
    dres = {}

    def eval_direct():
        try:
            dres["r"] = common.eval_cases(rep.workdir, "cases_c13_direct", DIRECT_HEADER, dterms, "dchk", shard=max(100, -(-len(dterms) // DIRECT_JOBS)))
        except Exception as e:  # noqa
            dres["r"] = (None, "response-direct evaluation: %r" % (e,))
    th = threading.Thread(target=eval_direct)
    if gen_ok:
        th.start()
    order, shard = balanced_order([len(t) for t in terms], max(1, common.JOBS - DIRECT_JOBS))
    badix, log = (None, "generated file missing") if not gen_ok else common.eval_cases(
        rep.workdir, "cases_c13", HEADER, [terms[i] for i in order], "chk", shard=shard)
    if badix is not None:
        badix = sorted(order[i] for i in badix)
    rep.coverage["phase_wall_s"] = {"implementation_runs": round(t_impl, 1), "model_evaluation": round(time.time() - t_model, 1),
                                    "case_text_bytes": sum(len(t) for t in terms)}
    if gen_ok:
        th.join()
    dbadix, dlog = dres.get("r", (None, "generated file missing"))
    rep.coverage["phase_wall_s"]["model_evaluation"] = round(time.time() - t_model, 1)
    rep.coverage["correspondence"] = {"suite": "send-delivery", "cases": len(terms), "distribution": dist,
                                      "model_disagreements": None if badix is None else len(badix),
                                      "oracle_failures": len(fails) + len(hfails)}
    rep.coverage["correspondence_response_layer"] = {"suite": "response-direct", "cases": len(dterms), "distribution": ddist,
                                                     "model_disagreements": None if dbadix is None else len(dbadix),
                                                     "oracle_failures": len(dfails)}
    rep.coverage["generated_from"] = common.source_hashes(SOURCES)
    rep.coverage["generated"] = info
    rep.rule = ("ops = send_command(s)/send_config(s)/from-file on generic, network and the five core drivers, sync and asyncio, 1-3 ops per "
                "connection over SimDevice; lines from a vocabulary + unicode + blanks + repeated lines + very long (ASCII and multi-byte of every "
                "UTF-8 width, size sweep around powers of two), failing positions sampled and (small lists) "
                "enumerated, marker sets default / str / list / empty string, stop_on_failed and eager on/off, all configuration levels incl. "
                "sessions, 5 chunking policies; marker sets as TEXT (stream 'markers' through the drivers, per call and at driver level, + the "
                "response layer alone): markers over an alphabet with every regular-expression / glob metacharacter, the vendors' complaints in "
                "full, markers that are prefixes / suffixes / superstrings / case variants of each other, the empty marker, markers of 260-420 (thorough: up to 1500) "
                "characters, against outputs that carry a marker literally, a string a pattern reading of the marker accepts, or a near miss; "
                "device outputs as bytes (stream 'rawout' + response layer): not well-formed UTF-8 (lone continuation bytes, ISO-8859-1 text, truncated and "
                "ill-formed sequences) and well-formed multi-byte UTF-8, with and without a marker, mostly stop_on_failed runs of 1-5 lines, all read-chunking policies; "
                "list histories (stream 'list-history'): ONE list object (1-2 per history, 0-6 lines) handed to send_commands / send_configs again and again on 1-3 "
                "connections of any driver / stack, edited in place by the caller in between (set / append / insert / del), stop_on_failed breaks in between; the "
                "caller's list (and per-call marker list) compared with a copy after every call of every stream; "
                "user-supplied privilege levels (stream 'user-levels'): NX-OS / EOS / IOS-XR / Junos drivers constructed with 1-2 extra non-session levels "
                "(8 names x 11 pattern spellings x 6 vendor shell modes), 1-3 calls per connection, pushes at the user's level (85 % stop_on_failed, failing "
                "position sampled), at the session and the configuration levels, commands in between; "
                "lines with a terminator of their own (stream 'terminated-lines'): send_commands / send_configs lists of 1-5 lines on every driver and "
                "stack in which 1..half of the lines end in / start with / are wrapped in / consist of the return char or CR LF (13 shapes, each as "
                "first, middle, last line in a fixed corpus), eager and not, unsplit reads, no device output for a line whose text is followed by its own terminator; "
                "non-trivial = more than one line or an exception; distinct = (driver, stack, op)")
    seen = set()
    for scn, k, sig, text in fails:
        if sig in seen:
            continue
        seen.add(sig)
        if len(seen) > 6:
            break
        small = minimise(scn, k, rep.workdir, sig)
        if small["ops"] != scn["ops"][:k + 1]:
            try:                                   # say what the oracle says about the replayed (smaller) scenario
                o2 = run_connection(small, rep.workdir)[-1]
                text = next((t for sg, t in oracle(small["kind"], small["ops"][-1], o2) if sg == sig), text)
            except Exception:  # noqa
                pass
        rep.violation("%s %s %s: %s" % (scn["kind"], scn["stack"], scn["ops"][k]["op"], text),
                      {"suite": "send-delivery", "scenario": small, "op": len(small["ops"]) - 1, "signature": sig,
                       "rerun": "./check C13 --replay <this file>"}, signature=sig)
    for hist, ci, k, sig, text in hfails:
        if sig in seen:
            continue
        seen.add(sig)
        if len(seen) > 8:
            break
        small = minimise_history(hist, ci, k, sig, rep.workdir)
        text = history_fails(small, sig, rep.workdir) or text
        c = small["connections"][-1]
        rep.violation("%s %s %s (call %d of a history that hands ONE list object to %d call(s) on %d connection(s)): %s" % (
            c["kind"], c["stack"], c["ops"][-1]["op"], sum(len(x["ops"]) for x in small["connections"]),
            sum(1 for x in small["connections"] for y in x["ops"] if y.get("list_id") is not None), len(small["connections"]), text),
            {"suite": "send-delivery", "history": small, "conn": len(small["connections"]) - 1, "op": len(c["ops"]) - 1, "signature": sig,
             "rerun": "./check C13 --replay <this file>"}, signature=sig)
    dseen = set()
    for dc, sig, text in sorted(dfails, key=lambda x: len(json.dumps(x[0]))):
        if sig in dseen:
            continue
        dseen.add(sig)
        small = minimise_direct(dc, sig)
        text = next((t for sg, t in oracle_direct(small, run_direct(small)) if sg == sig), text)
        rep.violation("Response.record_response: %s" % text,
                      {"suite": "response-direct", "case": small, "signature": sig, "rerun": "./check C13 --replay <this file>"},
                      signature="response-" + sig if not sig.startswith("response-") else sig)
    if dbadix is None:
        rep.broken.append("correspondence response-direct (model evaluation failed)")
        rep.notes.append(dlog)
    elif dbadix:
        pure = [ix for ix in dbadix if not dmeta[ix][1]]
        for ix in dbadix[:5]:
            rep.notes.append("model/implementation disagreement (response layer): %s" % json.dumps(dmeta[ix][0])[:1500])
        if pure:
            rep.broken.append("correspondence response-direct: model differs from implementation on %d case(s)" % len(pure))
    if badix is None:
        rep.broken.append("correspondence send-delivery (model evaluation failed)")
        rep.notes.append(log)
    elif badix:
        pure = [ix for ix in badix if not meta[ix][2]]
        for ix in badix[:5]:
            scn, k, _ = meta[ix]
            rep.notes.append("model/implementation disagreement: %s" % json.dumps({"scenario": scn, "op": k})[:1800])
        if pure:
            rep.broken.append("correspondence send-delivery: model differs from implementation on %d case(s)" % len(pure))
        if pure and not fails and not hfails:
            # search for a failing input of the property near the disagreements
            found = 0
            for ix in pure[:6]:
                scn, k, _ = meta[ix]
                for cand in neighbourhood(scn, k, rng):
                    try:
                        obs = run_connection(cand, rep.workdir)
                    except Exception:  # noqa
                        continue
                    for kk, o in enumerate(obs):
                        b = oracle(cand["kind"], cand["ops"][kk], o)
                        if b:
                            rep.violation("%s %s %s: %s" % (cand["kind"], cand["stack"], cand["ops"][kk]["op"], b[0][1]),
                                          {"suite": "send-delivery", "scenario": cand, "op": kk, "signature": b[0][0],
                                           "rerun": "./check C13 --replay <this file>"}, signature=b[0][0])
                            found += 1
                            break
                    if found:
                        break
                if found:
                    break


def neighbourhood(scn, k, rng):
    """variations of a disagreeing op: every failing position, stop / eager toggled, the empty list; then the lines themselves
    varied (multi-byte characters, longer, longer with multi-byte characters, blank edges, repeated lines)"""
    op = scn["ops"][k]
    base = dict(scn, ops=scn["ops"][:k])
    lines = op_lines(op)
    err = VENDOR_ERRORS[scn["kind"]][0]
    name = op["op"] if op["op"] in ("send_commands", "send_configs") else ("send_configs" if "config" in op["op"] else "send_commands")
    for stop in (True, False):
        for eager in (False, True):
            for pos in list(range(len(lines))) + [None]:
                ls = [l if dev_key(l) else "x" for l in lines]
                outs = [err if i == pos else "" for i in range(len(ls))]
                o2 = {"op": name, "lines": ls, "outs": outs, "fwc": None if scn["kind"] != "generic" else err, "stop": stop, "eager": eager,
                      "priv": op.get("priv", "")}
                fix_eager(o2)
                yield jsonable(dict(base, ops=base["ops"] + [o2]))
    yield jsonable(dict(base, ops=base["ops"] + [dict(op, op=name, lines=[], outs=[])]))
    # the content dimension: the same call with each line made longer / multi-byte / blank-edged / repeated
    ls = [l if dev_key(l) else "x" for l in lines] or ["x"]

    def widen(l, w):                       # same number of characters, every 7th one a w-byte character
        return "".join(WIDE[w][i % len(WIDE[w])] if (i % 7 == 3 and c not in " \t") else c for i, c in enumerate(l))

    variants = [[widen(l, w) for l in ls] for w in (2, 3, 4)]
    for size in (1100, 2100, 4200, 8300):
        variants.append([l.rstrip() + " " + "y" * max(0, size - len(l)) for l in ls])
        for w in (2, 3):
            variants.append([l.rstrip() + " " + sized_line(max(8, size - len(l.encode("utf-8"))), w, "z") for l in ls])
    variants.append([l + " " for l in ls])
    variants.append([l + "\t " for l in ls])
    variants.append(["  " + l for l in ls])
    variants.append([l for l in ls for _ in (0, 1)])
    variants.append(ls + [""] + ls)
    for v in variants:
        v = [l if dev_key(l) not in _transition_lines() else "x" + l for l in v]
        o2 = {"op": name, "lines": v, "outs": [""] * len(v), "fwc": None if scn["kind"] != "generic" else err, "stop": False, "eager": False,
              "priv": op.get("priv", "")}
        yield jsonable(dict(base, ops=base["ops"] + [o2]))


def replay(path):
    r = json.load(open(path))
    if r.get("suite") == "response-direct" and r.get("case"):
        case = r["case"]
        o = run_direct(case)
        print("Response(failed_when_contains=%r).record_response for the outputs %r" % (
            case["fwc"], [out_bytes(x)[:120] if isinstance(x, dict) else x[:120] for x in case["outputs"]]))
        print("   outcome: exc=%s flags=%s MultiResponse.failed=%s" % (o["exc"], o["flags"], o["multi"]))
        bad = oracle_direct(case, o)
        for sig, text in bad:
            print("   property FAILS: [%s] %s" % (sig, text))
        print("property holds on this input" if not bad else "property FAILS on this input")
        return 1 if bad else 0
    workdir = os.path.join(common.BUILD, "C13")
    os.makedirs(workdir, exist_ok=True)
    if r.get("history"):
        hist = r["history"]
        print("history: %d list object(s) of the caller %r, each handed over again and again (list #id), on %d connection(s) one after the other" % (
            len(hist["lists"]), {i: [l[:40] for l in v] for i, v in hist["lists"].items()}, len(hist["connections"])))
        rc = 0
        for ci, (scn, obs) in enumerate(zip(hist["connections"], run_history(hist, workdir))):
            print("connection %d (%s %s):" % (ci, scn["kind"], scn["stack"]))
            rc = max(rc, _replay_ops(r, scn, obs))
        print("property holds on this input" if rc == 0 else "property FAILS on this input")
        return rc
    scn = r.get("scenario")
    if not scn:
        print("nothing to replay (no concrete input): %s" % r.get("what"))
        return 1
    rc = _replay_ops(r, scn, run_connection(scn, workdir))
    print("property holds on this input" if rc == 0 else "property FAILS on this input")
    return rc


def _replay_ops(r, scn, obs):
    rc = 0
    for u in scn.get("user_levels") or []:
        print("the driver is constructed with the user's own privilege level %r (pattern %r, from %r by %r, left by %r); on the device that "
              "mode's prompt is %r" % (u["name"], u["pattern"], u["from"], u["enter"], u["leave"], u["prompt"]))
    for k, o in enumerate(obs):
        op = scn["ops"][k]
        print("op %d: %s %s %s lines=%r stop=%s eager=%s priv=%r fwc=%r%s" % (
            k, scn["kind"], scn["stack"], op["op"], [l[:50] for l in op_lines(op)], op["stop"], op["eager"], op.get("priv"), op["fwc"],
            ("" if op.get("path_id") is None else " file #%d%s" % (op["path_id"], " (rewritten, modification time kept)" if op.get("keep_mtime") else "")) +
            ("" if op.get("list_id") is None else " list #%s%s" % (op["list_id"], " (edited in place by the caller first: %r)" % (op["edits"],) if op.get("edits") else "")) +
            ("" if op.get("container") is None else " handed over as a %s" % op["container"])))
        c = o.get("caller") or {}
        if c.get("before") is not None:
            print("   caller's list: before the call %r, after it %r" % ([x[1] for x in c["before"]], [x[1] for x in c["after"]]))
        print("   outcome: exc=%s flags=%s merged=%s belief %s -> %s" % (o["exc"], o["flags"], o["merged"], o["cur0"], o["cur"]))
        if any(isinstance(x, dict) for x in op["outs"]):
            print("   device outputs (bytes): %r" % [out_bytes(x)[:80] for x in op["outs"]])
        print("   device log: %r" % [(m, raw if len(raw) <= 80 else raw[:40] + b"...(%d bytes)..." % len(raw) + raw[-30:], "nav" if nav else "")
                                     for m, raw, _, nav in o["log"]])
        if o["starved"]:
            print("   the call never came back: the driver reads while the device has nothing more to say (%s)" % (
                "inside privilege navigation" if o["nav_starved"] else "%d bytes received outside navigation" % sum(
                    len(x) for kk, x in o["events"] if kk == "w")))
        bad = oracle(scn["kind"], op, o)
        if r.get("signature") == "merged-marker-straddle" and o["merged"] and o["merged"][0] is False and op["fwc"] in o["merged"][1]:
            bad.append(("merged-marker-straddle", "merged output contains the marker but failed=False"))
        for sig, text in bad:
            print("   property FAILS: [%s] %s" % (sig, text))
            rc = 1
    return rc


MANIFEST = {
    "text": "Coq theorems (props/C13.v, 32 property theorems, all 'Closed under the global context') over the model of the send paths "
            "(coq/model/Send.v, Response.v, ResponseRaw.v), for ALL line lists, ALL devices (an arbitrary function position x line -> output), marker sets and flags: "
            "C13_delivery_exact / C13_delivery_bytes (send_commands: each line once, in order, byte for byte, one return each, one response per line; "
            "the empty list included), C13_stop_on_failed_prefix (first failing position k => exactly lines 0..k), C13_failed_iff_marker, "
            "C13_failed_marker_literal (the flag is literal containment and nothing else, with witnesses whose markers are regular-expression "
            "metacharacters: 'a.c' is not in 'abc'; '(' ; 'E|R' ; 'a*' ; the full IOS complaint with its '^'), "
            "C13_failed_iff_marker_raw / C13_failed_raw_ascii_markers / C13_decode_output_text (the output as the BYTES the channel returned, ANY bytes: "
            "read as UTF-8 where well-formed and as ISO-8859-1 otherwise, the response is failed iff a marker occurs in that text; for ASCII markers "
            "iff the marker's bytes occur in the raw output itself, so a byte that is not UTF-8 neither hides a marker nor makes one up; the reading "
            "is the identity on well-formed UTF-8 and always yields text), "
            "C13_multi_failed_iff_any, C13_net_send_commands / C13_send_configs_delivery / C13_delivery_device (only [navigation] ++ lines; device-side log "
            "= the lines in the target level), C13_send_configs_failed_run / C13_abort_in_session (failed run = [navigation] ++ lines 0..k ++ abort step, "
            "no navigation after the first line; device-side: abort lines logged in the failed session's level) for every abort shape that keeps the level, "
            "C13_send_config_eq_send_configs_splitlines (events, failed flag, joined output), C13_usplitlines_wire / C13_from_file_delivers_lines. "
            "The pinned code is refuted by vm_compute witnesses (empty list -> IndexError, send_config(\"\") -> IndexError, Junos abort leaving the "
            "exclusive session). Partial: 'the merged send_config response is failed iff ITS joined output contains a marker' is refuted for a marker "
            "containing a newline (known finding C13-merged-marker-straddle) and proved for newline-free markers (C13_merged_failed_iff_marker_partial). "
            "Tie: Gen_Send.v regenerated from the source on every run (FAILED_WHEN_CONTAINS, level tables with session flags, abort shape of each "
            "platform and twin read from the AST, structural facts of send_commands, empty-config behaviour) with obligations decided by vm_compute "
            "(C13_generated_abort_in_session instantiates abort_in_session on all 12 regenerated drivers); the model is evaluated by vm_compute on "
            "the same ops as the real drivers (sync and asyncio) over SimDevice and must agree on events, outcome, failed flags and believed level; "
            "an independent oracle decides the property on the device's received bytes and executed-line log - also for a call that never "
            "comes back (the driver reads while the causal, echoing device has answered everything it received): what the device has received "
            "by then must be the wire image of the lines, otherwise the line that reached it altered / cut short / without its return is the "
            "failing input (signatures delivery-altered, delivery-cut-short, return-missing, delivery-stalled). Line shapes: vocabulary lines, "
            "unicode, blanks and blank edges, the same line several times in one call, very long lines up to ~8 KiB whose character count and "
            "encoded length differ (all characters of UTF-8 width 2, 3 or 4, sprinkled, only the first / last character, words), and a sweep of "
            "encoded sizes around the powers of two 256..8192 x character widths through list, multi-line string and file variants on both stacks; "
            "a model/implementation disagreement is searched along failing positions, flags AND line content (longer, multi-byte, both, blank "
            "edges, repeated lines). Failure markers are exercised as TEXT: a stream of scenarios (all seven drivers, both stacks, every op) whose "
            "marker sets - per call (string or list) and at driver level (failed_when_contains given at construction, modelled as d_markers) - "
            "are drawn from an alphabet with every regular-expression and glob metacharacter (\\ ^ $ . | ? * + ( ) [ ] { }), from the vendors' "
            "complaints in full, from strings that are not valid patterns at all, with markers that are prefixes / suffixes / superstrings / case "
            "variants of each other, the empty marker and markers of 260-420 (thorough tier: up to 1500) characters; the device prints (i) a marker literally, (ii) a string "
            "that a pattern reading of the marker (regular expression or glob) accepts although the marker is not in it, (iii) near misses (a "
            "character dropped / changed / doubled, case, blank or line break inserted, reversed); the oracle's expectation is literal containment "
            "only, a raised exception is a failure, and stop_on_failed / abort are decided on the device's log as everywhere else. The same marker "
            "sets (plus markers with line breaks and blank edges, outputs with the marker at the very edge, empty outputs) are put to the real "
            "Response / MultiResponse directly (suite response-direct, model = record_raw / multi_failed, replayable). "
            "Device outputs as BYTES (stream 'rawout', all seven drivers, both stacks, every op kind, all read-chunking policies - reads that end "
            "inside a multi-byte sequence -, mostly stop_on_failed histories of 1-5 lines, + fixed shapes on every driver): outputs with bytes >= 0x80 "
            "that are not well-formed UTF-8 (lone continuation bytes, ISO-8859-1 text, truncated sequences at the end / before ASCII, ill-formed "
            "sequences: overlong forms, surrogates, above U+10FFFF, 0xFE/0xFF) and well-formed multi-byte UTF-8 of every width, each WITHOUT a marker "
            "(the run must go on: every later line is sent) and WITH one (before / after / right next to such bytes, on another line; the run stops "
            "exactly there), near misses (a marker broken by such a byte), ASCII and non-ASCII marker sets; the same output families without the "
            "channel's constraints plus random byte strings go to the real Response directly (flags, MultiResponse.failed and the recorded result "
            "text are compared). Oracle unchanged: failed <=> a marker occurs in the output, exactly the lines up to the first failed one are sent. "
            "File histories (stream 'file-history'): the SAME file path is sent two or three times on one connection, rewritten in between (other "
            "lines, fewer / more, or unchanged; modification time preserved as by cp -p, or not): every send must deliver the lines the file holds "
            "at that moment. Every connection keeps its files in a directory of its own, so a scenario fails or holds on its own and the replay "
            "in a fresh process sees what the run saw. "
            "The caller's objects (stream 'list-history' + an observer on every call of every stream): the list handed to send_commands / send_configs "
            "is compared after EVERY call - returned, raised or stalled - with a copy taken before it (contents and element types; signature "
            "caller-list-changed), and so is a marker list handed over per call (caller-markers-changed). Histories hand ONE list object to call "
            "after call: again on the same connection (second and third push, after a stop_on_failed break on it, after the caller repaired / "
            "appended / inserted / removed a line IN PLACE) and on the next connections (the loop over devices: other platforms, the other stack, "
            "send_commands and send_configs mixed, 1-2 shared lists per history incl. the one-line and the empty list, other ops in between); "
            "every call must put on the wire the lines the caller has put into the list by then (delivery oracle as everywhere, against the "
            "caller's own record of the list, which no code under test ever sees) and the object must still hold them when it is handed over "
            "(caller-list-stale); per-call marker lists of equal content are one shared object per history as well. Tuples and iterators are "
            "not accepted by the code (ScrapliTypeError): they must be refused with nothing written, the list behind them and the iterator "
            "untouched (caller-iterator-consumed). A failing history is cut after the failing call and shrunk by whole calls / connections; "
            "the replay file holds the whole history ({lists, connections}) and the replay prints the caller's list before and after each call. "
            "User-supplied privilege levels (stream 'user-levels', harness/c13_levels.py): on the platforms that have an abort / rollback step "
            "(NX-OS, EOS, IOS-XR, Junos; both stacks) the driver is CONSTRUCTED with privilege_levels = the platform's own + one or two levels "
            "of the user's that are no configuration sessions (the device's Linux shell, guest shell, line-card shell: 8 custom names - with and "
            "without 'config' in them, upper case -, 2-3 spellings of each prompt pattern, anchored or not) and the simulated device has those "
            "modes (vendor side: entered / left by the vendor's commands, own prompt; independent of the driver's tables). Histories of 1-3 calls: "
            "send_configs / send_config / send_configs_from_file AT the user's level - mostly stop_on_failed with a failing line at every position, "
            "driver-default and per-call markers -, at the registered session, at the plain configuration levels, commands in between and "
            "afterwards (a call after a failed run shows whether the driver still knows where it is: line-in-wrong-mode). Oracle unchanged: the "
            "device receives the navigation, exactly the lines up to the failing one, and the platform's abort step ONLY inside a configuration "
            "session - an abort / rollback line logged in the user's level is the failing input (signature abort-at-user-level:<platform>). "
            "C13_failed_run_outside_session proves for every guarded abort shape, every driver table and every level that is no session: a "
            "failed run = [navigation] ++ lines 0..k, nothing else, believed level kept; C13_generated_user_levels instantiates its premises on the "
            "regenerated NX-OS / EOS drivers (both twins) extended by a user level, and shows the regenerated IOS-XR / Junos shapes to be unguarded "
            "(known findings C13-iosxr-abort-at-user-level, C13-junos-abort-at-user-level: replayed on both stacks on every run; the generated "
            "histories keep away from a failed stop_on_failed run at the user's level on those two platforms and explore everything else there). "
            "Lines that carry a line terminator of their own (stream 'terminated-lines', all seven drivers, both stacks, send_commands and "
            "send_configs lists, eager and not, stop_on_failed on/off, as first / middle / last / only line, an ordinary call afterwards): the "
            "return char or CR LF at the end of the line (once, twice, followed by blanks, after trailing blanks), at its front, at both ends, and "
            "lines that are nothing but terminators - shapes only an in-memory list can hold (splitlines never leaves one in a file line or in a "
            "line of a multi-line send_config). Oracle unchanged: the device receives the line byte for byte and then one return (wire image and, "
            "for a call that stalls, return-missing / delivery-altered); the executed-line log is compared with what the device's own line "
            "discipline (CR, LF, CR LF each end a line) reads off that wire image. "
            "The implementation runs and the oracle do not depend on the translator: when gen_send refuses a changed _abort_config the "
            "failing-input search still runs on the real code and reports its inputs.",
    "note": "Proved on the model; the runtime is observed (partial): privilege navigation is abstracted to one event per acquire_priv call (its "
            "content is C04's subject; observed by wrapping acquire_priv on the driver instance, and checked device-side to consist of vendor transitions only), "
            "the channel's echo/prompt reading is C01/C02's subject (the device output per line is an arbitrary function in the theorems and the observed "
            "result in the correspondence); the device-side theorems assume the device's mode is the believed level (C03) and that only navigation changes it. "
            "Strings are modelled as their UTF-8 encodings (str.splitlines / `in` on valid UTF-8), confronted with the real str operations by the correspondence run. "
            "Generated lines avoid prompt-terminating characters and vendor transition commands "
            "(the property's proviso that only the driver changes the device's mode); eager mode is run with unsplit reads and a non-blank last line. "
            "Line terminators inside list elements occur in the stream 'terminated-lines' only, with ONE non-blank segment per line: such lines go "
            "through the same modelled path (EW line, EW return; the theorems quantify over all byte lists, CR / LF included), so the wire image is "
            "covered by the model, while the step from the wire image to the device's executed lines (its line discipline) is oracle-only there. "
            "A line with two non-blank segments ('a\\nb') never comes back on the unchanged code without eager_input (the echo read waits for "
            "'ab' in one piece; the channel's reading, C01/C02) and is left out; eager_input is not exercised by any stream. A line whose text is "
            "followed by its own terminator is given no device output and these connections are read unsplit: the device answers the text before "
            "the line's return arrives, and which response that output lands in depends on the read chunking (framing, not examined here). "
            "Very long and multi-byte lines go through the same modelled path (one transport.write per channel.write: EW line, EW return), so they are "
            "covered by the model and the theorems (which quantify over all byte lists), not oracle-only; a call that stalls is decided by the oracle "
            "alone (the model has no outcome for it) and a stall inside privilege navigation or after everything was delivered is reported as a harness "
            "failure without input (C01-C04's subject). "
            "The marker stream is covered by the model (FStr / FList / d_markers are byte lists, infixb is literal) and by C13_failed_iff_marker / "
            "C13_failed_marker_literal, not oracle-only; its device outputs end every line in a letter, digit or . ) ! ' \" and are read unsplit, because the "
            "channel removes lines that end like a prompt (# > $ % ~ @ : ]) and rstrips lines (C01/C02's subject), so that what the device printed is what "
            "the response holds; markers of type bytes are not accepted by the code (str `in` raises TypeError) and are outside the property's domain. "
            "Outputs that are not UTF-8: the decoding step of record_response IS modelled (ResponseRaw.v: utf8_valid = the standard's table of "
            "well-formed sequences, latin1_text, decode_output, record_raw) and confronted with the real Response on raw bytes in suite response-direct "
            "(flags and result text); in the send-level correspondence the per-line output given to the model is the text the response holds (the "
            "observed result, as before), so there the step from the device's bytes to that text is decided by the oracle and the response-layer "
            "model, not by Send.v. The oracle reads planned bytes as text with its own well-formedness check (is_utf8, written from the "
            "standard's table, it does not call the code under test): UTF-8 where well-formed, otherwise one character per byte - the documented reading of Response.result; for ASCII "
            "markers (the bulk) the expectation does not depend on that reading at all (C13_failed_raw_ascii_markers), for the few non-ASCII "
            "markers on non-UTF-8 output it does. Raw outputs keep to the marker stream's constraints (no line ends like a prompt, no control "
            "characters; bytes >= 0x80 are no prompt characters and no ASCII blanks). "
            "File histories go through the modelled from-file path (the model is given the text the file holds at the call; it has no state "
            "between calls, which is what the property says). "
            "List histories: every call of a history goes through the modelled send_commands / send_configs path (the model is given the lines the "
            "caller's record of the list holds at the call; Coq lists are values, the model has no objects and no state between calls - which is "
            "what the property says), so delivery / flags / abort of each call are covered by the model and the theorems; that the CALLER's list "
            "and marker-list OBJECTS are left as they were and are still intact when handed over again (caller-list-changed, caller-list-stale, "
            "caller-markers-changed, caller-markers-stale, caller-iterator-consumed) is oracle-only - object identity and mutation are not modelled; the only static "
            "tie there is C13_generated_send_commands_structure (the loop iterates over the slice commands[:-1], read from the AST). Refused "
            "containers (tuple, iterator: ScrapliTypeError) are oracle-only as well. "
            "User-supplied levels are covered by the model, not oracle-only: the case's driver is the regenerated one with d_levels extended by "
            "(name, 'the user's pattern contains config\\-s') (Send_Proofs.with_levels) and must agree on events, flags and believed level; how "
            "the navigation reaches the user's level (escalate / deescalate commands, prompt patterns) stays abstracted to one ENav event (C04), "
            "checked device-side to consist of the vendor's transitions only. "
            "Unknown privilege level names (malformed stream) are model-vs-implementation only. Trusted: Coq kernel + vm_compute, gen/gen_send.py "
            "(AST reading of _abort_config / send_commands), SimDevice (+ the vendor-side shell modes of harness/c13_levels.py) and the scripted transports.",
    "technique": "Coq proofs by induction over the line list (loop invariant of the all-but-last loop with break, splitlines scanner invariant, infix/join lemma) "
                 "+ vm_compute refutations of the pinned code + regenerated data obligations + vm_compute correspondence against sync and asyncio drivers "
                 "over a simulated device + device-side property oracle with minimised replays",
}
