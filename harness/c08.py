"""C08 -- losing the connection surfaces promptly as a scrapli error.

proof: coq/proofs/ConnLoss_Proofs.v over coq/model/ConnLoss.v (and ConnLossNeg_Proofs.v over ConnLossNeg.v: the writes
inside a read, Telnet option negotiation), instantiated in props/C08.v with the configuration
generated from the source (Gen_ConnLoss.v).  tie: (a) Gen_ConnLoss.v regenerated on every run and the
obligations over it compiled; (b) the real transports / channels (sync and asyncio) over scripted low-level
objects run on generated fault histories and compared with the model by vm_compute; (c) an independent oracle on
the implementation's observations (exception is a ScrapliException, latency, isalive() afterwards, later
operations), also over whole drivers with a drop at every byte offset / every write, a real pty child, real
loopback sockets and real ssh sessions."""
import json
import os
import re
import select
import subprocess
import sys
import threading
import time

from . import common
from .common import coq_bytes, coq_list

LEVEL = "proof"
SOURCES = ["scrapli/transport/plugins/system/transport.py", "scrapli/transport/plugins/system/ptyprocess.py",
           "scrapli/transport/plugins/telnet/transport.py", "scrapli/transport/plugins/asynctelnet/transport.py",
           "scrapli/transport/plugins/paramiko/transport.py", "scrapli/transport/plugins/asyncssh/transport.py",
           "scrapli/transport/base/base_socket.py", "scrapli/channel/sync_channel.py",
           "scrapli/channel/async_channel.py", "scrapli/channel/base_channel.py",
           "scrapli/driver/base/sync_driver.py", "scrapli/driver/base/async_driver.py", "scrapli/decorators.py",
           "scrapli/exceptions.py"]

SLACK = 1.0
PROMPT = "r1#"
ALL_TR = ("telnet", "system", "paramiko", "asynctelnet", "asyncssh")
COQ_TR = {"telnet": "Telnet", "asynctelnet": "ATelnet", "system": "System", "paramiko": "Paramiko", "asyncssh": "Asyncssh"}
CLS_OF = {
    "Exception": "EException", "OSError": "EOSError", "ConnectionError": "EConnectionError",
    "ConnectionResetError": "EConnReset", "BrokenPipeError": "EBrokenPipe", "ConnectionRefusedError": "EConnRefused",
    "ConnectionAbortedError": "EConnAborted", "TimeoutError": "ETimeout", "gaierror": "EGaiError",
    "EOFError": "EEOFError", "IncompleteReadError": "EIncompleteRead", "AttributeError": "EAttributeError",
    "PtyProcessError": "EPtyProcessError", "SSHException": "ESSHException", "AuthenticationException": "EAuthException",
    "ChannelException": "EChannelException", "AsyncsshError": "EAsyncsshError", "DisconnectError": "EDisconnectError",
    "ConnectionLost": "EConnectionLost", "PermissionDenied": "EPermissionDenied",
    "HostKeyNotVerifiable": "EHostKeyNotVerifiable", "KeyExchangeFailed": "EKeyExchangeFailed",
    "ChannelOpenError": "EChannelOpenError", "ScrapliException": "SException",
    "ScrapliConnectionError": "SConnectionError", "ScrapliConnectionNotOpened": "SNotOpened",
    "ScrapliAuthenticationFailed": "SAuthFailed", "ScrapliTimeout": "STimeout",
}
# asyncssh raises a subclass of DisconnectError per SSH disconnect reason (api docs, "Exceptions"); the model knows the
# classes that the source names: an unnamed subclass flows through the except clauses exactly as its nearest modelled
# ancestor does (gen_connloss aborts on an except clause naming a class outside the model's universe)
ASYNCSSH_DISCONNECTS = ["ProtocolError", "MACError", "CompressionError", "ServiceNotAvailable", "ProtocolNotSupported"]
CLS_OF.update({n: "EDisconnectError" for n in ASYNCSSH_DISCONNECTS})
CLS_IX = {"EException": 1, "EOSError": 2, "EConnectionError": 3, "EConnReset": 4, "EBrokenPipe": 5, "EConnRefused": 6,
          "EConnAborted": 7, "ETimeout": 8, "EGaiError": 9, "EEOFError": 10, "EIncompleteRead": 11,
          "EAttributeError": 12, "EPtyProcessError": 13, "ESSHException": 14, "EAuthException": 15,
          "EChannelException": 16, "EAsyncsshError": 17, "EDisconnectError": 18, "EConnectionLost": 19,
          "EPermissionDenied": 20, "EHostKeyNotVerifiable": 21, "EKeyExchangeFailed": 22, "EChannelOpenError": 23,
          "SException": 30, "SConnectionError": 31, "SNotOpened": 32, "SAuthFailed": 33, "STimeout": 34}

# the library contract of coq/model/ConnLoss.v [may_raise] (python names), used by the generators
OS_FAMILY = ["OSError", "ConnectionError", "ConnectionResetError", "BrokenPipeError", "ConnectionRefusedError",
             "ConnectionAbortedError", "TimeoutError"]
MAY_RECV = {"telnet": ["EOFError"] + OS_FAMILY, "asynctelnet": ["EOFError", "IncompleteReadError"] + OS_FAMILY,
            "system": ["EOFError"] + OS_FAMILY, "paramiko": ["Exception", "EOFError", "SSHException"] + OS_FAMILY,
            "asyncssh": ["DisconnectError", "ConnectionLost"] + ASYNCSSH_DISCONNECTS + OS_FAMILY}
MAY_SEND = {t: OS_FAMILY for t in ALL_TR}
MAY_CLOSE = {"telnet": OS_FAMILY, "asynctelnet": [], "system": ["PtyProcessError"],
             "paramiko": ["EOFError", "SSHException"] + OS_FAMILY, "asyncssh": ["BrokenPipeError"]}
MAY_PROBE = {"telnet": OS_FAMILY, "asynctelnet": [], "system": ["PtyProcessError"], "paramiko": [],
             "asyncssh": ["AttributeError"]}
SSH_FATAL = [b"host key verification failed", b"operation timed out", b"connection timed out", b"no route to host",
             b"no matching host key", b"no matching key exchange", b"no matching cipher", b"bad configuration",
             b"could not resolve hostname", b"permission denied"]


# ------------------------------------------------------------------------------------------------
# worker pool: the real code runs in child processes, watched from here (a hang is an observation)
# ------------------------------------------------------------------------------------------------
def _allow(case):
    a = case.get("allow")
    if a is not None:
        return a
    n = len(case.get("ops", [])) + 1
    if case.get("kind") in ("pty", "tcp", "ssh"):
        return 14.0 + n * (case.get("To", 2.0) + 0.8)
    if case.get("kind") == "driver":
        silent = (case.get("drop") or {}).get("how") == ["B"]      # every later operation waits for its timeouts
        return (10.0 + 4 * n * case.get("To", 0.5)) if silent else (8.0 + n * case.get("To", 0.5))
    untimed = not case.get("To") or any(o.get("op") == "read" for o in case.get("ops", [])) and not case.get("Ti")
    return 5.0 + n * (case.get("To", 0.5) + 0.6) + ((max(4.0, case.get("To", 0) + 1.5) + 1.0) if untimed else 0.0)


def _run_shard(cases, path, out, env):
    """run cases (list of (index, case)) in one worker; restart it after a hang"""
    with open(path, "w") as f:
        json.dump([c for _, c in cases], f)
    start = 0
    nhang = 0
    while start < len(cases):
        if nhang >= 2:      # this many hangs are verdict enough: do not spend the allowance of every further scenario
            for k in range(start, len(cases)):
                out[cases[k][0]] = {"skipped": True}
            return
        p = subprocess.Popen([sys.executable, "-m", "harness.c08_worker", path, str(start)], cwd=common.VERIF,
                             stdout=subprocess.PIPE, stderr=subprocess.DEVNULL, env=env)
        fd = p.stdout.fileno()
        cur, deadline = None, time.time() + 240       # start-up (imports, warm-up) on a loaded machine
        hung, eof, buf = False, False, b""
        try:
            while not eof and not hung:
                # everything that has arrived is handled before the clock is looked at again
                while b"\n" in buf:
                    line, buf = buf.split(b"\n", 1)
                    line = line.decode("utf8", "replace")
                    if line.startswith("READY"):
                        deadline = time.time() + 60
                    elif line.startswith("START "):
                        cur = int(line.split()[1])
                        deadline = time.time() + _allow(cases[cur][1])
                    elif line.startswith("DONE "):
                        _, i, payload = line.split(" ", 2)
                        out[cases[int(i)][0]] = json.loads(payload)
                        start = int(i) + 1
                        cur = None
                        deadline = time.time() + 60
                r, _, _ = select.select([fd], [], [], max(0.05, min(5.0, deadline - time.time())))
                if r:
                    chunk = os.read(fd, 65536)
                    if not chunk:
                        eof = True
                    buf += chunk
                elif time.time() >= deadline:
                    hung = True
        finally:
            try:
                p.kill()
            except OSError:
                pass
            p.wait()
            p.stdout.close()
        if hung and cur is not None:
            out[cases[cur][0]] = {"hang": True}
            start = cur + 1
            nhang += 1
        elif hung:
            out[cases[start][0]] = {"harness_error": "worker did not start"}
            start += 1
        elif cur is not None and cases[cur][0] not in out:
            out[cases[cur][0]] = {"harness_error": "worker died"}
            start = cur + 1
        elif start < len(cases):
            out[cases[start][0]] = {"harness_error": "worker exited %s" % p.returncode}
            start += 1


def run_cases(cases, workdir, tag, jobs=None):
    """-> list of results aligned with cases"""
    jobs = jobs or min(common.JOBS, 12)
    env = dict(os.environ)
    env["PYTHONPATH"] = common.REPO
    env["VERIF_REPO"] = common.REPO
    out = {}
    # heavy cases spread evenly: round robin
    shards = [[] for _ in range(max(1, min(jobs, len(cases))))]
    for i, c in enumerate(cases):
        shards[i % len(shards)].append((i, c))
    threads = []
    for k, sh in enumerate(shards):
        if not sh:
            continue
        t = threading.Thread(target=_run_shard, args=(sh, os.path.join(workdir, "c08_%s_%d.json" % (tag, k)), out, env))
        t.start()
        threads.append(t)
    for t in threads:
        t.join()
    return [out.get(i, {"harness_error": "no result"}) for i in range(len(cases))]


# ------------------------------------------------------------------------------------------------
# python ports of the model's matchers, checked against the real patterns when a stream is generated
# ------------------------------------------------------------------------------------------------
def py_m_search_buf(buf):
    before, _, after = buf.partition(b"\n")
    return after if after else before


def py_ends_line(lit, buf):
    ls = buf.splitlines() or [b""]
    return any(l.endswith(lit) or l.endswith(lit + b" ") for l in ls)


def py_m_input(inp, buf):
    return b"".join(inp.lower().split()) in b"".join(buf.lower().replace(b"\x08", b"").split())


_RX = {}


def real_patterns():
    if not _RX:
        from scrapli.channel.base_channel import BaseChannelArgs
        a = BaseChannelArgs()
        _RX["user"] = re.compile(a.auth_telnet_login_pattern.encode(), flags=re.I | re.M)
        _RX["pass"] = re.compile(a.auth_password_pattern.encode(), flags=re.I | re.M)
        _RX["phrase"] = re.compile(a.auth_passphrase_pattern.encode(), flags=re.I | re.M)
        _RX["prompt"] = re.compile(PROMPT.encode(), flags=re.I | re.M)
    return _RX


def login_stream_faithful(kind, chunks):
    """every buffer the login loop can see on this stream is judged alike by the real patterns and the ports"""
    rx = real_patterns()
    ab = b""
    for c in chunks:
        ab += c.lower()
        if kind == "telnet":
            u = bool(rx["user"].search(ab))
            if u != py_ends_line(b"login:", ab):
                return False
            if u:
                ab = b""
            p = bool(rx["pass"].search(ab))
            if p != py_ends_line(b"password:", ab):
                return False
            if p:
                ab = b""
        else:
            p = bool(rx["pass"].search(ab))
            if p != py_ends_line(b"password:", ab):
                return False
            if p:
                ab = b""
            ph = bool(rx["phrase"].search(ab))
            if ph != (b"enter passphrase for key" in ab):
                return False
            if ph:
                ab = b""
        if rx["prompt"].search(ab):
            return True
    return True


# ------------------------------------------------------------------------------------------------
# scenarios -> Coq terms
# ------------------------------------------------------------------------------------------------
def coq_cls(name):
    return CLS_OF[name]


def coq_rev(ev):
    if ev[0] == "D":
        return "RData %s" % coq_bytes(bytes.fromhex(ev[1]))
    if ev[0] == "E":
        return "REmpty"
    if ev[0] == "B":
        return "RBlock"
    return "RRaise %s" % coq_cls(ev[1])


def coq_wev(ev):
    return "WOk" if ev[0] == "ok" else "WRaise %s" % coq_cls(ev[1])


def coq_pev(ev):
    return {"T": "PTrue", "F": "PFalse"}.get(ev[0]) or "PRaise %s" % coq_cls(ev[1])


def coq_cev(ev):
    return "COk" if ev[0] == "ok" else "CRaise %s" % coq_cls(ev[1])


def coq_lit(s):
    return coq_bytes(s.encode() if isinstance(s, str) else s)


def coq_op(op):
    k = op["op"]
    if k == "get_prompt":
        return "OpChan [IWrite; IRead (m_contains %s)]" % coq_lit(PROMPT)
    if k == "send_input":
        return "OpChan [IWrite; IRead (m_input %s); IWrite; IRead (m_prompt %s)]" % (coq_lit(op["input"]), coq_lit(PROMPT))
    if k == "interact":
        ins = []
        for ev in op["events"]:
            inp, resp, hidden = ev[0], ev[1], (ev[2] if len(ev) > 2 else False)
            ins.append("IWrite")
            if resp and not hidden:
                ins.append("IRead (m_input %s)" % coq_lit(inp))
            ins.append("IWrite")
            ins.append("IRead (m_prompt %s)" % coq_lit(resp))
        return "OpChan [%s]" % "; ".join(ins)
    if k == "login_telnet":
        return "OpChan [ILoginT (ends_line %s) (ends_line %s) (m_contains %s)]" % (
            coq_lit("login:"), coq_lit("password:"), coq_lit(PROMPT))
    if k == "login_ssh":
        return "OpChan [ILoginS (fun b => existsb (fun l => infixb l b) %s) (ends_line %s) (m_contains %s) (m_contains %s)]" % (
            coq_list([coq_bytes(x) for x in SSH_FATAL]), coq_lit("password:"), coq_lit("enter passphrase for key"),
            coq_lit(PROMPT))
    if k == "send_return":
        return "OpChan [IWrite]"
    return {"isalive": "OpAlive", "close": "OpClose", "read": "OpRead", "write": "OpWrite"}[k]


def ms(x):
    return int(round(x * 1000))


def obs_code(o):
    out = o["out"]
    if out[0] == "ok":
        a = (0, 0)
    elif out[0] == "bool":
        a = (1, 1 if out[1] else 0)
    elif out[0] == "exc":
        a = (2, CLS_IX.get(CLS_OF.get(out[1], ""), 99))
    else:
        a = (3, 0)
    al = o["alive"]
    if isinstance(al, bool):
        b = (1, 1 if al else 0)
    elif al[0] == "exc":
        b = (2, CLS_IX.get(CLS_OF.get(al[1], ""), 99))
    else:
        b = (3, 0)
    return a, b


def chan_case_term(case, obs):
    init = {"open": "st_open", "never": "st_never", "closed": "st_never"}[case.get("init", "open")]
    codes = coq_list(["((%d, %d), (%d, %d))" % (a + b) for a, b in (obs_code(o) for o in obs)])
    return "(%s, %d, %d, %s, %s, mkEnv %s %s %s, %s, %s)" % (
        COQ_TR[case["tr"]], ms(case["To"]), ms(case.get("Ti", 0.0)), coq_list([coq_op(o) for o in case["ops"]]), init,
        coq_list([coq_wev(e) for e in case.get("sends", [])]), coq_list([coq_pev(e) for e in case.get("probes", [])]),
        coq_list([coq_cev(e) for e in case.get("closes", [])]), coq_list([coq_rev(e) for e in case.get("recvs", [])]), codes)


CHAN_HEADER = """From Verif Require Import Bytes ConnLoss.
From Gen Require Import Gen_ConnLoss.
Definition chk (x : transport * N * N * list op * tst * env * list rev * list (N * N * (N * N))) : bool :=
  let '(tr, To, Ti, ops, st, e, rs, want) := x in
  codes_eqb (obs_codes (run_ops gen_cfg tr To Ti ops st e rs)) want.
"""


# ------------------------------------------------------------------------------------------------
# suite B generators: channel / transport operations over the real transports, fault histories
# ------------------------------------------------------------------------------------------------
def D(b):
    return ["D", b.hex()]


# name -> (ops, nominal chunks of the device's answer), per transport family
SCRIPTS = {
    "get_prompt": ([{"op": "get_prompt"}], [b"\n", b"r1#"]),
    "send_input": ([{"op": "send_input", "input": "showx"}], [b"sho", b"wx", b"\n", b"line one\nline two\n", b"r1#"]),
    "send_input2": ([{"op": "send_input", "input": "showy"}], [b"showy", b"\nother\nr1#"]),
    "interact": ([{"op": "interact", "events": [["clearlog", "[confirm]", False], ["y", "r1#", False]]}],
                 [b"clearlog", b"\nclear buffer [confirm]", b"y", b"\nr1#"]),
    "interact_hidden": ([{"op": "interact", "events": [["enable", "password:", False], ["secret", "r1#", True]]}],
                        [b"enable", b"\npassword:", b"\nr1#"]),
    "login_telnet": ([{"op": "login_telnet"}], [b"\nlogin: ", b"admin\npass", b"word: ", b"\nwelcome\nr1#"]),
    "login_telnet_retry": ([{"op": "login_telnet"}], [b"login: ", b"admin\npassword: ", b"\nbad\nlogin: ", b"admin\npassword: ",
                                                     b"\nr1#"]),
    "login_telnet_fail": ([{"op": "login_telnet"}], [b"login: ", b"x\nlogin: ", b"y\nlogin: ", b"r1#"]),
    "login_ssh": ([{"op": "login_ssh"}], [b"warning: permanently added\n", b"password: ", b"\nr1#"]),
    "login_ssh_phrase": ([{"op": "login_ssh"}], [b"enter passphrase for key '/k': ", b"\npassword: ", b"\nlast login\nr1#"]),
    "login_ssh_fatal": ([{"op": "login_ssh"}], [b"ssh: connect to host h port 22: ", b"no route to host\n"]),
    "read": ([{"op": "read"}], [b"abc"]),
    "write": ([{"op": "write"}], []),
}
FOR_TR = {
    "telnet": ["get_prompt", "send_input", "send_input2", "interact", "interact_hidden", "login_telnet", "login_telnet_retry",
               "login_telnet_fail", "read", "write"],
    "asynctelnet": ["get_prompt", "send_input", "send_input2", "interact", "interact_hidden", "login_telnet",
                    "login_telnet_retry", "login_telnet_fail", "read", "write"],
    "system": ["get_prompt", "send_input", "send_input2", "interact", "interact_hidden", "login_ssh", "login_ssh_phrase",
               "login_ssh_fatal", "read", "write"],
    "paramiko": ["get_prompt", "send_input", "send_input2", "interact", "interact_hidden", "read", "write"],
    "asyncssh": ["get_prompt", "send_input", "send_input2", "interact", "interact_hidden", "read", "write"],
}
TAIL_OPS = [{"op": "get_prompt"}, {"op": "write"}, {"op": "read"}, {"op": "send_input", "input": "showx"}, {"op": "isalive"},
            {"op": "close"}, {"op": "send_return"}]


def subdivide(rng, chunks, policy):
    if policy == "nominal":
        return list(chunks)
    out = []
    for c in chunks:
        if policy == "bytes":
            out += [c[i:i + 1] for i in range(len(c))]
        else:
            i = 0
            while i < len(c):
                n = rng.randint(1, 5)
                out.append(c[i:i + n])
                i += n
    return out


def cut_stream(chunks, d):
    """the chunk list up to byte offset d of the concatenated stream"""
    out, seen = [], 0
    for c in chunks:
        if seen + len(c) <= d:
            out.append(c)
            seen += len(c)
        else:
            if d > seen:
                out.append(c[:d - seen])
            break
    return out


def loss_events(tr):
    return [["E"]] + [["R", c] for c in MAY_RECV[tr]] + [["B"]]


def nwrites_of(ops):
    n = 0
    for o in ops:
        k = o["op"]
        n += {"get_prompt": 1, "send_input": 2, "write": 1, "send_return": 1, "login_telnet": 4, "login_ssh": 4,
              "send_and_read": 2}.get(k, 0)
        if k == "interact":
            n += 2 * len(o["events"])
    return n


def gen_chan_case(rng, tr=None, script=None, fault=None, drop=None, how=None, policy=None):
    tr = tr or rng.choice(ALL_TR)
    names = [script] if script else [rng.choice(FOR_TR[tr]) for _ in range(rng.choice([1, 1, 2, 3]))]
    # a login only makes sense first
    names = [n for i, n in enumerate(names) if i == 0 or not n.startswith("login")]
    ops, chunks = [], []
    for n in names:
        o, c = SCRIPTS[n]
        ops += [dict(x) for x in o]
        chunks += c
    policy = policy or rng.choice(["nominal", "nominal", "bytes", "random"])
    if tr == "asynctelnet" and any(n.startswith("login") for n in names) and policy == "bytes":
        policy = "random"        # the asyncio login loop sleeps 0.1 s per read: keep the run short
    chunks = subdivide(rng, chunks, policy)
    total = sum(len(c) for c in chunks)
    fault = fault or rng.choice(["read", "read", "read", "write", "none", "probe"])
    case = {"kind": "channel", "tr": tr, "To": rng.choice([0.3, 0.4]), "Ti": rng.choice([0.0, 0.0, 0.15, 0.7]),
            "init": "open", "sends": [], "probes": [], "closes": [], "script": names, "policy": policy, "fault": fault}
    recvs = [D(c) for c in chunks]
    if fault == "read":
        d = rng.randint(0, total) if drop is None else min(drop, total)
        how = how or rng.choice(loss_events(tr))
        recvs = [D(c) for c in cut_stream(chunks, d)] + [how]
        # what a confused peer might still deliver afterwards (the library model makes it unreachable after a loss)
        if rng.random() < 0.3:
            recvs += [D(b"late r1#")]
        case["drop"] = {"byte": d, "how": how}
    elif fault == "write":
        nw = max(1, nwrites_of(ops))
        w = rng.randint(0, nw - 1) if drop is None else drop
        how = how or ["R", rng.choice(MAY_SEND[tr])]
        case["sends"] = [["ok"]] * w + [how]
        case["drop"] = {"write": w + 1, "how": how}
        if rng.random() < 0.5:
            recvs = [D(c) for c in cut_stream(chunks, rng.randint(0, total))] + [rng.choice([["E"], ["B"], ["R", rng.choice(MAY_RECV[tr])]])]
    elif fault == "probe":
        k = rng.randint(0, 6)
        pe = rng.choice([["F"]] + [["R", c] for c in MAY_PROBE[tr]])
        case["probes"] = [["T"]] * k + [pe] + [["T"]] * rng.randint(0, 3)
        recvs += [rng.choice([["E"], ["B"]])] if rng.random() < 0.5 else []
    else:
        if rng.random() < 0.5:
            recvs += [["E"]]
    if rng.random() < 0.25 and MAY_CLOSE[tr]:
        # paramiko: channel.close(), then the socket's shutdown
        case["closes"] = [rng.choice([["ok"], ["R", rng.choice(MAY_CLOSE[tr])]])] + (
            [["R", rng.choice(MAY_CLOSE[tr])]] if rng.random() < 0.3 else [])
    if ["B"] in recvs:
        recvs = recvs[:recvs.index(["B"]) + 1]       # a silent peer stays silent
    case["recvs"] = recvs
    if tr == "asynctelnet" and any(n.startswith("login") for n in names):
        # the asyncio login loop sleeps 0.1 s per round: leave it the time to reach the decisive event
        case["To"] = round(0.1 * (len(recvs) + len(case["sends"]) + 2) + 0.4, 2)
    tail = [dict(rng.choice(TAIL_OPS)) for _ in range(rng.choice([1, 2, 3]))]
    if rng.random() < 0.4:
        tail += [{"op": "close"}, dict(rng.choice(TAIL_OPS[:5]))]
    case["ops"] = ops + tail
    if rng.random() < 0.3:
        case["lock"] = True      # channel_lock=True: what a loss interrupts must not keep the lock from the operations after it
    if any(o["op"] == "read" for o in case["ops"]) and not case["Ti"]:
        case["Ti"] = 0.15      # a bare transport.read() with no timeout at all blocks for ever on a silent peer
    sticky = fault == "read" and (how == ["E"] or (how[0] == "R" and how[1] != "TimeoutError"))
    if sticky and not any(n.startswith("login") for n in names) and rng.random() < 0.15:
        # no timeout at all: a dropped session (unlike a silent one) must still surface at once, nothing may spin
        case["To"], case["must_not_hang"] = 0.0, True
    if tr == "asynctelnet" and any(n.startswith("login") for n in names) and any(e[0] == "R" for e in case["sends"]):
        # while the asyncio login polls a silent peer it sends returns on a wall-clock schedule: keep the write
        # fault out of that (time dependent) regime -- the history ends in a sticky loss instead
        last = case["recvs"][-1] if case["recvs"] else ["B"]
        if last == ["B"]:
            case["recvs"] = case["recvs"][:-1] + [["E"]]
        elif not (last[0] == "E" or (last[0] == "R" and last[1] != "TimeoutError")):
            case["recvs"] = case["recvs"] + [["E"]]
    return case


def chan_corpus():
    """fixed scenarios that run first on every seed: the baseline defects and boundary shapes"""
    out = []
    for tr in ALL_TR:
        for init in ("never", "closed"):
            out.append({"kind": "channel", "tr": tr, "To": 0.3, "Ti": 0.0, "init": init, "recvs": [D(b"r1#")], "sends": [],
                        "probes": [], "closes": [], "script": ["dead-" + init], "fault": "none",
                        "ops": [{"op": "isalive"}, {"op": "get_prompt"}, {"op": "send_input", "input": "showx"},
                                {"op": "interact", "events": [["a", "b", False]]}, {"op": "read"}, {"op": "write"},
                                {"op": "send_return"}, {"op": "close"}, {"op": "read"}]})
        o, c = SCRIPTS["send_input"]
        for how in loss_events(tr):
            for d in (0, 3, 5, 6, 24, 27):
                out.append({"kind": "channel", "tr": tr, "To": 0.3, "Ti": 0.0, "init": "open",
                            "recvs": [D(x) for x in cut_stream(c, d)] + [how], "sends": [], "probes": [], "closes": [],
                            "script": ["send_input"], "fault": "read", "drop": {"byte": d, "how": how},
                            "ops": [dict(o[0]), {"op": "get_prompt"}, {"op": "write"}, {"op": "close"}, {"op": "get_prompt"}]})
    for tr in ("telnet", "asynctelnet"):
        o, c = SCRIPTS["login_telnet"]
        for how in loss_events(tr):
            for d in (0, 8, 12, 19, 25):
                for sends in ([], [["ok"]] * 3 + [["R", "BrokenPipeError"]]):
                    if sends and tr == "asynctelnet" and how in (["B"], ["R", "TimeoutError"]):
                        continue      # time dependent (see gen_chan_case)
                    out.append({"kind": "channel", "tr": tr, "To": 0.3 if tr == "telnet" else 1.2, "Ti": 0.0, "init": "open",
                                "recvs": [D(x) for x in cut_stream(c, d)] + [how], "sends": sends, "probes": [], "closes": [],
                                "script": ["login_telnet"], "fault": "read", "drop": {"byte": d, "how": how},
                                "ops": [dict(o[0]), {"op": "get_prompt"}]})
    return out


# ------------------------------------------------------------------------------------------------
# read-for-a-duration: channel.send_input_and_read (its loop _read_until_prompt_or_time is the one read loop of the
# channels with an except/suppress table of its own), the session dropping at EVERY byte offset of the exchange
# ------------------------------------------------------------------------------------------------
SAR_DUR = 0.8        # < 1: the loop arms no transport timeout (int(read_duration) == 0); every nominal exchange ends on a match
SAR_SCRIPTS = {
    # until the prompt
    "send_and_read": ({"op": "send_and_read", "input": "showz", "dur": SAR_DUR},
                      [b"sho", b"wz", b"\n", b"line one\nline two\n", b"r1#"]),
    # until an expected output (what follows it stays unread)
    "send_and_read_expect": ({"op": "send_and_read", "input": "showz", "expect": ["ne tw"], "dur": SAR_DUR},
                             [b"showz", b"\nline o", b"ne\nline two\n", b"r1#"]),
}


def sar_chan_cases(rng, thorough):
    """every transport x {until the prompt, until an expected output} x EVERY byte offset of the exchange (echo, answer,
    prompt) x a loss kind (quick: rotating through all of the transport's, so that each occurs at every region;
    thorough: each), chunking nominal / 1-byte / random, channel_lock on every other one; then further operations on
    the same (dead) connection.  Oracle only (the model has no read-for-a-duration instruction: ConnLossTime.v models the
    loop alone)"""
    out = []
    for ti, tr in enumerate(ALL_TR):
        hows = [h for h in loss_events(tr) if h != ["B"]]
        for vi, (name, (op, chunks)) in enumerate(sorted(SAR_SCRIPTS.items())):
            total = sum(len(c) for c in chunks)
            for d in range(total + 1):
                for how in (hows if thorough else [hows[(d + ti + vi) % len(hows)]]):
                    policy = ["nominal", "bytes", "random"][(d + len(out)) % 3]
                    cs = subdivide(rng, chunks, policy)
                    tail = [{"op": "get_prompt"}] + [dict(rng.choice(TAIL_OPS)) for _ in range(rng.choice([0, 1]))]
                    c = {"kind": "channel", "tr": tr, "To": 0.4, "Ti": 0.0, "init": "open",
                         "recvs": [D(x) for x in cut_stream(cs, d)] + [how], "sends": [], "probes": [], "closes": [],
                         "script": [name], "policy": policy, "fault": "read", "drop": {"byte": d, "how": how},
                         "oracle_only": True, "lock": (d + ti) % 2 == 0, "ops": [dict(op)] + tail}
                    if any(o["op"] == "read" for o in tail):
                        c["Ti"] = 0.15
                    out.append(c)
            # a failing write (the input, the return)
            for w in (0, 1):
                how = ["R", rng.choice(MAY_SEND[tr])]
                out.append({"kind": "channel", "tr": tr, "To": 0.4, "Ti": 0.0, "init": "open",
                            "recvs": [D(x) for x in chunks] + [["E"]], "sends": [["ok"]] * w + [how], "probes": [], "closes": [],
                            "script": [name], "policy": "nominal", "fault": "write", "drop": {"write": w + 1, "how": how},
                            "oracle_only": True, "lock": w == 0, "ops": [dict(op), {"op": "get_prompt"}]})
    return out


# ------------------------------------------------------------------------------------------------
# writes inside a read: the Telnet option burst, the peer gone before (all of) the replies
# ------------------------------------------------------------------------------------------------
NEG_NAMES = ["do_sga", "do", "dont", "will", "wont", "will_sga", "do_naws"]
NEG_TR = ("telnet", "asynctelnet")
# what the send of a reply can raise: the socket anything of its family (a timeout aside: the send of three bytes does
# not wait); an asyncio StreamWriter nothing -- it buffers, a lost connection shows at the next read (neg_may_raise)
NEG_SEND = {"telnet": [c for c in OS_FAMILY if c != "TimeoutError"], "asynctelnet": []}
LOGIN_AFTER = [b"\nlogin: ", b"admin\npassword: ", b"\nwelcome\nr1#"]


def neg_burst(names):
    from . import c08_impl
    return c08_impl.neg_burst(names)


def neg_names(rng, k, i=0):
    # the four reply kinds of the handler all occur in the first positions over the sweep
    base = ["do_sga", "will", "do", "wont", "dont"]
    return [base[(i + j) % len(base)] if j < 2 else rng.choice(NEG_NAMES) for j in range(k)]


def neg_loss(rng, tr, k):
    """-> (sends, probes, drop): the k-th reply's send fails / (sync telnet) a liveness probe in the middle of the burst
    answers dead / nothing fails before the next read"""
    kinds = ["reply", "reply", "none"] + (["probe"] if tr == "telnet" else [])
    what = rng.choice(kinds) if NEG_SEND[tr] else "none"
    if what == "reply":
        j = rng.randint(0, k - 1)
        how = ["R", rng.choice(NEG_SEND[tr])]
        return [["ok"]] * j + [how], [], {"reply": j + 1, "how": how}
    if what == "probe":
        j = rng.randint(0, 3 * k + 1)
        pe = rng.choice([["F"]] + [["R", c] for c in MAY_PROBE[tr]])
        return [], [["T"]] * j + [pe], {"probe": j + 1, "how": pe}
    return [], [], {"reply": None}


def neg_chan_cases(rng, thorough):
    """transport level (first operation a bare read(): compared with the model, ConnLossNeg.v) and channel level
    (Telnet login / get_prompt over the burst: oracle only)"""
    out = []
    n = 0
    for tr in NEG_TR:
        ks = [1, 2, 3, 5, 8] if not thorough else [1, 2, 3, 4, 5, 6, 7, 8, 9]
        for k in ks:
            fixed = [([["ok"]] * j + [["R", c]], [], {"reply": j + 1, "how": ["R", c]})
                     for j in sorted({0, 1 % k, k - 1}) for c in (["BrokenPipeError", "ConnectionResetError"] if NEG_SEND[tr] else [])]
            rnd = [neg_loss(rng, tr, k) for _ in range(3 if not thorough else 12)]
            for sends, probes, drop in fixed + rnd:
                names = neg_names(rng, k, n)
                n += 1
                nxt = rng.choice([[["E"]], [["E"]], [["R", rng.choice(MAY_RECV[tr])]], [D(b"\nlogin: "), ["E"]], [["B"]]])
                tail = [dict(rng.choice(TAIL_OPS)) for _ in range(rng.choice([1, 2, 3]))]
                out.append({"kind": "channel", "tr": tr, "To": 0.3, "Ti": rng.choice([0.15, 0.3]), "init": "open",
                            "recvs": [D(neg_burst(names))] + nxt, "sends": sends, "probes": probes, "closes": [],
                            "script": ["neg-read"], "fault": "neg", "neg": names, "neg_model": True, "drop": drop,
                            "ops": [{"op": "read"}] + tail})
        # channel level: the in-channel login / get_prompt reads over the burst
        for i in range(6 if not thorough else 40):
            k = rng.choice([2, 3, 5, 8])
            names = neg_names(rng, k, i)
            sends, probes, drop = neg_loss(rng, tr, k)
            login = i % 3 != 2
            chunks = LOGIN_AFTER if login else [b"\n", b"r1#"]
            total = sum(len(c) for c in chunks)
            d = rng.randint(0, total)
            how = rng.choice([["E"], ["R", rng.choice([c for c in MAY_RECV[tr] if c != "TimeoutError"])]])
            glued = rng.random() < 0.5       # the burst and the first payload arrive in one segment
            rest = cut_stream(chunks, d)
            first = neg_burst(names) + (rest.pop(0) if (glued and rest) else b"")
            recvs = [D(first)] + [D(c) for c in rest] + [how]
            ops = [{"op": "login_telnet"}, {"op": "get_prompt"}] if login else [{"op": "get_prompt"}, {"op": "send_input", "input": "showx"}]
            To = 0.3 if tr == "telnet" else round(0.1 * (len(recvs) + len(sends) + 2) + 0.4, 2)
            out.append({"kind": "channel", "tr": tr, "To": To, "Ti": 0.0, "init": "open", "recvs": recvs, "sends": sends,
                        "probes": probes, "closes": [], "script": ["neg-login" if login else "neg-prompt"], "fault": "neg",
                        "neg": names, "neg_model": False, "drop": dict(drop, byte=d, then=how), "ops": ops})
    return out


def neg_dopen_cases(rng, thorough):
    """Driver.open() with in-channel Telnet authentication over the scripted socket / stream pair"""
    out = []
    for tr in NEG_TR:
        for i in range(8 if not thorough else 40):
            k = rng.choice([2, 3, 5, 8])
            names = neg_names(rng, k, i)
            if i < 2 and NEG_SEND[tr]:
                how = ["R", ["BrokenPipeError", "ConnectionResetError"][i]]
                sends, probes, drop = [["ok"]] * (1 - i) + [how], [], {"reply": 2 - i, "how": how}
            else:
                sends, probes, drop = neg_loss(rng, tr, k)
            d = rng.randint(0, sum(len(c) for c in LOGIN_AFTER))
            how = rng.choice([["E"], ["R", rng.choice([c for c in MAY_RECV[tr] if c != "TimeoutError"])]])
            rest = cut_stream(LOGIN_AFTER, d)
            first = neg_burst(names) + (rest.pop(0) if (rng.random() < 0.5 and rest) else b"")
            recvs = [D(first)] + [D(c) for c in rest] + [how]
            To = 0.4 if tr == "telnet" else round(0.1 * (len(recvs) + len(sends) + 2) + 0.4, 2)
            out.append({"kind": "dopen", "tr": tr, "To": To, "Ti": 0.0, "recvs": recvs, "sends": sends, "probes": probes,
                        "closes": [], "neg": names, "drop": dict(drop, byte=d, then=how),
                        "ops": [{"op": "open"}, {"op": "get_prompt"}, {"op": "close"}, {"op": "get_prompt"}]})
    return out


def neg_tcp_cases(thorough):
    """real loopback: the device sends its option burst (and a login prompt) and hangs up (FIN / RST) before a single
    option is answered; Driver.open() with in-channel authentication"""
    out = []
    for tr in NEG_TR:
        for end in ("neg_fin", "neg_rst"):
            for names, after in ([(["do_sga", "will", "do", "wont", "do_naws"], "\r\nlogin: ")] if not thorough else
                                 [(["do_sga", "will", "do", "wont", "do_naws"], "\r\nlogin: "), (["will", "do"], ""),
                                  (["do", "dont", "will_sga", "wont", "do_sga", "do_naws", "will", "do"], "login: ")]):
                out.append({"kind": "tcp", "tr": tr, "end": end, "neg": names, "after": after, "auth": True, "preopen": True,
                            "To": 0.5, "Ti": 0.5, "fails_open": True,
                            "ops": [{"op": "open"}, {"op": "get_prompt"}, {"op": "close"}, {"op": "get_prompt"}]})
    return out


def neg_case_term(case, obs):
    assert case["recvs"][0] == D(neg_burst(case["neg"])) and case["ops"][0] == {"op": "read"}
    codes = coq_list(["((%d, %d), (%d, %d))" % (a + b) for a, b in (obs_code(o) for o in obs)])
    return "(%s, %d, %d, %d%%nat, %s, mkEnv %s %s %s, %s, %s)" % (
        COQ_TR[case["tr"]], ms(case["To"]), ms(case.get("Ti", 0.0)), len(case["neg"]),
        coq_list([coq_op(o) for o in case["ops"][1:]]),
        coq_list([coq_wev(e) for e in case.get("sends", [])]), coq_list([coq_pev(e) for e in case.get("probes", [])]),
        coq_list([coq_cev(e) for e in case.get("closes", [])]), coq_list([coq_rev(e) for e in case["recvs"][1:]]), codes)


NEG_HEADER = """From Verif Require Import Bytes ConnLoss ConnLossNeg.
From Gen Require Import Gen_ConnLoss.
Definition chk (x : transport * N * N * nat * list op * env * list rev * list (N * N * (N * N))) : bool :=
  let '(tr, To, Ti, k, ops, e, rs, want) := x in
  codes_eqb (obs_codes (run_neg_ops gen_cfg (gen_ncf tr) tr To Ti k ops st_open e rs)) want.
"""


# ------------------------------------------------------------------------------------------------
# oracle on the implementation's observations (independent of the model)
# ------------------------------------------------------------------------------------------------
CHAN_OPS = ("get_prompt", "send_input", "interact", "login_telnet", "login_ssh", "send_return", "send_and_read")
READING_OPS = ("get_prompt", "send_input", "interact", "login_telnet", "login_ssh", "send_and_read")


def _raw_or_hang(out):
    if out[0] == "exc" and not out[2]:
        return "raw exception %s escaped" % out[1]
    if out[0] == "hang":
        return "hangs (no timeout fired)"
    if out[0] == "starved":
        return "keeps reading a device that has nothing more to say"
    return None


def chan_oracle(case, res):
    """-> list of failure strings (empty: the property holds on this scenario)"""
    if res.get("hang"):
        return ["the scenario never returned (a loop that cannot be interrupted): hang"]
    if "ops" not in res:
        return []
    fails = []
    tr = case["tr"]
    lost = rlost = False
    attached = case.get("init", "open") == "open"
    for op, o in zip(case["ops"], res["ops"]):
        k = op["op"]
        out = o["out"]
        limit = (case["Ti"] if k == "read" else case["To"]) + SLACK
        bare_untimed = (k == "read" and not case.get("Ti")) or not case["To"]
        m = _raw_or_hang(out)
        if m and not (out[0] == "hang" and bare_untimed and not case.get("must_not_hang")):
            fails.append("%s: %s" % (k, m))
        if not bare_untimed and o["elapsed"] > limit:
            fails.append("%s: took %.2f s, limit %.2f s" % (k, o["elapsed"], limit))
        al = o["alive"]
        if not isinstance(al, bool):
            if not (al[0] == "exc" and al[2]):
                fails.append("%s: isalive() afterwards %s" % (k, al))
        visible = o["rlost"] or (o.get("lost2", o["lost"]) and tr != "asynctelnet")
        if visible and al is True:
            fails.append("%s: isalive() is True after the connection was lost" % k)
        if k in CHAN_OPS and not lost and o["lost"] and out[0] != "exc" and k != "send_return":
            fails.append("%s: the connection was lost during the operation, yet it returned normally" % k)
        if k in READING_OPS and rlost and attached and out[0] != "exc":
            fails.append("%s: returned normally on a connection whose read side is gone" % k)
        if not attached and k in CHAN_OPS + ("read", "write"):
            if not (out[0] == "exc" and out[1] == "ScrapliConnectionNotOpened"):
                fails.append("%s on a closed/never-opened transport: %s" % (k, out))
        if not attached and al is not False:
            fails.append("%s: isalive() %s on a closed/never-opened transport" % (k, al))
        lost, rlost, attached = o.get("lost2", o["lost"]), o["rlost"], o["attached"]
    return fails


DRIVER_IO = ("open", "get_prompt", "send_command", "send_commands", "send_configs", "send_config", "send_interactive",
             "acquire_priv", "send_and_read")


def driver_oracle(case, res):
    if res.get("hang"):
        return ["the scenario never returned (a loop that cannot be interrupted): hang"]
    if "ops" not in res:
        return []
    fails = []
    tr = case["tr"]
    dropped = False
    attached = False
    for op, o in zip(case["ops"], res["ops"]):
        k = op["op"]
        out = o["out"]
        m = _raw_or_hang(out)
        if m:
            fails.append("%s: %s" % (k, m))
        # a driver operation is a handful of channel operations, each under timeout_ops
        nchan = {"open": 8, "close": 3, "send_configs": 4 + 2 * len(op.get("cfgs", [])), "send_config": 6,
                 "send_commands": 2 + len(op.get("cmds", [])), "send_interactive": 3}.get(k, 3)
        if case.get("To") and o["elapsed"] > nchan * case["To"] + SLACK:
            fails.append("%s: took %.2f s with timeout_ops %.2f s" % (k, o["elapsed"], case["To"]))
        al = o["alive"]
        if not isinstance(al, bool) and not (al[0] == "exc" and al[2]):
            fails.append("%s: isalive() afterwards %s" % (k, al))
        silent = (case.get("drop") or {}).get("how") == ["B"]     # a silent peer is not a lost connection
        if tr not in ("sim", "asim") and o["dropped"] and al is True and not silent \
                and not (tr == "asynctelnet" and case.get("drop", {}).get("write")):
            fails.append("%s: isalive() is True after the session dropped" % k)
        if k in DRIVER_IO and k != "open" and dropped and out[0] != "exc":
            fails.append("%s: returned normally although the session had already dropped" % k)
        if k in DRIVER_IO and not dropped and o["dropped"] and out[0] != "exc":
            fails.append("%s: the session dropped during the operation, yet it returned normally" % k)
        if k in DRIVER_IO and k != "open" and not attached and not (out[0] == "exc" and out[1] == "ScrapliConnectionNotOpened"):
            fails.append("%s on a closed/never-opened connection: %s" % (k, out))
        if k == "close" and al is not False:
            fails.append("isalive() %s after close()" % (al,))
        dropped, attached = o["dropped"], o["attached"]
    return fails


def dopen_oracle(case, res):
    """Driver.open() (in-channel Telnet authentication) and what follows, over the scripted socket / streams"""
    if res.get("hang"):
        return ["the scenario never returned (a loop that cannot be interrupted): hang"]
    if "ops" not in res:
        return []
    fails = []
    tr = case["tr"]
    lost = rlost = False
    attached = False
    for op, o in zip(case["ops"], res["ops"]):
        k, out = op["op"], o["out"]
        m = _raw_or_hang(out)
        if m:
            fails.append("%s: %s" % (k, m))
        if case.get("To") and o["elapsed"] > {"open": 3, "close": 1}.get(k, 2) * case["To"] + SLACK:
            fails.append("%s: took %.2f s with timeout_ops %.2f s" % (k, o["elapsed"], case["To"]))
        al = o["alive"]
        if not isinstance(al, bool) and not (al[0] == "exc" and al[2]):
            fails.append("%s: isalive() afterwards %s" % (k, al))
        if (o["rlost"] or (o["lost"] and tr != "asynctelnet")) and al is True:
            fails.append("%s: isalive() is True after the connection was lost" % k)
        if k in ("open", "get_prompt", "send_command") and not lost and o["lost"] and out[0] != "exc":
            fails.append("%s: the connection was lost during the operation, yet it returned normally" % k)
        if k in ("get_prompt", "send_command") and rlost and attached and out[0] != "exc":
            fails.append("%s: returned normally on a connection whose read side is gone" % k)
        if k in ("get_prompt", "send_command") and not attached and not (out[0] == "exc" and out[1] == "ScrapliConnectionNotOpened"):
            fails.append("%s on a closed/never-opened connection: %s" % (k, out))
        if k == "close" and al is not False:
            fails.append("isalive() %s after close()" % (al,))
        lost, rlost, attached = o["lost"], o["rlost"], o["attached"]
    return fails


def runtime_oracle(case, res):
    if res.get("hang"):
        return ["the scenario never returned: hang"]
    if "ops" not in res:
        return []
    fails = []
    gone = False
    closed = False
    for op, o in zip(case["ops"], res["ops"]):
        k, out = op["op"], o["out"]
        m = _raw_or_hang(out)
        if m:
            fails.append("%s: %s" % (k, m))
        limit = case.get("To", 2.0) * (4 if k == "open" else 1) + SLACK + (0.5 if k == "close" else 0)
        if o["elapsed"] > limit:
            fails.append("%s: took %.2f s, limit %.2f s" % (k, o["elapsed"], limit))
        if o.get("alive_elapsed", 0) > SLACK:
            fails.append("%s: isalive() took %.2f s" % (k, o["alive_elapsed"]))
        d = op.get("drops")
        drops = d is True or bool(k == "open" and case.get("fails_open")) or (d == "maybe" and out[0] == "exc")
        if drops and out[0] != "exc":
            fails.append("%s: the peer ended the session during it, yet it returned normally" % k)
        if gone and not closed and k in ("send_command", "get_prompt") and out[0] != "exc":
            fails.append("%s: returned normally on a session the peer has ended" % k)
        if closed and k in ("send_command", "get_prompt", "write") and not (out[0] == "exc" and out[1] == "ScrapliConnectionNotOpened"):
            fails.append("%s after close(): %s" % (k, out))
        gone = gone or drops
        if k == "close":
            closed = True
        al = o["alive"]
        if not isinstance(al, bool) and not (al[0] == "exc" and al[2]):
            fails.append("%s: isalive() afterwards %s" % (k, al))
        if (gone or closed) and al is True and not case.get("alive_may_linger"):
            fails.append("%s: isalive() is True after the peer ended the session" % k)
    return fails


def open_oracle(case, res):
    if res.get("hang"):
        return ["open() never returned"]
    if "out" not in res:
        return []
    out = res["out"]
    fails = []
    m = _raw_or_hang(out)
    if m:
        fails.append("open: %s" % m)
    if res["elapsed"] > case.get("Ti", 0.3) + SLACK + 5:
        fails.append("open: took %.2f s" % res["elapsed"])
    failing = any(v[0] == "R" for v in case["steps"].values())
    if failing and out[0] == "ok" and not case.get("tolerated"):
        fails.append("open: a library step failed (%s), yet open() returned normally" % case["steps"])
    return fails


ORACLES = {"channel": chan_oracle, "driver": driver_oracle, "dopen": dopen_oracle, "open": open_oracle, "pty": runtime_oracle,
           "tcp": runtime_oracle, "ssh": runtime_oracle}


# ------------------------------------------------------------------------------------------------
# suite: open() of each transport, every library step failing with every documented exception
# ------------------------------------------------------------------------------------------------
OPEN_STEPS = {
    "telnet": [("getaddrinfo", ["gaierror"]), ("connect", ["gaierror"] + OS_FAMILY)],
    "asynctelnet": [("open_connection", ["gaierror"] + OS_FAMILY)],
    "system": [("spawn", [])],
    "paramiko": [("getaddrinfo", ["gaierror"]), ("connect", ["gaierror"] + OS_FAMILY),
                 ("start_client", ["Exception", "EOFError", "SSHException"] + OS_FAMILY),
                 ("auth_password", ["AuthenticationException", "SSHException", "EOFError"] + OS_FAMILY),
                 ("open_session", ["SSHException", "ChannelException", "EOFError"] + OS_FAMILY),
                 ("get_pty", ["SSHException", "ChannelException", "EOFError"] + OS_FAMILY),
                 ("invoke_shell", ["SSHException", "ChannelException", "EOFError"] + OS_FAMILY)],
    "asyncssh": [("connect", ["gaierror", "DisconnectError", "ConnectionLost", "PermissionDenied", "HostKeyNotVerifiable",
                              "KeyExchangeFailed", "ProtocolError", "ProtocolNotSupported", "ServiceNotAvailable"] + OS_FAMILY),
                 ("open_session", ["ChannelOpenError", "DisconnectError", "ConnectionLost", "ProtocolError"] + OS_FAMILY)],
}


def open_cases():
    out = []
    for tr, steps in OPEN_STEPS.items():
        out.append({"kind": "open", "tr": tr, "steps": {}, "strict": False})
        for i, (name, classes) in enumerate(steps):
            for c in classes:
                for strict in ((False, True) if tr == "asyncssh" else (False,)):
                    out.append({"kind": "open", "tr": tr, "steps": {name: ["R", c]}, "strict": strict, "step_ix": i})
    return out


def open_case_term(case, res):
    steps = OPEN_STEPS[case["tr"]]
    evs = []
    for name, _ in steps:
        v = case["steps"].get(name, ["ok"])
        evs.append("COk" if v[0] == "ok" else "CRaise %s" % coq_cls(v[1]))
    out = res["out"]
    code = 0 if out[0] == "ok" else CLS_IX.get(CLS_OF.get(out[1], ""), 99)
    return "(%s, %s, %s, %d)" % (common.coq_bool(case.get("strict", False)), COQ_TR[case["tr"]], coq_list(evs), code)


OPEN_HEADER = """From Verif Require Import Bytes ConnLoss.
From Gen Require Import Gen_ConnLoss.
Definition chk (x : bool * transport * list cev * N) : bool :=
  let '(strict, tr, evs, want) := x in
  match t_open (if strict then gen_cfg_strict else gen_cfg) tr evs with
  | None => want =? 0
  | Some y => cls_ix y =? want
  end.
"""


# ------------------------------------------------------------------------------------------------
# suite: whole drivers, the session dropping at every byte offset of the device's output / at every write
# ------------------------------------------------------------------------------------------------
DRIVER_OPS = [{"op": "open"}, {"op": "get_prompt"}, {"op": "send_command", "cmd": "show version"},
              {"op": "send_configs", "cfgs": ["interface lo0", "description x"]},
              {"op": "send_interactive", "events": [["clear logging", "[confirm]"], ["", "r1#"]]},
              {"op": "send_command", "cmd": "show clock"}, {"op": "close"}, {"op": "send_command", "cmd": "show version"}]
DRIVER_OUTPUTS = {"show version": "Cisco IOS XE\nuptime 1 week", "clear logging": "Clear logging buffer [confirm]",
                  "show clock": "12:00"}
LOSS_SEND = [c for c in OS_FAMILY if c != "TimeoutError"]
DRIVER_TR = ("sim", "asim", "telnet", "system", "paramiko", "asynctelnet", "asyncssh")


def driver_case(tr, drop=None, chunk=("whole",), To=0.5, platform="cisco_iosxe", ops=None):
    c = {"kind": "driver", "tr": tr, "platform": platform, "To": To, "Ti": 0.0, "ops": [dict(o) for o in (ops or DRIVER_OPS)],
         "outputs": dict(DRIVER_OUTPUTS), "chunk": list(chunk)}
    if drop:
        c["drop"] = drop
    return c


def driver_cases(rng, thorough, stream_len, nwrites):
    out = []
    hows = {"sim": [["E"]], "asim": [["E"]]}
    for tr in DRIVER_TR:
        if tr not in hows:
            hows[tr] = [["E"]] + [["R", c] for c in MAY_RECV[tr] if c not in ("Exception", "TimeoutError")]
    offsets = list(range(0, stream_len + 1))
    for tr in DRIVER_TR:
        if thorough:
            pick = offsets
        else:
            pick = sorted(set(rng.sample(offsets, min(len(offsets), 22)) + [0, 1, stream_len - 1, stream_len]))
        for d in pick:
            hs = hows[tr] if (thorough and d % 7 == 0) else [rng.choice(hows[tr])]
            for how in hs:
                chunk = rng.choice([("whole",), ("whole",), ("bytes", 3), ("random", rng.randint(1, 999), 9)])
                after_w = rng.choice([["ok"], ["ok"], ["R", rng.choice(LOSS_SEND)]]) if tr not in ("sim", "asim") else ["ok"]
                out.append(driver_case(tr, {"byte": d, "how": how, "after_w": after_w}, chunk))
                # channel_lock=True: the operations after the drop run on the same object and need the lock the
                # interrupted one held (a leaked lock = a hang, seen by the watchdog)
                out[-1]["lock"] = rng.random() < 0.5
        wpick = range(1, nwrites + 1) if thorough else sorted(set(rng.sample(range(1, nwrites + 1), 8) + [1, nwrites]))
        for w in wpick:
            how = ["R", rng.choice(LOSS_SEND)] if tr not in ("sim", "asim") else ["E"]
            out.append(driver_case(tr, {"write": w, "how": how, "after_w": how}))
            out[-1]["lock"] = w % 2 == 0
        # the device goes silent instead of dropping: the timeout is the backstop
        for d in ([5, 120, 250] if not thorough else [5, 60, 120, 180, 250, 300]):
            if tr not in ("sim", "asim"):
                out.append(driver_case(tr, {"byte": min(d, stream_len), "how": ["B"]}, To=0.3))
    return out


# (Async)NetworkDriver.send_and_read -- until an expected output, until the prompt -- and operations after it
SAR_OPS = [{"op": "open"}, {"op": "send_and_read", "cmd": "show version", "expect": ["1 week"], "dur": SAR_DUR},
           {"op": "send_and_read", "cmd": "show clock", "dur": SAR_DUR}, {"op": "get_prompt"}, {"op": "close"},
           {"op": "send_and_read", "cmd": "show clock", "dur": SAR_DUR}]


def sar_driver_cases(rng, thorough, spans):
    """spans: per transport (first, last) byte offset of the device's output stream that belongs to the two
    send_and_read exchanges of SAR_OPS (from the run without a fault): a drop at EVERY one of them (quick: every offset
    on at least three of the seven transports), and at each of the exchanges' writes; channel_lock on every other one"""
    out = []
    for ti, tr in enumerate(DRIVER_TR):
        if tr not in spans:
            continue
        hows = [["E"]] if tr in ("sim", "asim") else \
            [["E"]] + [["R", c] for c in MAY_RECV[tr] if c not in ("Exception", "TimeoutError")]
        lo, hi = spans[tr]["bytes"]
        for d in range(lo, hi + 1):
            if not thorough and (d + ti) % 2:
                continue
            chunk = rng.choice([("whole",), ("whole",), ("bytes", 3), ("random", rng.randint(1, 999), 9)])
            after_w = rng.choice([["ok"], ["ok"], ["R", rng.choice(LOSS_SEND)]]) if tr not in ("sim", "asim") else ["ok"]
            c = driver_case(tr, {"byte": d, "how": rng.choice(hows), "after_w": after_w}, chunk, ops=SAR_OPS)
            c["lock"] = (d // 2 + ti) % 2 == 0
            out.append(c)
        wlo, whi = spans[tr]["writes"]
        for w in range(wlo, whi + 1):
            how = ["R", rng.choice(LOSS_SEND)] if tr not in ("sim", "asim") else ["E"]
            c = driver_case(tr, {"write": w, "how": how, "after_w": how}, ops=SAR_OPS)
            c["lock"] = w % 2 == 0
            out.append(c)
    return out


# ------------------------------------------------------------------------------------------------
# suite: the real thing -- pty child, loopback TCP, loopback SSH
# ------------------------------------------------------------------------------------------------
RT_OPS = [{"op": "open"}, {"op": "send_command", "cmd": "show x"}, {"op": "send_command", "cmd": "dropmid now", "drops": True},
          {"op": "send_command", "cmd": "show y"}, {"op": "get_prompt"}, {"op": "write"}, {"op": "close"},
          {"op": "send_command", "cmd": "show z"}]
RT_OPS_NOW = [{"op": "open"}, {"op": "send_command", "cmd": "dropnow", "drops": True}, {"op": "get_prompt"}, {"op": "close"},
              {"op": "get_prompt"}]
RT_OPS_OPEN = [{"op": "open"}, {"op": "get_prompt"}, {"op": "close"}]


def runtime_cases(thorough):
    out = []
    for end in (("exit", "kill") if not thorough else ("exit", "kill", "exit3")):
        for ops in ((RT_OPS,) if not thorough else (RT_OPS, RT_OPS_NOW)):
            out.append({"kind": "pty", "end": end, "ops": [dict(o) for o in ops], "To": 1.0, "Ti": 1.0})
    out.append({"kind": "pty", "end": "at_once", "ops": [dict(o) for o in RT_OPS_OPEN], "To": 1.0, "Ti": 1.0, "fails_open": True})
    if thorough:
        out.append({"kind": "pty", "end": "exit", "sigchld_ignored": True, "ops": [dict(o) for o in RT_OPS], "To": 1.0, "Ti": 1.0})
    for tr in ("telnet", "asynctelnet"):
        for end in ("fin", "rst", "fin_keep"):
            for ops in ((RT_OPS,) if not thorough else (RT_OPS, RT_OPS_NOW)):
                out.append({"kind": "tcp", "tr": tr, "end": end, "ops": [dict(o) for o in ops], "To": 1.0, "Ti": 1.0})
        if thorough:
            for end in ("at_once", "rst_at_once"):
                # the connection is made and then lost before a byte arrives: open() itself succeeds (auth_bypass)
                out.append({"kind": "tcp", "tr": tr, "end": end, "To": 1.0, "Ti": 1.0,
                            "ops": [{"op": "open"}, {"op": "get_prompt", "drops": True}, {"op": "get_prompt"}, {"op": "close"}]})
    for tr in (("paramiko", "asyncssh") if not thorough else ("paramiko", "asyncssh", "system")):
        for end in (("exit", "abort") if not thorough else ("exit", "abort", "disconnect", "close")):
            out.append({"kind": "ssh", "tr": tr, "end": end, "ops": [dict(o) for o in RT_OPS], "To": 1.0, "Ti": 1.0})
        stages = ("session", "refuse_pty", "start") if not thorough else (
            "begin_auth", "password", "session", "pty", "shell", "refuse_session", "refuse_pty", "refuse_shell", "start")
        for stage in stages:
            if tr == "system" and stage == "refuse_pty":
                continue      # the ssh binary carries on without a pty
            if stage == "start":      # the shell ends at once: open() may be through before it notices
                out.append({"kind": "ssh", "tr": tr, "end": "exit", "stage": stage, "To": 1.0, "Ti": 1.0,
                            "ops": [{"op": "open", "drops": "maybe"}, {"op": "get_prompt", "drops": True}, {"op": "close"}]})
                continue
            out.append({"kind": "ssh", "tr": tr, "end": "exit", "stage": stage, "ops": [dict(o) for o in RT_OPS_OPEN],
                        "To": 1.0, "Ti": 1.0, "fails_open": True,
                        # a refused request leaves the ssh connection itself up
                        "alive_may_linger": stage.startswith("refuse")})
    return out


# ------------------------------------------------------------------------------------------------
# fixed findings (regression scenarios; they suppress nothing)
# ------------------------------------------------------------------------------------------------
def finding_cases():
    d = os.path.join(common.VERIF, "findings")
    out = []
    for f in sorted(os.listdir(d)):
        if f.startswith("C08-") and f.endswith(".json"):
            r = json.load(open(os.path.join(d, f)))
            if r.get("case"):
                out.append((f[:-5], r["case"]))
    return out


# ------------------------------------------------------------------------------------------------
# run
# ------------------------------------------------------------------------------------------------
def _judge(cases, results):
    """oracle failures per case index"""
    bad = {}
    for i, (c, r) in enumerate(zip(cases, results)):
        if r.get("harness_error"):
            bad[i] = ["harness error: " + r["harness_error"]]
            continue
        fails = ORACLES[c["kind"]](c, r)
        if fails:
            bad[i] = fails
    return bad


def _confirm(rep, cases, idx, tag, check, results=None):
    """a failure counts when it reproduces on further runs (timing under load): twice more, or -- a scenario that
    never returned costs its whole allowance each time -- once more for the first three of those;
    check(case, result) -> failures"""
    confirmed = {}
    idx = list(idx)
    if not idx:
        return confirmed

    def chk(c, r):      # the machinery failing is a failure too (fail closed)
        if r.get("harness_error"):
            return ["harness error: " + r["harness_error"]]
        return check(c, r)
    hung = [i for i in idx if results is not None and results[i].get("hang")][:3]
    rest = [i for i in idx if i not in hung and not (results is not None and results[i].get("hang"))][:6]
    if hung:
        r1 = run_cases([cases[i] for i in hung], rep.workdir, "%s_reh" % tag, jobs=3)
        for j, i in enumerate(hung):
            f1 = chk(cases[i], r1[j])
            if f1:
                confirmed[i] = f1
    if rest:
        again = [cases[i] for i in rest]
        runs = [run_cases(again, rep.workdir, "%s_re%d" % (tag, k), jobs=4) for k in (1, 2)]
        for j, i in enumerate(rest):
            f1, f2 = chk(cases[i], runs[0][j]), chk(cases[i], runs[1][j])
            if f1 and f2:
                confirmed[i] = f2
    return confirmed


def run(rep):
    from gen import gen_connloss
    rng = rep.rng
    thorough = rep.tier == "thorough"
    t_start = time.time()
    # 1. regenerate from the source, compile, proofs
    info = {}
    try:
        _, info = gen_connloss.generate(rep.workdir)
        rc, out, _ = common.coqc(os.path.join(rep.workdir, "Gen_ConnLoss.v"), rep.workdir)
        if rc:
            rep.broken.append("Gen_ConnLoss.v")
            rep.notes.append(out[-2000:])
    except Exception as e:  # translator aborted: broken tie
        rep.broken.append("gen_connloss: %s" % e)
    ok, _ = rep.build_static()
    rep.add_static_obligations("props/C08.v", ok)
    if not ok:
        rep.broken.append("static-build")
    gen_ok = ok and not rep.broken
    if gen_ok:
        rep.compile_props("props/C08.v")
    model_ok = gen_ok       # the model can be evaluated even when a theorem over the generated config fails
    dist = {"channel": {}, "driver": {}, "open": {}, "runtime": {}}
    violations = []         # (what, replay dict)
    phases = {"gen+proofs": round(time.time() - t_start, 1)}
    t_ph = [time.time()]

    def phase(name):
        phases[name] = round(time.time() - t_ph[0], 1)
        t_ph[0] = time.time()

    def report(suite, case, res, fails, extra=None):
        violations.append(("%s: %s" % (suite, "; ".join(fails[:3])),
                           {"suite": suite, "case": case, "observed": res, "failures": fails,
                            "rerun": "VERIF_REPO=%s ./check C08 --replay <this file>" % common.REPO, **(extra or {})}))

    # 2. fixed findings first (regression), then the channel/transport suite: model correspondence + oracle
    fcases = finding_cases()
    chan = [c for _, c in fcases if c["kind"] == "channel"] + chan_corpus()
    n_rand = 12000 if thorough else 900
    for tr in ALL_TR:           # every transport x every script x a fault at a random place
        for name in FOR_TR[tr]:
            for fault in ("read", "write"):
                chan.append(gen_chan_case(rng, tr=tr, script=name, fault=fault))
    chan += [gen_chan_case(rng) for _ in range(n_rand)]
    chan += neg_chan_cases(rng, thorough)      # writes inside a read: the option burst, the peer gone before the replies
    chan += sar_chan_cases(rng, thorough)      # send_input_and_read: a drop at every byte offset of the exchange
    res = run_cases(chan, rep.workdir, "chan")
    for c, r in zip(chan, res):
        key = (c["tr"], tuple(c.get("script", [])), c.get("fault"), json.dumps(c.get("drop")), json.dumps(c["recvs"])[:200])
        lossy = any(o.get("lost") for o in r.get("ops", []))
        rep.case(key, nontrivial=lossy or c.get("init") != "open")
        dk = "%s/%s" % (c["tr"], c.get("fault"))
        dist["channel"][dk] = dist["channel"].get(dk, 0) + 1
        hk = json.dumps((c.get("drop") or {}).get("how"))
        dist.setdefault("channel_loss_kind", {})[hk] = dist.setdefault("channel_loss_kind", {}).get(hk, 0) + 1
        pk = c.get("policy", "fixed")
        dist.setdefault("channel_chunking", {})[pk] = dist.setdefault("channel_chunking", {}).get(pk, 0) + 1
        if not c.get("To"):
            dist.setdefault("channel_no_timeout", {"n": 0})["n"] += 1
    obad = _judge(chan, res)
    obad = _confirm(rep, chan, sorted(obad), "chan_o", lambda c, r: ORACLES["channel"](c, r), res)
    for i in sorted(obad)[:5]:
        report("conn-loss channel", chan[i], res[i], obad[i])
    mbad = None
    if model_ok:
        okix = [i for i, r in enumerate(res) if "ops" in r and not chan[i].get("neg") and not chan[i].get("oracle_only")]
        terms = [chan_case_term(chan[i], res[i]["ops"]) for i in okix]
        mb, log = common.eval_cases(rep.workdir, "cases_c08_chan", CHAN_HEADER, terms, "chk")
        # the reads over an option burst: ConnLossNeg.v
        nix = [i for i, r in enumerate(res) if "ops" in r and chan[i].get("neg_model")]
        nb, nlog = common.eval_cases(rep.workdir, "cases_c08_neg", NEG_HEADER, [neg_case_term(chan[i], res[i]["ops"]) for i in nix], "chk")
        if nb is None:
            rep.broken.append("correspondence conn-loss negotiation (model evaluation failed)")
            rep.notes.append(nlog)
        else:
            def neg_differs(c, r):
                if "ops" not in r:
                    return ["no result"]
                b2, _ = common.eval_cases(rep.workdir, "cases_c08_nre", NEG_HEADER, [neg_case_term(c, r["ops"])], "chk")
                return ["model differs"] if b2 else []
            nbad = _confirm(rep, chan, [nix[b] for b in nb], "chan_n", neg_differs) if nb else {}
            dist["channel"]["neg_model_cases"] = len(nix)
            dist["channel"]["neg_model_disagreements"] = len(nbad)
            for i in sorted(nbad)[:5]:
                if i in obad:
                    continue
                rep.broken.append("correspondence conn-loss: model and implementation disagree on a read over an option burst")
                rep.notes.append("disagreement: %s -> %s" % (json.dumps(chan[i])[:1500], json.dumps([[o["out"], o["alive"]] for o in res[i]["ops"]])))
        if mb is None:
            rep.broken.append("correspondence conn-loss (model evaluation failed)")
            rep.notes.append(log)
        else:
            cand = [okix[b] for b in mb]

            def still_differs(c, r):
                if "ops" not in r:
                    return ["no result"]
                b2, _ = common.eval_cases(rep.workdir, "cases_c08_re", CHAN_HEADER, [chan_case_term(c, r["ops"])], "chk")
                return ["model differs"] if b2 else []
            mbad = _confirm(rep, chan, cand, "chan_m", still_differs) if cand else {}
            for i in sorted(mbad)[:5]:
                if i in obad:
                    continue
                rep.broken.append("correspondence conn-loss: model and implementation disagree on a channel scenario")
                rep.notes.append("disagreement: %s -> %s" % (json.dumps(chan[i])[:1500], json.dumps([[o["out"], o["alive"]] for o in res[i]["ops"]])))
    if chan:
        i0 = next((i for i, c in enumerate(chan) if c.get("fault") == "read" and "ops" in res[i]), 0)
        rep.sample({"tr": chan[i0]["tr"], "ops": [o["op"] for o in chan[i0]["ops"]], "drop": chan[i0].get("drop"),
                    "observed": [[o["out"][:2], o["alive"]] for o in res[i0].get("ops", [])]})

    phase("channel")
    # 3. open(): every library step x every documented exception
    opn = [c for _, c in fcases if c["kind"] == "open"] + open_cases()
    ores = run_cases(opn, rep.workdir, "open", jobs=6)
    for c, r in zip(opn, ores):
        rep.case(("open", c["tr"], json.dumps(c["steps"]), c.get("strict")), nontrivial=bool(c["steps"]))
        dist["open"][c["tr"]] = dist["open"].get(c["tr"], 0) + 1
    ob = _judge(opn, ores)
    ob = _confirm(rep, opn, sorted(ob), "open_o", lambda c, r: ORACLES["open"](c, r), ores)
    for i in sorted(ob)[:5]:
        report("conn-loss open", opn[i], ores[i], ob[i])
    if model_ok:
        okix = [i for i, r in enumerate(ores) if "out" in r]
        terms = [open_case_term(opn[i], ores[i]) for i in okix]
        mb, log = common.eval_cases(rep.workdir, "cases_c08_open", OPEN_HEADER, terms, "chk")
        if mb is None:
            rep.broken.append("correspondence conn-loss open (model evaluation failed)")
            rep.notes.append(log)
        else:
            for b in mb[:5]:
                i = okix[b]
                if i in ob:
                    continue
                rep.broken.append("correspondence conn-loss open: model and implementation disagree")
                rep.notes.append("disagreement: %s -> %s" % (json.dumps(opn[i]), json.dumps(ores[i])))
            dist["open"]["model_disagreements"] = len(mb)

    phase("open")
    # 4. whole drivers: a drop at every byte offset of the device's output / at every write
    nom_cases = [driver_case(tr) for tr in DRIVER_TR] + [driver_case(tr, ops=SAR_OPS) for tr in DRIVER_TR] \
        + [dict(driver_case(tr, ops=SAR_OPS), lock=True) for tr in DRIVER_TR]
    nominal = run_cases(nom_cases, rep.workdir, "drv0", jobs=11)
    nb = _judge(nom_cases, nominal)
    for i, (c, r) in enumerate(zip(nom_cases, nominal)):
        # without a fault every operation before close() succeeds
        if i not in nb and "ops" in r:
            bad = [o["op"] for op, o in zip(c["ops"], r["ops"]) if o["out"][0] != "ok" and op is not c["ops"][-1]]
            if bad:
                nb[i] = ["without a fault: %s did not succeed: %s" % (bad, [o["out"] for o in r["ops"]])]
    for i in sorted(nb)[:3]:
        report("conn-loss driver (no fault)", nom_cases[i], nominal[i], nb[i])
    spans = {}
    for tr, r in zip(DRIVER_TR, nominal[len(DRIVER_TR):2 * len(DRIVER_TR)]):
        if "ops" in r and len(r["ops"]) == len(SAR_OPS) and all("delivered" in o for o in r["ops"]):
            spans[tr] = {"bytes": (r["ops"][0]["delivered"], r["ops"][2]["delivered"]),
                         "writes": (r["ops"][0]["nwrites"] + 1, r["ops"][2]["nwrites"])}
    if len(spans) != len(DRIVER_TR) or any(v["bytes"][1] - v["bytes"][0] < 40 or v["writes"][1] - v["writes"][0] != 3
                                           for v in spans.values()):
        rep.broken.append("driver suite: the nominal send_and_read session did not run as expected: %s" % spans)
    nominal, nominal_all = nominal[:len(DRIVER_TR)], nominal
    lens = [r.get("stream_len", 0) for r in nominal if "ops" in r]
    nws = [r.get("nwrites", 0) for r in nominal if "ops" in r]
    if not lens or min(lens) < 50:
        rep.broken.append("driver suite: the nominal session did not run")
        drv, dres = [], []
    else:
        drv = [c for _, c in fcases if c["kind"] in ("driver", "dopen")] + driver_cases(rng, thorough, min(lens), min(nws)) \
            + neg_dopen_cases(rng, thorough) + sar_driver_cases(rng, thorough, spans)
        dres = run_cases(drv, rep.workdir, "drv")
        for c, r in zip(drv, dres):
            rep.case(("driver", c["kind"], c["tr"], json.dumps(c.get("drop")), json.dumps(c.get("chunk")), json.dumps(c.get("neg")),
                      len(c["ops"]), c.get("lock")),
                     nontrivial=any(o.get("dropped") or o.get("lost") for o in r.get("ops", [])))
            dk = "%s/%s%s" % (c["tr"], "send_and_read-" if c["ops"] == SAR_OPS else "",
                              "neg-open" if c["kind"] == "dopen" else "byte" if "byte" in (c.get("drop") or {}) else "write")
            dist["driver"][dk] = dist["driver"].get(dk, 0) + 1
        db = _judge(drv, dres)
        db = _confirm(rep, drv, sorted(db), "drv_o", lambda c, r: ORACLES[c["kind"]](c, r), dres)
        for i in sorted(db)[:5]:
            report("conn-loss driver", drv[i], dres[i], db[i])
        dist["driver"]["stream_len"] = min(lens)
        dist["driver"]["writes"] = min(nws)
        j0 = next((i for i, c in enumerate(drv) if (c.get("drop") or {}).get("byte", 0) > 100 and "ops" in dres[i]), None)
        if j0 is not None:
            rep.sample({"driver": drv[j0]["tr"], "drop": drv[j0]["drop"],
                        "observed": [[o["op"], o["out"][:2], o["alive"]] for o in dres[j0]["ops"]]})

    phase("driver")
    # 5. the real thing: pty child, loopback sockets, loopback ssh
    rt = [c for _, c in fcases if c["kind"] in ("pty", "tcp", "ssh")] + runtime_cases(thorough) + neg_tcp_cases(thorough)
    rres = run_cases(rt, rep.workdir, "rt", jobs=6)
    for c, r in zip(rt, rres):
        rep.case(("rt", c["kind"], c.get("tr"), c.get("end"), c.get("stage"), len(c["ops"]), c.get("sigchld_ignored"),
                  json.dumps(c.get("neg"))))
        dk = "%s/%s" % (c["kind"], c.get("tr", "system"))
        dist["runtime"][dk] = dist["runtime"].get(dk, 0) + 1
    rb = _judge(rt, rres)
    rb = _confirm(rep, rt, sorted(rb), "rt_o", lambda c, r: ORACLES[c["kind"]](c, r), rres)
    for i in sorted(rb)[:5]:
        report("conn-loss runtime", rt[i], rres[i], rb[i])
    if rt:
        k0 = next((i for i, c in enumerate(rt) if c["kind"] == "tcp" and "ops" in rres[i]), 0)
        rep.sample({"runtime": rt[k0]["kind"], "tr": rt[k0].get("tr"), "end": rt[k0].get("end"),
                    "observed": [[o["op"], o["out"][:2], o["alive"]] for o in rres[k0].get("ops", [])]})

    phase("runtime")
    # 6. verdicts
    nominal = nominal_all
    nerr = sum(1 for r in res + ores + dres + rres + nominal if r.get("harness_error"))
    if nerr:
        rep.broken.append("harness: %d scenario(s) could not be run" % nerr)
        rep.notes.append("first harness error: %s" % next(r for r in res + ores + dres + rres + nominal if r.get("harness_error")))
    for what, rd in violations[:8]:
        rep.violation(what, rd)
    rep.coverage["correspondence"] = {
        "suite": "conn-loss", "channel_cases": len(chan), "open_cases": len(opn), "driver_cases": len(drv),
        "runtime_cases": len(rt), "distribution": dist,
        "model_disagreements": None if mbad is None else len(mbad), "oracle_failures": len(violations),
        "hangs_observed": sum(1 for r in res + ores + dres + rres if r.get("hang")),
    }
    rep.coverage["generated_from"] = common.source_hashes(SOURCES)
    rep.coverage["generated"] = {k: v for k, v in info.items() if k in ("login_sync", "login_async", "login_async_sleeps",
                                                                      "chan_loops_try_free", "sock_alive", "sock_shutdown", "negotiation",
                                                                      "rtime_sync", "rtime_async", "chan_lock_released")}
    rep.coverage["wall_parts_s"] = phases
    rep.rule = ("channel suite: every transport x every scripted operation (get_prompt, send_input, send_inputs_interact, telnet/ssh "
                "in-channel login, bare read/write) x a read fault (EOF / each documented exception / silence) at a random byte "
                "offset or a write fault at a random write or a failing liveness probe, nominal / 1-byte / random chunking, followed "
                "by random further operations incl. close; plus a fixed corpus (never-opened, closed, each loss kind at fixed "
                "offsets); open(): every library step x every documented exception; drivers: IOS-XE session (open, get_prompt, "
                "send_command, send_configs, send_interactive, close) over the simulated and the five real transports with the "
                "session dropping at sampled (thorough: all) byte offsets and writes; runtime: pty child / loopback TCP / loopback "
                "ssh ending the session mid-way; writes inside a read (Telnet option negotiation, both Telnet transports): the "
                "device's opening burst of 1..8 (thorough ..9) IAC requests of all four reply kinds, then the send of the k-th reply "
                "failing with each class of the socket family / a liveness probe answering dead in the middle of the burst / the "
                "next read ending in EOF, an exception, data or silence -- at transport level (bare read(), compared with the "
                "model), through the in-channel Telnet login and get_prompt, through (Async)GenericDriver.open() with in-channel "
                "authentication over the scripted socket / stream pair, and on real loopback sockets (burst, login prompt, FIN or "
                "RST before a single option is answered); read-for-a-duration: channel.send_input_and_read (until the prompt / "
                "until an expected output) on every transport with the session dropping at EVERY byte offset of the exchange and "
                "at each of its writes, every loss kind, nominal / 1-byte / random chunking, and (Async)NetworkDriver.send_and_read "
                "(both variants) in an IOS-XE session over the simulated and the five real transports with a drop at every byte "
                "offset of the two exchanges (quick: every offset on at least three transports) and at each of their writes; "
                "channel_lock=True on about half of the driver scenarios and a third of the channel scenarios: the operations "
                "after the drop run on the same object and need the lock the interrupted one held (a leaked lock = a hang seen "
                "by the watchdog, or a ScrapliTimeout + closed transport where ScrapliConnectionNotOpened is due).  "
                "non-trivial = a loss was met (or the transport was not open); distinct = "
                "(transport, script, fault, history)")
    rep.extra_assumptions += [
        "library model of coq/model/ConnLoss.v (sticky EOF / sticky loss exceptions / liveness probes answer dead after a loss; "
        "which exceptions each library call may raise: may_raise, open_may_raise) -- hand-written, confronted with the OS and the "
        "libraries by the pty / loopback scenarios only",
        "timeouts are C07's: here a computation that blocks or spins is turned into ScrapliTimeout + transport.close() when a "
        "timeout is armed; timeout_ops = 0 is outside the property (C08_full_refuted)",
    ]


def replay(path):
    r = json.load(open(path))
    c = r.get("case")
    if not c:
        print("nothing to replay (no concrete input): %s" % r.get("what"))
        return 1
    wd = os.path.join(common.BUILD, "C08")
    os.makedirs(wd, exist_ok=True)
    res = run_cases([c], wd, "replay", jobs=1)[0]
    print("scenario:", json.dumps(c)[:3000])
    print("observed:", json.dumps(res)[:3000])
    fails = ORACLES[c["kind"]](c, res) if not res.get("harness_error") else ["harness error: " + res["harness_error"]]
    if r.get("expect_model") and c["kind"] == "channel" and "ops" in res:
        from gen import gen_connloss
        gen_connloss.generate(wd)
        common.coqc(os.path.join(wd, "Gen_ConnLoss.v"), wd)
        if c.get("neg"):
            b = common.eval_cases(wd, "cases_c08_replay", NEG_HEADER, [neg_case_term(c, res["ops"])], "chk")[0] if c.get("neg_model") else []
        else:
            b, _ = common.eval_cases(wd, "cases_c08_replay", CHAN_HEADER, [chan_case_term(c, res["ops"])], "chk")
        if b:
            fails.append("model and implementation disagree")
    if fails:
        print("property FAILS on this scenario:")
        for f in fails:
            print("  -", f)
        return 1
    print("property holds on this scenario")
    return 0


MANIFEST = {
    "category": "proof",
    "text": "Coq theorems (props/C08.v, axiom-free) over an executable model of how a lost connection surfaces: for EVERY transport "
            "(telnet, asynctelnet, system, paramiko, asyncssh), EVERY history of operations (any sequence of channel writes / "
            "read-until loops with any matcher / the Telnet and SSH in-channel login loops, isalive(), close(), transport.write()), "
            "EVERY sequence of low-level events (so every byte offset at which the stream ends in an empty read, a documented "
            "exception or silence, every failing write, every liveness-probe answer, every close() failure) and timeout_ops > 0: "
            "each operation ends normally or in a ScrapliException subclass (never raw, never a hang); isalive() afterwards never "
            "answers True once the loss is visible; an operation during which the connection is lost raises; once the read side is "
            "gone every reading operation raises; a detached (never opened / closed) transport raises ScrapliConnectionNotOpened "
            "and stays detached; open() maps every documented failure of every library step to a scrapli exception. The statement "
            "without timeout_ops > 0 is refuted (C08_full_refuted: timeout_ops = 0 disables the backstop). The theorems are "
            "instantiated with the configuration generated from the source on every run (Gen_ConnLoss.v: the try/except/suppress "
            "tables around every low-level call, guards, EOF handling, isalive(), the login loops' except clauses, the real "
            "subclass relation), whose well-formedness is recomputed by vm_compute. The writes INSIDE a read are part of it: "
            "C08_negotiation_replies (model ConnLossNeg.v) -- read() of either Telnet transport over an opening burst of any "
            "number of option requests, for every outcome of every reply's send and every liveness-probe answer in between "
            "(sync telnet probes the socket once per byte), ends normally, waiting, or in a ScrapliException subclass, and leaves a "
            "state the main theorems apply to; instantiated with the reply-site facts generated from the source (every send / "
            "write call reachable from read(), the try/except tables between a reply's low-level send and the caller of read(), "
            "whether the handler's guard is a liveness probe), checked by vm_compute (C08_negotiation_config_ok). The "
            "read-for-a-duration loop of send_input_and_read / send_and_read (_read_until_prompt_or_time, the one other channel "
            "loop with an except / suppress table around self.read()): its table is generated from the source (sync and asyncio) "
            "and must pass rtime_ok inside C08_generated_config_ok -- nothing but a ScrapliTimeout is swallowed --, and "
            "C08_read_for_duration / C08_read_for_duration_raises (model ConnLossTime.v) prove for every transport, matcher, "
            "buffer, time left and event history that the loop ends normally, blocked (the timeout's) or in a ScrapliException, "
            "and that a round in which read() raises a connection-loss class ends it raised -- a drop in the middle of the "
            "answer is never the end of the output. C08_generated_config_ok also demands that the channel lock context manager "
            "gives the lock back however the operation under it ends. Tie (b): the real transports and channels "
            "(sync and asyncio) over scripted sockets / stream readers / pty / paramiko / asyncssh objects run on ~1500 (thorough "
            "~5000) generated fault histories and must agree with the model evaluated by vm_compute; open() of every transport "
            "with every library step failing. Tie (c): an independent oracle (exception class, latency <= timeout + 1 s, isalive() "
            "afterwards, later operations, hangs detected by a watchdog process) on those runs, on whole IOS-XE driver sessions over "
            "the simulated and the five real transports with the session dropping at sampled (thorough: every) byte offsets and "
            "writes, on send_input_and_read / send_and_read exchanges (until the prompt, until an expected output) with a drop at every "
            "byte offset (channel level: all five transports; driver level: simulated + five real transports), with "
            "channel_lock=True on part of the scenarios so that the operations after a drop need the lock of the interrupted one, "
            "and on a real pty child, real loopback sockets (FIN / RST / half-close) and real ssh sessions (paramiko, "
            "asyncssh, ssh binary) ended mid-way by an in-process asyncssh server. Option-burst scenarios (the peer gone between "
            "its opening burst and the replies: the k-th reply's send raising EPIPE / ECONNRESET / ..., a probe answering dead "
            "mid-burst) run at transport level (compared with ConnLossNeg.v by vm_compute), through the in-channel login, "
            "through Driver.open() with in-channel authentication, and on real loopback sockets (burst + FIN / RST). The read "
            "alphabet of the asyncssh stub also contains the DisconnectError subclasses asyncssh raises per disconnect reason "
            "(ProtocolError, MACError, CompressionError, ServiceNotAvailable, ProtocolNotSupported), treated by the model as "
            "their modelled ancestor DisconnectError.",
    "note": "Read-for-a-duration (send_input_and_read / send_and_read): the loop _read_until_prompt_or_time is modelled on "
            "its own (coq/model/ConnLossTime.v, theorems C08_read_for_duration / _raises over the table generated from the "
            "source) and is not an instruction of the operation histories of C08_loss_is_scrapli; the send_and_read scenarios "
            "(channel and driver level) are oracle-only, not compared with the model; the model's clock is a number of rounds "
            "(any), a read_duration >= 1 s (which the loop arms as transport timeout) on a silent peer is outside. That the "
            "channel lock is released however an operation ends is a generated fact (gen_chan_lock_released: the yield under "
            "`with lock:` or try/finally release) plus the channel_lock=True scenarios; the lock itself is not modelled here "
            "(C19's). Partial: what the OS and the libraries raise, and that their liveness indicators answer dead after a loss, is a "
            "hand-written library model (may_raise / open_may_raise / sticky EOF and errors in coq/model/ConnLoss.v), confronted "
            "with reality only by the pty / loopback scenarios; wall-clock latency and the timeout decorator's mechanics are "
            "observed (C07 proves the decorator), not proved: the model turns 'blocks' / 'retries for ever' into ScrapliTimeout "
            "when a timeout is armed. timeout_ops = 0 (no timeout) is outside the property by definition. PtyProcess internals "
            "(spawn failures; isalive() waits for a child that closed its pty but lives on) and bare transport.read() with no "
            "transport timeout are outside. Driver-level runs are oracle-only (pattern matching is C01's). Option negotiation: "
            "the model covers read() over a burst of complete IAC requests arriving alone in one segment, on a session with fewer "
            "than ten options answered (after that the transports stop parsing); bursts glued to payload, the login / get_prompt "
            "/ Driver.open() / loopback runs over a burst are oracle-only; that an asyncio StreamWriter's write() never raises for "
            "a lost connection (so the asynctelnet replies have no exception table and need none) is part of the library model "
            "(neg_may_raise), a reply's send timing out is not generated. Section variables: none; "
            "hypotheses of the theorems: cfg_ok (computed on the generated configuration), env_ok / rs_ok (events within the "
            "library contract), matchers reject the empty buffer.",
    "technique": "Coq proofs by induction over the list of low-level read events and over operation histories, with a state "
                 "invariant; generated exception tables checked by computation; vm_compute correspondence against the real "
                 "transports/channels over scripted low-level objects; oracle runs incl. real pty / sockets / ssh",
}
