"""C14 — overlapping calls on DIFFERENT connections.

`timeout_modifier` wraps a METHOD: there is one wrapper per decorated operation, shared by every driver
instance.  "The override applies to that call only" therefore also needs the value saved for the restore to
live in the frame of the wrapper CALL - not in the wrapper's closure, the module, the class or a
thread-local: with such a slot two connections that run the same operation at the same time (asyncio.gather
over several async drivers, sync drivers in a thread pool) restore each other's value, and a call that
started first and ends last leaves ITS connection with the OTHER connection's configured timeout_ops.

Scenario = 2-3 real drivers (sync or asyncio; GenericDriver / IOSXEDriver), each over its own SimDevice with
its own configured timeout_ops / timeout_transport, + per-connection calls with per-call overrides + a
SCHEDULE that interleaves them deterministically: a scripted transport PARKS the call at its n-th read
(asyncio: awaits an Event inside the event loop that runs all connections as tasks; threads: the worker
blocks on a threading.Event), the scheduler starts / finishes calls on the other connections meanwhile and
then lets the parked read go on (it returns data, raises a fault, or is never let go and the call's own
timeout_ops - a real timer - ends it).  No sleeping: the scheduler waits for "parked or ended" signals.

Observed, per call: the connection's three timeouts just before the call, at every transport read / write of
the call (with the phase: inside acquire_priv, inside the timed read of send_and_read, inside a decorated
_send_command), and at the moment the call has ended (read by the task / thread that made the call before it
does anything else); per connection: the three values after every call of the scenario has ended.

Oracle (observations only): each call ends with its own connection's values as they were before it; while a
call does its own I/O ITS override (and int(read_duration) in the timed read) is in effect - whatever the
other connections are doing; at the end every connection has ITS OWN configured values.

Nothing in scrapli is patched (instance-level wrappers only record phases)."""
import asyncio
import threading

from .simdevice import AsyncScriptedTransport, ScriptedTransport, SimDevice, Starved, make_driver

GUARD = 20.0          # fail-safe bound only
HOST = "router1"
PROMPT_RE = "^" + HOST + r"\S*[#>]\s*$"
FAULTS = ("timeout", "conn", "other", "interrupt")


class HarnessStuck(Exception):
    """a fail-safe bound was hit / the schedule could not be followed: the harness, not the property, failed"""


def val(ms, as_int=False):
    if as_int and ms % 1000 == 0:
        return ms // 1000
    return ms / 1000.0


def ms_of(v):
    if isinstance(v, bool) or not isinstance(v, (int, float)):
        return None
    return int(round(v * 1000))


def same_value(a, b):
    return type(a) in (int, float) and type(b) in (int, float) and a == b


def device_outputs(mode, line):
    if line.startswith("show bad") or line.startswith("bad "):
        return b"% Invalid input detected at '^' marker."
    if line.startswith("show"):
        return b"line one\nline two tokx\nline three"
    return b""


# ------------------------------------------------------------------------------------------------
# transports: scripted device, observation at every I/O, a read that parks until the scheduler lets it go
# ------------------------------------------------------------------------------------------------
class _Mixin:
    def ov_init(self, conn):
        self.ov_conn = conn
        self.session_timeout = 0

    def close(self):
        # closing the transport (what a timeout does) wakes a parked read, like a pty / socket
        self.opened = False
        self.ov_conn.let_go()

    def ov_after_park(self, fault):
        from scrapli.exceptions import ScrapliConnectionError, ScrapliTimeout
        if not self.opened:
            raise ScrapliConnectionError("simulated: read interrupted by close()")
        if fault is None:
            return
        if fault == "timeout":
            raise ScrapliTimeout("simulated transport timeout")
        if fault == "conn":
            self.device.closed = True
            raise ScrapliConnectionError("simulated: peer closed the connection")
        if fault == "other":
            raise RuntimeError("simulated unexpected error")
        if fault == "interrupt":
            raise KeyboardInterrupt() if self.ov_conn.stack == "threads" else asyncio.CancelledError()
        raise ValueError(fault)


class _SessMixin:
    def _set_timeout(self, value):
        from scrapli.exceptions import ScrapliConnectionNotOpened
        if not self.opened:
            raise ScrapliConnectionNotOpened
        self.session_timeout = value


class OvTransport(_Mixin, ScriptedTransport):
    def open(self):
        self.opened = True
        self.session_timeout = self._base_transport_args.timeout_transport

    def read(self):
        conn = self.ov_conn
        fault = conn.io_event("r")
        if fault is not False:
            conn.park_sync()
            self.ov_after_park(fault)
        return self._read()

    def write(self, channel_input):
        self.ov_conn.io_event("w")
        self._write(channel_input)


class OvAsyncTransport(_Mixin, AsyncScriptedTransport):
    async def open(self):
        self.opened = True
        self.session_timeout = self._base_transport_args.timeout_transport

    async def read(self):
        conn = self.ov_conn
        fault = conn.io_event("r")
        if fault is not False:
            await conn.park_async()
            self.ov_after_park(fault)
        return self._read()

    def write(self, channel_input):
        self.ov_conn.io_event("w")
        self._write(channel_input)


class OvSessTransport(_SessMixin, OvTransport):
    pass


class OvAsyncSessTransport(_SessMixin, OvAsyncTransport):
    pass


# ------------------------------------------------------------------------------------------------
# one connection
# ------------------------------------------------------------------------------------------------
class OConn:
    def __init__(self, run, index, cfg):
        self.run = run
        self.index = index
        self.cfg = cfg
        self.stack = run.stack
        self.kind = cfg["kind"]
        self.has_set = bool(cfg.get("has_set"))
        self.dev = SimDevice("generic" if self.kind == "generic" else "cisco_iosxe", host=HOST, outputs=device_outputs)
        self.dev.start()
        self.configured = (val(cfg["base_ops"], cfg.get("base_int", False)), val(cfg["base_tr"], cfg.get("base_int", False)))
        lib_stack = "sync" if self.stack == "threads" else "async"
        self.d = make_driver(self.kind, lib_stack, self.dev, tuple(cfg["policy"]),
                             timeout_ops=self.configured[0], timeout_transport=self.configured[1])
        if self.stack == "threads":
            tcls = OvSessTransport if self.has_set else OvTransport
        else:
            tcls = OvAsyncSessTransport if self.has_set else OvAsyncTransport
        t = tcls(self.dev, tuple(cfg["policy"]), None, base_transport_args=self.d._base_transport_args)
        t.ov_init(self)
        self.t = t
        self.d.transport = t
        self.d.channel.transport = t
        self.call = None           # the call in flight on this connection (one channel: one call at a time)
        self.n_reads = 0
        self.in_sc = 0
        self.in_timed = 0
        self.in_acq = 0
        self.gate = threading.Event() if self.stack == "threads" else asyncio.Event()
        self._instrument()

    def state(self):
        return (self.d.timeout_ops, self.d.timeout_transport, self.t.session_timeout if self.has_set else 0)

    # -- observation -----------------------------------------------------------------------------
    def io_event(self, kind):
        """records the event; for a read: the fault to raise after parking (None: none) or False: do not park"""
        call = self.call
        phase = "acq" if self.in_acq else ("timed" if self.in_timed else "io")
        self.run.record({"t": "io", "c": self.index, "call": None if call is None else call["id"], "phase": phase,
                         "in_sc": bool(self.in_sc), "kind": kind, "state": self.state()})
        if kind != "r" or call is None:
            return False
        n = self.n_reads
        self.n_reads = n + 1
        if call.get("park") is not None and call["park"] == n:
            return call.get("fault")
        return False

    def mark(self, what, **kw):
        ev = {"t": what, "c": self.index, "call": None if self.call is None else self.call["id"], "state": self.state()}
        ev.update(kw)
        self.run.record(ev)

    def _instrument(self):
        conn = self

        def wrap(obj, name, counter, tag):
            orig = getattr(obj, name)

            def enter(a, k):
                setattr(conn, counter, getattr(conn, counter) + 1)
                if tag == "sc":
                    conn.mark("sc_in")
                elif tag == "timed":
                    conn.mark("timed_in")

            def leave():
                setattr(conn, counter, getattr(conn, counter) - 1)
                conn.mark(tag + "_out")

            if asyncio.iscoroutinefunction(orig):
                async def w(*a, **k):
                    enter(a, k)
                    try:
                        return await orig(*a, **k)
                    finally:
                        leave()
            else:
                def w(*a, **k):
                    enter(a, k)
                    try:
                        return orig(*a, **k)
                    finally:
                        leave()
            setattr(obj, name, w)

        wrap(self.d, "_send_command", "in_sc", "sc")
        wrap(self.d.channel, "_read_until_prompt_or_time", "in_timed", "timed")
        if hasattr(self.d, "acquire_priv"):
            wrap(self.d, "acquire_priv", "in_acq", "acq")

    # -- parking ----------------------------------------------------------------------------------
    def park_sync(self):
        self.call["parked"] = True
        self.mark("parked")
        self.run.signal()
        if not self.gate.wait(GUARD):
            self.run.stuck.append("a parked read was never let go")
        self.call["parked"] = False

    async def park_async(self):
        self.call["parked"] = True
        self.mark("parked")
        self.run.signal()
        try:
            await asyncio.wait_for(self.gate.wait(), GUARD)
        except asyncio.TimeoutError:
            self.run.stuck.append("a parked read was never let go")
        finally:
            self.call["parked"] = False

    def let_go(self):
        self.gate.set()

    # -- the operation -----------------------------------------------------------------------------
    def invoke(self, spec):
        d, op = self.d, spec["op"]
        kw = {}
        if spec.get("ov") is not None:
            kw["timeout_ops"] = val(spec["ov"]["ms"], spec["ov"].get("int", False))
        if self.kind == "generic":
            kw["failed_when_contains"] = ["% Invalid input"]
        if op == "send_command":
            return d.send_command(spec["cmd"], **kw)
        if op == "send_commands":
            return d.send_commands(list(spec["cmds"]), **kw)
        if op == "send_interactive":
            return d.send_interactive([(spec["cmd"], PROMPT_RE)], **kw)
        if op == "send_and_read":
            if "rd" in spec:
                kw["read_duration"] = None if spec["rd"] is None else val(spec["rd"])
            return d.send_and_read(spec["cmd"], **kw)
        if op == "send_configs":
            return d.send_configs(list(spec["cmds"]), **kw)
        raise ValueError(op)

    def begin(self, call):
        if self.call is not None:
            raise HarnessStuck("schedule starts a call on a connection that is still in one")
        self.call = call
        self.n_reads = 0
        self.gate.clear()
        call["before"] = self.state()
        self.mark("call_start")

    def end(self, call, ret, exc):
        call["at_end"] = self.state()            # the call has ended: what its caller finds
        self.mark("call_end")
        call["closed_after"] = not self.t.opened
        if exc is None:
            call["outcome"] = "FailedCommand" if getattr(ret, "failed", False) else "Ok"
        elif isinstance(exc, Starved):
            call["outcome"] = "Blocks"
        else:
            call["outcome"] = type(exc).__name__
        self.call = None
        self.in_sc = self.in_timed = self.in_acq = 0
        if exc is not None:
            # the user re-opens / drains before going on with this connection
            self.dev.closed = False
            self.t.opened = True
            self.t.delivered = len(self.dev.out)
            if self.has_set:
                self.t.session_timeout = self.d.timeout_transport
        call["done"] = True


# ------------------------------------------------------------------------------------------------
# one scenario
# ------------------------------------------------------------------------------------------------
class Run:
    def __init__(self, scen):
        self.scen = scen
        self.stack = scen["stack"]
        self.events = []
        self.lock = threading.Lock()
        self.stuck = []
        self.calls = [dict(c, id=i, done=False, parked=False) for i, c in enumerate(scen["calls"])]
        self.conns = []
        self._sig = None

    def record(self, ev):
        with self.lock:
            ev["n"] = len(self.events)
            self.events.append(ev)

    def signal(self):
        if self.stack == "threads":
            with self._sig:
                self._sig.notify_all()
        else:
            self._sig.set()

    def _check_step(self, step):
        kind, cid = step
        call = self.calls[cid]
        if kind == "start" and (call["done"] or "before" in call):
            raise HarnessStuck("schedule starts a call twice")
        if kind in ("release", "timeout"):
            if call["done"]:
                return "skip", call       # the call ended without reaching the read it was to park at
            if not call["parked"]:
                raise HarnessStuck("schedule lets go a call that is not parked (call %d)" % cid)
        return kind, call

    # -- threads -----------------------------------------------------------------------------------
    def run_threads(self):
        self._sig = threading.Condition()
        self.conns = [OConn(self, i, c) for i, c in enumerate(self.scen["conns"])]
        for c in self.conns:
            c.d.open()
            c.initial = c.state()
        threads = []

        def body(conn, call):
            ret = exc = None
            try:
                ret = conn.invoke(call["spec"])
            except BaseException as e:  # noqa: every way the call can end
                exc = e
            conn.end(call, ret, exc)
            self.signal()

        for step in self.scen["schedule"]:
            kind, call = self._check_step(step)
            if kind == "skip":
                continue
            conn = self.conns[call["conn"]]
            if kind == "start":
                conn.begin(call)
                th = threading.Thread(target=body, args=(conn, call), name="c14-overlap-%d" % call["id"], daemon=True)
                threads.append(th)
                th.start()
            elif kind == "release":
                conn.let_go()
            # "timeout": nobody lets the read go; the call's own timeout_ops ends it
            # wait until THIS call is parked or has ended (another call ending meanwhile - its own timer - also signals)
            with self._sig:
                ok = self._sig.wait_for(lambda: call["done"] or (kind == "start" and call["parked"]), GUARD)
            if not ok:
                for c in self.conns:
                    c.let_go()
                raise HarnessStuck("no progress after %r" % (step,))
        for th in threads:
            th.join(GUARD)
            if th.is_alive():
                self.stuck.append("a calling thread did not finish")

    # -- asyncio -----------------------------------------------------------------------------------
    async def run_async(self):
        self._sig = asyncio.Event()
        self.conns = [OConn(self, i, c) for i, c in enumerate(self.scen["conns"])]
        for c in self.conns:
            await c.d.open()
            c.initial = c.state()
        tasks = []

        async def body(conn, call):
            ret = exc = None
            try:
                ret = await conn.invoke(call["spec"])
            except BaseException as e:  # noqa: every way the call can end (CancelledError raised by a transport included)
                exc = e
            conn.end(call, ret, exc)
            self.signal()

        for step in self.scen["schedule"]:
            kind, call = self._check_step(step)
            if kind == "skip":
                continue
            conn = self.conns[call["conn"]]
            self._sig.clear()
            if kind == "start":
                conn.begin(call)
                tasks.append(asyncio.ensure_future(body(conn, call)))
            elif kind == "release":
                conn.let_go()
            try:
                while not (call["done"] or (kind == "start" and call["parked"])):
                    await asyncio.wait_for(self._sig.wait(), GUARD)
                    self._sig.clear()
            except asyncio.TimeoutError:
                for c in self.conns:
                    c.let_go()
                raise HarnessStuck("no progress after %r" % (step,))
        for t in tasks:
            await asyncio.wait_for(t, GUARD)

    def result(self):
        if self.stuck:
            raise HarnessStuck("; ".join(self.stuck))
        for call in self.calls:
            if not call["done"]:
                raise HarnessStuck("the schedule leaves call %d unfinished" % call["id"])
        evs = self.events
        for call in self.calls:
            call["events"] = [e for e in evs if e.get("call") == call["id"]]
        return {"scenario": self.scen, "calls": self.calls, "events": evs,
                "conns": [{"configured": c.configured, "initial": c.initial, "final": c.state(), "has_set": c.has_set,
                           "kind": c.kind} for c in self.conns]}


def run_scenario(scen):
    run = Run(scen)
    if scen["stack"] == "threads":
        run.run_threads()
    else:
        loop = asyncio.new_event_loop()
        try:
            loop.run_until_complete(run.run_async())
        finally:
            loop.close()
    return run.result()


# ------------------------------------------------------------------------------------------------
# the property, on the observations alone
# ------------------------------------------------------------------------------------------------
def overlapped(res, call):
    """ids of the calls on other connections that were in flight at some moment of this call"""
    s = [e["n"] for e in call["events"] if e["t"] == "call_start"][0]
    e_ = [e["n"] for e in call["events"] if e["t"] == "call_end"][0]
    out = []
    for other in res["calls"]:
        if other["conn"] == call["conn"]:
            continue
        os_ = [e["n"] for e in other["events"] if e["t"] == "call_start"][0]
        oe = [e["n"] for e in other["events"] if e["t"] == "call_end"][0]
        if os_ < e_ and s < oe:
            out.append(other["id"])
    return out


def oracle_call(call):
    if call["outcome"] == "Blocks":
        return None
    bad = []
    b, a = call["before"], call["at_end"]
    if not same_value(b[0], a[0]):
        bad.append("timeout_ops %r -> %r when the call ended" % (b[0], a[0]))
    if not same_value(b[1], a[1]):
        bad.append("timeout_transport %r -> %r when the call ended" % (b[1], a[1]))
    if not call["closed_after"] and not same_value(b[2], a[2]):
        bad.append("session timeout %r -> %r when the call ended" % (b[2], a[2]))
    spec = call["spec"]
    io = [e for e in call["events"] if e["t"] == "io"]
    ov = spec.get("ov")
    if ov is not None:
        want = val(ov["ms"], ov.get("int", False))
        if spec["op"] in ("send_interactive", "send_and_read"):
            evs = [e for e in io if e["phase"] in ("io", "timed")]
        else:
            evs = [e for e in io if e["in_sc"]]
        wrong = [e["state"][0] for e in evs if not same_value(e["state"][0], want)]
        if wrong:
            bad.append("timeout_ops=%r was passed but %r was in effect during the call's own I/O" % (want, wrong[0]))
    if spec["op"] == "send_and_read":
        rd = spec.get("rd", 2500)
        want = int(val(2500 if rd is None else rd))
        wrong = [e["state"][1] for e in io if e["phase"] == "timed" and not same_value(e["state"][1], want)]
        if wrong:
            bad.append("read_duration %r: timeout_transport %r during the timed read (expected %r)" % (rd, wrong[0], want))
    return bad or None


def oracle(res):
    """list of (call id or None, connection index, [what]) - empty when the property holds on this run"""
    out = []
    for call in res["calls"]:
        bad = oracle_call(call)
        if bad:
            out.append((call["id"], call["conn"], bad))
    for i, c in enumerate(res["conns"]):
        bad = []
        for k, name in ((0, "timeout_ops"), (1, "timeout_transport")):
            if not same_value(c["initial"][k], c["configured"][k]):
                bad.append("%s is %r after open(), configured %r" % (name, c["initial"][k], c["configured"][k]))
            if not same_value(c["final"][k], c["configured"][k]):
                bad.append("after every call has ended %s of connection %d is %r, its configured value is %r" % (
                    name, i, c["final"][k], c["configured"][k]))
        if bad:
            out.append((None, i, bad))
    return out


def signature(res, failure):
    cid, conn, bad = failure
    if cid is None:
        return "c14:overlap:%s:final:%s" % (res["scenario"]["stack"], "ops" if "timeout_ops" in bad[0] else "transport")
    call = res["calls"][cid]
    b, a = call["before"], call["at_end"]
    which = "ops" if not same_value(a[0], b[0]) else ("transport" if not same_value(a[1], b[1]) else (
        "session" if not same_value(a[2], b[2]) else "not-applied"))
    return "c14:overlap:%s:%s:%s:%s" % (res["scenario"]["stack"], call["spec"]["op"], which, call["outcome"])


def dedup(seq):
    out = []
    for x in seq:
        if not out or out[-1] != x:
            out.append(x)
    return out


def jsonable(res):
    r = lambda st: [repr(x) for x in st]  # noqa
    calls = []
    for call in res["calls"]:
        calls.append({"call": call["id"], "connection": call["conn"], "spec": call["spec"], "before": r(call["before"]),
                      "seen_during": [[p, r(s)] for p, s in dedup([(e["phase"], e["state"]) for e in call["events"] if e["t"] == "io"])],
                      "at_end_of_call": r(call["at_end"]), "outcome": call["outcome"],
                      "in_flight_meanwhile_on_other_connections": overlapped(res, call)})
    order = [[e["t"], e["c"], e.get("call")] for e in res["events"] if e["t"] in ("call_start", "call_end", "parked")]
    return {"calls": calls, "order": order,
            "connections": [{"configured": r(c["configured"]), "after_all_calls": r(c["final"])} for c in res["conns"]]}


# ------------------------------------------------------------------------------------------------
# model term (coq/model/TimeoutOverlap.v): the schedule as it was observed
# ------------------------------------------------------------------------------------------------
def z(n):
    return "(%d)" % n


def triple(st):
    return "(%s, %s, %s)" % tuple(z(ms_of(x)) for x in st)


PH = {"io": "PhIo", "timed": "PhTimed", "acq": "PhAcq"}


def case_term(res):
    """(Coq term, None) of one overlap run, or (None, why): the global sequence of wrapper entries / exits, timed-read
    entries / exits and I/O events of all connections in the order in which they happened, the state of every connection
    before, and what was observed: every connection's de-duplicated observations and its state at the end"""
    conns = res["conns"]
    for c in conns:
        if None in [ms_of(x) for x in c["initial"]] or None in [ms_of(x) for x in c["final"]]:
            return None, "overlap: value without model counterpart"
    evs = []
    first = min([e["n"] for e in res["events"] if e["t"] == "call_start"] or [0])
    pending_enter = {}           # connection -> override term of a wrapper entry that has not happened yet
    by_id = {c["id"]: c for c in res["calls"]}

    def ov_term(call):
        ov = call["spec"].get("ov")
        return "OvNone" if ov is None else "(OvVal %s)" % z(ov["ms"])

    def flush(c):
        if c in pending_enter:
            evs.append("(EvEnter %d %s)" % (c, pending_enter.pop(c)))

    for e in res["events"]:
        if e["n"] < first:
            continue
        c = e["c"]
        call = by_id.get(e.get("call"))
        if call is None:
            return None, "overlap: I/O outside every call"
        op = call["spec"]["op"]
        wrapper_is_call = op in ("send_interactive", "send_and_read")
        if e["t"] == "call_start":
            if wrapper_is_call:
                # the decorated method is entered after the privilege level has been acquired (NetworkDriver): placed at
                # the first event that is not part of acquire_priv
                pending_enter[c] = ov_term(call)
        elif e["t"] == "sc_in":
            if not wrapper_is_call:
                evs.append("(EvEnter %d %s)" % (c, ov_term(call)))
        elif e["t"] == "sc_out":
            if not wrapper_is_call:
                evs.append("(EvLeave %d)" % c)
        elif e["t"] == "acq_out":
            pass
        elif e["t"] == "timed_in":
            flush(c)
            rd = call["spec"].get("rd", 2500)
            evs.append("(EvTimedIn %d %s)" % (c, z(2500 if rd is None else rd)))
        elif e["t"] == "timed_out":
            evs.append("(EvTimedOut %d)" % c)
        elif e["t"] == "io":
            if e["phase"] != "acq":
                flush(c)
            if None in [ms_of(x) for x in e["state"]]:
                return None, "overlap: value without model counterpart"
            evs.append("(EvIo %d %s)" % (c, PH[e["phase"]]))
        elif e["t"] == "call_end":
            if wrapper_is_call:
                if c in pending_enter:
                    # the call ended before the decorated method was reached (privilege handling failed)
                    pending_enter.pop(c)
                else:
                    evs.append("(EvLeave %d)" % c)
        elif e["t"] == "parked":
            pass
        else:
            return None, "overlap: event %s" % e["t"]
    seen = []
    for i in range(len(conns)):
        obs = dedup([(PH[e["phase"]], e["state"]) for e in res["events"] if e["n"] >= first and e["t"] == "io" and e["c"] == i])
        seen.append("[%s]" % "; ".join("(%s, %s)" % (p, triple(s)) for p, s in obs))
    return "(%d%%nat, [%s], [%s], [%s], [%s])" % (
        len(conns), "; ".join(triple(c["initial"]) for c in conns), "; ".join(evs),
        "; ".join(triple(c["final"]) for c in conns), "; ".join(seen)), None


# ------------------------------------------------------------------------------------------------
# generators
# ------------------------------------------------------------------------------------------------
BASES = [10000, 60000, 30000, 45250, 12500, 90000, 0]
OV_MS = [5000, 7500, 12250, 60000, 9999, 20000]
RD_MS = [2500, 1000, 2999, 500, 3000]
SHOW = ["show version", "show ip route", "show tok1", "show bad thing"]
CFGS = ["interface loopback0", "description x", "no shutdown"]


def conn_cfg(kind="generic", base_ops=30000, base_tr=30000, has_set=False, base_int=False, policy=("whole",)):
    return {"kind": kind, "has_set": has_set, "base_ops": base_ops, "base_tr": base_tr, "base_int": base_int, "policy": list(policy)}


def mkcall(conn, op, ov=None, park=None, fault=None, **kw):
    spec = {"op": op, "ov": None if ov is None else ({"ms": ov} if not isinstance(ov, dict) else ov)}
    if op in ("send_command", "send_interactive", "send_and_read"):
        spec["cmd"] = kw.pop("cmd", "show version")
    if op == "send_commands":
        spec["cmds"] = kw.pop("cmds", ["show version", "show tok1"])
    if op == "send_configs":
        spec["cmds"] = kw.pop("cmds", ["interface loopback0", "description x"])
    spec.update(kw)
    return {"conn": conn, "spec": spec, "park": park, "fault": fault}


def _scen(stack, conns, calls, schedule):
    return {"suite": "overlap", "stack": stack, "conns": conns, "calls": calls, "schedule": [list(s) for s in (schedule or [])]}


def fixed_scenarios(thorough):
    """the shapes of overlap: nested (first in, last out), staggered (first in, first out), three deep, different
    operations, a bystander without override, a call ended by a fault / by its own timeout_ops while another one runs"""
    out = []
    for stack in ("async", "threads"):
        two = [conn_cfg(base_ops=10000, base_tr=30000), conn_cfg(base_ops=60000, base_tr=12500)]
        three = two + [conn_cfg(base_ops=45250, base_tr=90000, has_set=True)]
        # nested: A parks, B runs from start to end, A goes on
        out.append(_scen(stack, two, [mkcall(0, "send_command", 5000, park=1), mkcall(1, "send_command", 7500)],
                         [("start", 0), ("start", 1), ("release", 0)]))
        # staggered: A parks, B parks, A ends, B ends
        out.append(_scen(stack, two, [mkcall(0, "send_and_read", 5000, park=1, rd=1000), mkcall(1, "send_and_read", 7500, park=1, rd=2999)],
                         [("start", 0), ("start", 1), ("release", 0), ("release", 1)]))
        # three deep, last in first out; the outermost call ends with a ScrapliTimeout of its transport
        out.append(_scen(stack, three, [mkcall(0, "send_interactive", 5000, park=0, fault="timeout"),
                                        mkcall(1, "send_interactive", 7500, park=1), mkcall(2, "send_interactive", 12250)],
                         [("start", 0), ("start", 1), ("start", 2), ("release", 1), ("release", 0)]))
        # different operations, several calls on the second connection while the first one is parked
        out.append(_scen(stack, two, [mkcall(0, "send_command", 5000, park=0, fault="conn"), mkcall(1, "send_and_read", 7500, rd=500),
                                      mkcall(1, "send_commands", 9999), mkcall(1, "send_command", 20000)],
                         [("start", 0), ("start", 1), ("start", 2), ("start", 3), ("release", 0)]))
        # a bystander: the other connection's calls carry no override / the current value
        out.append(_scen(stack, two, [mkcall(0, "send_commands", 5000, park=2), mkcall(1, "send_command", None),
                                      mkcall(1, "send_command", {"ms": 60000, "int": True})],
                         [("start", 0), ("start", 1), ("start", 2), ("release", 0)]))
        # network drivers: send_configs parked while another connection configures
        net = [conn_cfg("cisco_iosxe", base_ops=10000, base_tr=30000), conn_cfg("cisco_iosxe", base_ops=60000, base_tr=45250, has_set=True)]
        out.append(_scen(stack, net, [mkcall(0, "send_configs", 5000, park=3), mkcall(1, "send_configs", 7500),
                                      mkcall(1, "send_command", 12250, park=1)],
                         [("start", 0), ("start", 1), ("start", 2), ("release", 0), ("release", 2)]))
        # the parked call is ended by its own timeout_ops (a real timer) while / after the other connection's call
        out.append(_scen(stack, two, [mkcall(0, "send_command", 80, park=1), mkcall(1, "send_command", 7500)],
                         [("start", 0), ("start", 1), ("timeout", 0)]))
        out.append(_scen(stack, two, [mkcall(0, "send_and_read", 7500, park=1, rd=3000), mkcall(1, "send_and_read", 80, park=1, rd=1000)],
                         [("start", 0), ("start", 1), ("timeout", 1), ("release", 0)]))
        if thorough:
            for op in ("send_command", "send_commands", "send_interactive", "send_and_read"):
                for park in (0, 1):
                    for fault in (None,) + FAULTS:
                        out.append(_scen(stack, two, [mkcall(0, op, 5000, park=park, fault=fault), mkcall(1, op, 7500)],
                                         [("start", 0), ("start", 1), ("release", 0)]))
                        out.append(_scen(stack, two, [mkcall(0, op, 5000, park=park, fault=fault), mkcall(1, op, 7500, park=1 - park)],
                                         [("start", 0), ("start", 1), ("release", 0), ("release", 1)]))
    return out


def gen_call(rng, conn, cfg, may_park):
    net = cfg["kind"] != "generic"
    op = rng.choice(["send_command", "send_command", "send_commands", "send_interactive", "send_and_read", "send_and_read"]
                    + (["send_configs"] if net else []))
    r = rng.random()
    if r < 0.1:
        ov = None
    elif r < 0.2:
        ov = {"ms": cfg["base_ops"], "int": rng.random() < 0.5}
    else:
        ov = {"ms": rng.choice(OV_MS), "int": rng.random() < 0.3}
    kw = {}
    if op in ("send_command", "send_interactive", "send_and_read"):
        kw["cmd"] = rng.choice(SHOW)
    elif op == "send_commands":
        kw["cmds"] = [rng.choice(SHOW) for _ in range(rng.randint(1, 3))]
    else:
        kw["cmds"] = [rng.choice(CFGS) for _ in range(rng.randint(1, 2))]
    if op == "send_and_read" and rng.random() < 0.8:
        kw["rd"] = rng.choice(RD_MS)
    park = fault = None
    if may_park and rng.random() < 0.75:
        park = rng.choice([0, 0, 1, 1, 2])
        if rng.random() < 0.35:
            fault = rng.choice(FAULTS)
    return mkcall(conn, op, ov, park=park, fault=fault, **kw)


def gen_scenario(rng, stack=None):
    stack = stack or rng.choice(["async", "threads"])
    n = rng.choice([2, 2, 3])
    bases = rng.sample(BASES, n)               # distinct configured timeout_ops
    kind = rng.choice(["generic", "generic", "cisco_iosxe"])
    conns = [conn_cfg(kind, base_ops=bases[i], base_tr=rng.choice(BASES[:6]), has_set=rng.random() < 0.3,
                      base_int=rng.random() < 0.3, policy=rng.choice([("whole",), ("bytes", 8), ("bytes", 23)])) for i in range(n)]
    per_conn = [[gen_call(rng, i, conns[i], True) for _ in range(rng.randint(1, 2))] for i in range(n)]
    calls, ids = [], []
    for i in range(n):
        ids.append([])
        for c in per_conn[i]:
            ids[i].append(len(calls))
            calls.append(c)
    return _scen(stack, conns, calls, None), ids


def plan_schedule(rng, scen, ids):
    """a random valid interleaving (a call that ends before the read it was to park at makes its `release` step a no-op)"""
    nxt = [0] * len(ids)
    busy = {}                 # connection -> id of its parked call
    sched = []
    while True:
        choices = []
        for i in range(len(ids)):
            if i in busy:
                choices.append(("release", busy[i]))
            elif nxt[i] < len(ids[i]):
                choices.append(("start", ids[i][nxt[i]]))
                if len(busy) < 2:
                    choices.append(("start", ids[i][nxt[i]]))   # prefer getting calls in flight
        if not choices:
            break
        kind, cid = rng.choice(choices)
        conn = scen["calls"][cid]["conn"]
        sched.append([kind, cid])
        if kind == "start":
            nxt[conn] += 1
            if scen["calls"][cid]["park"] is not None:
                busy[conn] = cid
        else:
            del busy[conn]
    scen["schedule"] = sched
    return scen


def gen_planned(rng, stack=None):
    scen, ids = gen_scenario(rng, stack)
    return plan_schedule(rng, scen, ids)
