"""C18, behaviour half of "connections are isolated": what a connection ANSWERS never depends on
the other connections of the process.

A scenario is an interleaving of construct / mutate / USE operations over several connections (twins
of one platform, sometimes a second platform).  It is executed in a clean interpreter state: a
worker process that has imported scrapli but has never constructed a connection forks one child per
request, the child runs the operations and reports.  The reference of connection i is the
projection of the scenario onto i (its construction, its own mutations, its own uses), run the same
way in another clean child.  Oracle: every use of connection i answers in the scenario what it
answers alone, and i ends in the state it ends in alone.

Mutations: register a session, add a level (with or without the not_contains argument), set a pattern,
edit a level's not_contains IN PLACE (append / extend / += / insert) -- on deep-copied levels and on
levels created at run time (registered sessions, added levels, levels the user built and passed as
privilege_levels=) --, edit failed_when_contains in place, delete an added level.

Uses: _determine_current_priv(prompt), get_prompt(), acquire_priv(level) and send_command(line)
over a simulated device (harness/simdevice.py; every connection talks to its OWN device, all
devices carry the same host name so that the prompts coincide).

A generic observer runs beside the scenario: every container (dict, list, set, deque, bytearray)
found in vars(cls) of the driver / channel / transport classes (whole MRO), of every class defined
in a scrapli module, and in the globals of every scrapli module, and every mutable default value of the functions
and methods found there (an object all calls share), is snapshotted before and after every
operation; so are the mutable containers reachable from two connections at once.  Contents that
change while a connection is constructed, mutated or used are shared mutable state."""
import collections
import json
import os
import re
import signal
import subprocess
import sys
import traceback
import types
import warnings

CORE = ["cisco_iosxe", "cisco_iosxr", "cisco_nxos", "arista_eos", "juniper_junos"]
COMMUNITY = "scrapli_networkdriver"           # real community platform (iosxe-like tables), when installed
HOST, USER = "sw1", "admin"
OUTPUTS = {"show ok": b"fine", "show bad": b"% Invalid input detected at '^' marker.", "show boom": b"oops: boom",
           "show cfg": b"hostname sw1\n(cfg) x"}
SESSION_NAMES = ["alpha", "beta", "change-1041", "change-2093", "change", "s1"]
NC_POOL = ["sw1", "(config", "admin@", "#", "tcl", "-s", "zz"]
FWC_POOL = ["oops", "fine", "% Error", "hostname"]
CMDS = ["show ok", "show bad", "show boom", "show cfg"]
CONTAINERS = (dict, list, set, bytearray, collections.deque)
SKIP_ATTRS = {"__dict__", "__annotations__", "__all__", "__slots__", "__builtins__", "__path__", "__abstractmethods__",
              "_abc_impl", "__parameters__", "__orig_bases__", "__match_args__", "__dataclass_fields__",
              "__dataclass_params__", "__warningregistry__"}


class Runaway(BaseException):
    """the device executed far more lines than any bounded use types"""


class Alarm(BaseException):
    """guard against a hang of the code under test (never expected to fire)"""


def sim_platform(p):
    return p if p in CORE else "cisco_iosxe"


# ---------------------------------------------------------------------------------------------
# canonical snapshots
# ---------------------------------------------------------------------------------------------
def canon(o, depth=0):
    if o is None or isinstance(o, (bool, int, float, str)):
        return o if not isinstance(o, float) else repr(o)
    if isinstance(o, (bytes, bytearray)):
        return [type(o).__name__, o.decode("latin-1")]
    if isinstance(o, re.Pattern):
        return ["re", repr(o.pattern), o.flags]
    if isinstance(o, (types.FunctionType, types.BuiltinFunctionType, types.MethodType, type)):
        return ["callable", getattr(o, "__module__", "?") or "?", getattr(o, "__qualname__", "?")]
    if depth > 5:
        return ["deep", type(o).__name__]
    if isinstance(o, dict):
        return ["dict", sorted(([json.dumps(canon(k, depth + 1), sort_keys=True, default=repr), canon(v, depth + 1)] for k, v in list(o.items())),
                               key=lambda kv: kv[0])]
    if isinstance(o, (list, tuple, collections.deque)):
        return [type(o).__name__] + [canon(x, depth + 1) for x in list(o)]
    if isinstance(o, (set, frozenset)):
        return ["set"] + sorted(json.dumps(canon(x, depth + 1), sort_keys=True, default=repr) for x in list(o))
    mod = getattr(type(o), "__module__", "") or ""
    if mod.startswith("scrapli"):
        names = []
        for c in type(o).__mro__:
            names += [s for s in (getattr(c, "__slots__", ()) or ()) if isinstance(s, str)]
        names += list(getattr(o, "__dict__", {}) or {})
        return [type(o).__name__] + [[n, canon(getattr(o, n, None), depth + 2)] for n in sorted(set(names)) if not n.startswith("__")]
    return ["obj", type(o).__name__]


def _is_scrapli_module(name):
    return name == "scrapli" or name.startswith("scrapli.") or name.startswith("scrapli_")


def _watched(v):
    """shared values worth a snapshot: containers and instances of scrapli classes (e.g. DUMMY_PRIV_LEVEL)"""
    if isinstance(v, CONTAINERS):
        return True
    if isinstance(v, (type, types.ModuleType, types.FunctionType, types.BuiltinFunctionType, types.MethodType, staticmethod, classmethod, property)):
        return False
    return (getattr(type(v), "__module__", "") or "").startswith("scrapli")


def shared_owners(conns):
    """[(label, namespace owner)]: every scrapli module, every class defined in one, and the classes (whole MRO) of the
    driver / channel / transport objects of the connections"""
    out, classes = [], {}
    for name, m in sorted((n, m) for n, m in list(sys.modules.items()) if m is not None and _is_scrapli_module(n)):
        out.append(("module " + name, m))
        for v in list(vars(m).values()):
            if isinstance(v, type) and (getattr(v, "__module__", "") or "").startswith("scrapli"):
                classes[id(v)] = v
    for cn in conns:
        c = cn["c"]
        for o in (c, getattr(c, "channel", None), getattr(c, "transport", None)):
            if o is None:
                continue
            for k in type(o).__mro__:
                mod = getattr(k, "__module__", "") or ""
                if mod.startswith("scrapli") or mod.startswith("harness.simdevice"):
                    classes[id(k)] = k
    for k in classes.values():
        out.append(("class %s.%s" % (k.__module__, k.__qualname__), k))
    return out


def _function_defaults(v):
    """mutable default values of a function / method defined in a scrapli module: objects every call shares"""
    f = v.__func__ if isinstance(v, (staticmethod, classmethod)) else (v.fget if isinstance(v, property) else v)
    f = getattr(f, "__wrapped__", f)
    if not isinstance(f, types.FunctionType) or not _is_scrapli_module(getattr(f, "__module__", "") or ""):
        return
    for n, d in enumerate(f.__defaults__ or ()):
        if isinstance(d, CONTAINERS):
            yield "__defaults__[%d]" % n, d
    for k, d in sorted((f.__kwdefaults__ or {}).items()):
        if isinstance(d, CONTAINERS):
            yield "__kwdefaults__[%s]" % k, d


def shared_values(owners):
    for label, owner in owners:
        for a, v in list(vars(owner).items()):
            if a in SKIP_ATTRS:
                continue
            if isinstance(v, (types.FunctionType, staticmethod, classmethod, property)):
                for where, d in _function_defaults(v):          # dunder methods included (__init__)
                    yield label, "%s.%s" % (a, where), d
                continue
            if (a.startswith("__") and a.endswith("__")) or not _watched(v):
                continue      # dunder names belong to the interpreter (e.g. copyreg's __slotnames__ memo)
            yield label, a, v


def snapshot_shared(conns):
    """-> {owner: {attr: canonical JSON}}"""
    owners = shared_owners(conns)
    snap, memo = {label: {} for label, _ in owners}, {}
    for label, a, v in shared_values(owners):
        if id(v) not in memo:
            memo[id(v)] = json.dumps(canon(v), sort_keys=True, default=repr)
        snap[label][a] = memo[id(v)]
    return snap


def diff_shared(before, after):
    out = []
    for owner in sorted(before):
        if owner not in after:
            continue
        b, a = before[owner], after[owner]
        for k in sorted(set(b) | set(a)):
            if b.get(k) != a.get(k):
                out.append([owner + " : " + k, (b.get(k) or "(absent)")[:300], (a.get(k) or "(absent)")[:300]])
    return out


def reachable_containers(c):
    """ids of the mutable containers reachable from a connection through its own attributes"""
    seen, out, todo = set(), {}, [(c, "conn", 0)]
    while todo:
        o, path, depth = todo.pop()
        if id(o) in seen or depth > 5:
            continue
        seen.add(id(o))
        if isinstance(o, CONTAINERS):
            out[id(o)] = path
            items = list(o.values()) if isinstance(o, dict) else (list(o) if not isinstance(o, bytearray) else [])
            for n, x in enumerate(items):
                todo.append((x, path + "[%d]" % n, depth + 1))
            continue
        if isinstance(o, tuple):
            for n, x in enumerate(o):
                todo.append((x, path + "[%d]" % n, depth + 1))
            continue
        mod = getattr(type(o), "__module__", "") or ""
        if mod.startswith("scrapli") or mod.startswith("harness.simdevice"):
            names = []
            for k in type(o).__mro__:
                names += [s for s in (getattr(k, "__slots__", ()) or ()) if isinstance(s, str)]
            names += list(getattr(o, "__dict__", {}) or {})
            for n in names:
                if n in ("device",):          # the simulated device is the environment, one per connection
                    continue
                todo.append((getattr(o, n, None), path + "." + n, depth + 1))
    return out


# ---------------------------------------------------------------------------------------------
# the engine (runs in a clean child process)
# ---------------------------------------------------------------------------------------------
def _device(platform):
    from . import simdevice as sd

    class Dev(sd.SimDevice):
        def _return(self):
            if len(self.log) > 400:
                raise Runaway()
            super()._return()

    d = Dev(sim_platform(platform), host=HOST, user=USER, outputs=dict(OUTPUTS))
    d.start()
    return d


def definition_levels(p):
    """the platform definition's privilege levels (read only)"""
    import importlib
    if p in CORE:
        return importlib.import_module("scrapli.driver.core.%s.base_driver" % p).PRIVS
    m = importlib.import_module("scrapli_community.scrapli.networkdriver.scrapli_networkdriver")
    return m.SCRAPLI_PLATFORM["defaults"]["privilege_levels"]


def user_built_levels(p):
    """what a user writes who builds the levels himself: new PrivilegeLevel objects with the platform's values, not_contains
    given only where there is something to give"""
    from scrapli.driver.network.base_driver import PrivilegeLevel
    out = {}
    for k, v in definition_levels(p).items():
        a = (v.pattern, v.name, v.previous_priv, v.deescalate, v.escalate, v.escalate_auth, v.escalate_prompt)
        out[k] = PrivilegeLevel(*a, list(v.not_contains)) if v.not_contains else PrivilegeLevel(*a)
    return out


def _new_conn(op):
    from . import simdevice as sd
    import scrapli.factory as F
    is_async = bool(op["async"])
    fac = F.AsyncScrapli if is_async else F.Scrapli
    extra = {"privilege_levels": user_built_levels(op["platform"])} if op.get("levels") == "user" else {}
    c = fac(platform=op["platform"], host=HOST, transport="asynctelnet" if is_async else "telnet", auth_bypass=True,
            timeout_ops=0, timeout_transport=0, timeout_socket=0, **extra)
    dev = _device(op["platform"])
    tcls = sd.AsyncScriptedTransport if is_async else sd.ScriptedTransport
    t = tcls(dev, ("whole",), None, base_transport_args=c._base_transport_args)
    c.transport = t
    c.channel.transport = t
    t.opened = True
    return {"c": c, "dev": dev, "async": is_async, "platform": op["platform"]}


def snap_conn(cn):
    c = cn["c"]
    levels = [[k, [p.pattern, p.name, p.previous_priv, p.deescalate, p.escalate, bool(p.escalate_auth), p.escalate_prompt],
               list(p.not_contains) if isinstance(p.not_contains, (list, tuple)) else ["<%s>" % type(p.not_contains).__name__]]
              for k, p in c.privilege_levels.items()]
    return {"levels": levels, "fwc": list(c.failed_when_contains), "pattern": c.comms_prompt_pattern,
            "channel_pattern": c.channel._base_channel_args.comms_prompt_pattern,
            "graph": sorted([k, sorted(v)] for k, v in c._priv_graph.items()),
            "believes": c._current_priv_level.name, "default": c.default_desired_privilege_level,
            "device_mode": cn["dev"].mode}


def run_ops(ops, observe="ends"):
    """observe: "ops" (shared state snapshotted around every operation), "ends" (before the first and after the last
    operation; changes are then attributed to op -1), or False.
    -> {"events": [[op index, conn or None, observation]], "final": [state per conn], "shared": [...], "aliased": [...]}"""
    import asyncio
    from scrapli.driver.network.base_driver import PrivilegeLevel
    warnings.simplefilter("ignore")
    conns, events, shared = [], [], []
    loop = [None]

    def call(cn, fn, *a, **k):
        if not cn["async"]:
            return fn(*a, **k)
        if loop[0] is None:
            loop[0] = asyncio.new_event_loop()
        return loop[0].run_until_complete(fn(*a, **k))

    before = snapshot_shared(conns) if observe else None
    for n, op in enumerate(ops):
        k = op["op"]
        ob = None
        try:
            if k == "new":
                conns.append(_new_conn(op))
                ob = ["done"]
            else:
                cn = conns[op["conn"]]
                c, dev = cn["c"], cn["dev"]
                n0 = len(dev.log)
                if k == "register":
                    if hasattr(c, "register_configuration_session"):
                        c.register_configuration_session(session_name=op["name"])
                    else:
                        if op["name"] in c.privilege_levels:
                            raise ValueError("exists")
                        prev = "privilege_exec" if "privilege_exec" in c.privilege_levels else next(iter(c.privilege_levels), "")
                        c.privilege_levels[op["name"]] = PrivilegeLevel(r"^sw1\(config-s[\w.\-]*\)#\s?$", op["name"], prev, "end",
                                                                        "configure session " + op["name"], False, "")
                        c.update_privilege_levels()
                    ob = ["done"]
                elif k == "addlevel":
                    src = c.privilege_levels[op["like"]]
                    if op["name"] in c.privilege_levels:
                        raise ValueError("exists")
                    a = (src.pattern, op["name"], src.previous_priv, src.deescalate, src.escalate, src.escalate_auth, src.escalate_prompt)
                    # "nc" absent: the level is built without the not_contains argument
                    c.privilege_levels[op["name"]] = PrivilegeLevel(*a, list(op["nc"])) if "nc" in op else PrivilegeLevel(*a)
                    c.update_privilege_levels()
                    ob = ["done"]
                elif k == "setpattern":
                    c.privilege_levels[op["level"]].pattern = op["pattern"]
                    c.update_privilege_levels()
                    ob = ["done"]
                elif k == "appendnc":
                    c.privilege_levels[op["level"]].not_contains.append(op["s"])
                    c.update_privilege_levels()
                    ob = ["done"]
                elif k in ("extendnc", "iaddnc", "insertnc"):
                    lv = c.privilege_levels[op["level"]]
                    if k == "extendnc":
                        lv.not_contains.extend(list(op["l"]))
                    elif k == "iaddnc":
                        lv.not_contains += list(op["l"])
                    else:
                        lv.not_contains.insert(0, op["l"][0])
                    c.update_privilege_levels()
                    ob = ["done"]
                elif k == "dellevel":
                    del c.privilege_levels[op["level"]]
                    c.update_privilege_levels()
                    ob = ["done"]
                elif k == "appendfwc":
                    c.failed_when_contains.append(op["s"])
                    ob = ["done"]
                elif k in ("extendfwc", "iaddfwc"):
                    if k == "extendfwc":
                        c.failed_when_contains.extend(list(op["l"]))
                    else:
                        c.failed_when_contains += list(op["l"])
                    ob = ["done"]
                elif k == "priv":
                    ob = ["levels", list(c._determine_current_priv(op["prompt"]))]
                elif k == "prompt":
                    ob = ["prompt", call(cn, c.get_prompt)]
                elif k == "acquire":
                    call(cn, c.acquire_priv, op["target"])
                    ob = ["acquired"]
                elif k == "send":
                    r = call(cn, c.send_command, op["cmd"])
                    ob = ["response", bool(r.failed), r.result]
                else:
                    raise AssertionError(k)
                if k in ("prompt", "acquire", "send"):
                    ob += [["believes", c._current_priv_level.name], ["device_mode", dev.mode],
                           ["typed", [[m, bytes(l).decode("latin-1")] for (m, l, _) in dev.log[n0:]]]]
        except Alarm:
            raise
        except BaseException as e:  # noqa: the outcome of the operation is an exception class
            ob = ["raised", type(e).__name__]
            if k in ("prompt", "acquire", "send") and op.get("conn", -1) in range(len(conns)):
                cn = conns[op["conn"]]
                ob += [["believes", cn["c"]._current_priv_level.name], ["device_mode", cn["dev"].mode]]
        events.append([n, op.get("conn") if k != "new" else len(conns) - 1 if ob == ["done"] else None, ob])
        if observe == "ops":
            after = snapshot_shared(conns)
            for what, b, a in diff_shared(before, after):
                shared.append([n, what, b, a])
            before = after
    aliased = []
    if observe:
        if observe != "ops":
            for what, b, a in diff_shared(before, snapshot_shared(conns)):
                shared.append([-1, what, b, a])
        # a mutable container two connections both reach; what hangs off a module / class attribute is not counted here,
        # its CONTENTS are watched by the snapshots above
        reach = [reachable_containers(cn["c"]) for cn in conns]
        common_ids = set()
        for i in range(len(conns)):
            for j in range(i + 1, len(conns)):
                common_ids |= set(reach[i]) & set(reach[j])
        if common_ids:
            for _, _, v in shared_values(shared_owners(conns)):
                common_ids -= set(reachable_containers(v))
        for i in range(len(conns)):
            for j in range(i + 1, len(conns)):
                for oid in sorted(set(reach[i]) & set(reach[j]) & common_ids, key=lambda x: reach[i][x]):
                    aliased.append([i, reach[i][oid], j, reach[j][oid]])
    final = [snap_conn(cn) for cn in conns]
    if loop[0] is not None:
        loop[0].close()
    return {"events": events, "final": final, "shared": shared, "aliased": aliased[:10]}


# ---------------------------------------------------------------------------------------------
# clean-process pool: a worker that never builds a connection itself forks one child per request
# ---------------------------------------------------------------------------------------------
def _alarm(signum, frame):
    raise Alarm()


def _serve():
    from . import common
    common.setup_env()
    warnings.simplefilter("ignore")
    import scrapli  # noqa: F401
    import scrapli.factory  # noqa: F401
    import scrapli.driver.core  # noqa: F401
    from . import simdevice  # noqa: F401
    try:
        import importlib
        importlib.import_module("scrapli_community.scrapli.networkdriver.scrapli_networkdriver")
    except Exception:  # noqa
        pass
    import asyncio  # noqa: F401
    import gc
    gc.collect()
    gc.freeze()          # the children do not touch (copy) the pages of what is already imported
    inp, outp = sys.stdin, sys.stdout
    for line in inp:
        line = line.strip()
        if not line:
            continue
        req = json.loads(line)
        r, w = os.pipe()
        pid = os.fork()
        if pid == 0:
            code = 0
            try:
                os.close(r)
                signal.signal(signal.SIGALRM, _alarm)
                signal.alarm(int(req.get("guard_s", 60)))
                try:
                    res = run_ops(req["ops"], req.get("observe", "ends"))
                except BaseException as e:  # noqa
                    res = {"error": "%s: %s" % (type(e).__name__, e), "traceback": traceback.format_exc()[-1500:]}
                signal.alarm(0)
                data = json.dumps(res, default=repr).encode()
                while data:
                    k = os.write(w, data)
                    data = data[k:]
            except BaseException:  # noqa
                code = 3
            finally:
                os._exit(code)
        os.close(w)
        chunks = []
        while True:
            b = os.read(r, 1 << 16)
            if not b:
                break
            chunks.append(b)
        os.close(r)
        os.waitpid(pid, 0)
        data = b"".join(chunks).decode() or json.dumps({"error": "child died without an answer"})
        outp.write(data + "\n")
        outp.flush()


class Pool:
    def __init__(self, workdir):
        from . import common
        env = dict(os.environ)
        env["PYTHONPATH"] = common.REPO
        env.setdefault("PYTHONHASHSEED", "0")
        env["PYTHONDONTWRITEBYTECODE"] = "1"
        os.makedirs(workdir, exist_ok=True)
        self.errpath = os.path.join(workdir, "c18_iso_worker.err")
        self.err = open(self.errpath, "w")
        self.p = subprocess.Popen([sys.executable, "-m", "harness.c18_iso"], cwd=common.VERIF, env=env, stdin=subprocess.PIPE,
                                  stdout=subprocess.PIPE, stderr=self.err, text=True, bufsize=1)
        self.requests = 0

    def run(self, ops, observe="ends"):
        self.requests += 1
        self.p.stdin.write(json.dumps({"ops": ops, "observe": observe}) + "\n")
        self.p.stdin.flush()
        line = self.p.stdout.readline()
        if not line:
            self.err.flush()
            raise RuntimeError("clean-process worker died: " + open(self.errpath).read()[-1500:])
        return json.loads(line)

    def close(self):
        try:
            self.p.stdin.close()
            self.p.wait(timeout=30)
        except Exception:  # noqa
            self.p.kill()
        self.err.close()


# ---------------------------------------------------------------------------------------------
# the oracle
# ---------------------------------------------------------------------------------------------
def projection(ops, i):
    out, nconn = [], 0
    for op in ops:
        if op["op"] == "new":
            if nconn == i:
                out.append(dict(op))
            nconn += 1
        elif op.get("conn") == i:
            out.append(dict(op, conn=0))
    return out


def n_conns(ops):
    return sum(1 for o in ops if o["op"] == "new")


def describe(op):
    return json.dumps({k: v for k, v in op.items()}, sort_keys=True)


def evaluate(pool, ops, observe="ends"):
    """-> (failures, full result).  failures = strings; the machinery failing raises RuntimeError"""
    full = pool.run(ops, observe)
    if "error" not in full and full["shared"] and observe != "ops":
        fine = pool.run(ops, "ops")           # attribute the change to an operation
        if "error" not in fine and fine["shared"]:
            full = fine
    if "error" in full:
        raise RuntimeError("scenario could not be run: %s\n%s" % (full["error"], full.get("traceback", "")))
    fails = []
    for i in range(n_conns(ops)):
        proj = projection(ops, i)
        ref = pool.run(proj, False)
        if "error" in ref:
            raise RuntimeError("reference could not be run: %s\n%s" % (ref["error"], ref.get("traceback", "")))
        mine = [(n, ob) for n, cn, ob in full["events"] if cn == i]
        alone = [ob for _, _, ob in ref["events"]]
        if len(mine) != len(alone):
            raise RuntimeError("projection of connection %d has %d events, the scenario %d" % (i, len(alone), len(mine)))
        for (n, ob), ref_ob in zip(mine, alone):
            if ob != ref_ob:
                fails.append("connection %d (%s), op %d %s: answers %s when the other connections exist / were used; the same connection "
                             "with the same history alone in a clean process answers %s" % (
                                 i, proj[0]["platform"], n, describe(ops[n]), json.dumps(ob), json.dumps(ref_ob)))
                break
        else:
            if i < len(full["final"]) and ref["final"] and full["final"][i] != ref["final"][0]:
                a, b = full["final"][i], ref["final"][0]
                keys = [k for k in a if a[k] != b.get(k)]
                fails.append("connection %d (%s) ends in a different state than alone: %s" % (
                    i, proj[0]["platform"], "; ".join("%s: %s != %s" % (k, json.dumps(a[k])[:200], json.dumps(b.get(k))[:200]) for k in keys)))
    for n, what, b, a in full["shared"][:3]:
        fails.append("shared mutable state: %s changed the contents of [%s]: %s -> %s" % (
            ("op %d %s" % (n, describe(ops[n]))) if n >= 0 else "the scenario", what, b, a))
    for i, pi, j, pj in full["aliased"][:3]:
        fails.append("connections %d and %d hold the same mutable container object (%s / %s)" % (i, j, pi, pj))
    return fails, full


def is_behavioural(f):
    return f.startswith("connection ")


def is_answer(f):
    """a use of a connection answered differently (stronger than: it ends in a different state)"""
    return f.startswith("connection ") and ": answers " in f


def shrink(pool, ops, fails, budget=60):
    """drop operations / unused connections while the same KIND of failure remains (a behavioural difference stays one)"""
    cur = [dict(o) for o in ops]
    need_behaviour = any(is_behavioural(f) for f in fails)
    need_answer = any(is_answer(f) for f in fails)

    def failing(t):
        try:
            f = evaluate(pool, t)[0]
        except RuntimeError:
            return False
        if need_answer:
            return any(is_answer(x) for x in f)
        return any(is_behavioural(x) for x in f) if need_behaviour else bool(f)

    changed = True
    while changed and budget > 0:
        changed = False
        for i in range(len(cur) - 1, -1, -1):
            if budget <= 0:
                break
            if cur[i]["op"] == "new":
                ix = sum(1 for o in cur[:i] if o["op"] == "new")
                if any(o.get("conn") == ix for o in cur if o["op"] != "new") or n_conns(cur) <= 1:
                    continue
                t = [dict(o, conn=o["conn"] - 1) if o["op"] != "new" and o["conn"] > ix else dict(o) for j, o in enumerate(cur) if j != i]
            else:
                t = cur[:i] + cur[i + 1:]
            budget -= 1
            if failing(t):
                cur, changed = t, True
                break
    return cur


# ---------------------------------------------------------------------------------------------
# generators (main process; only table VALUES of the platform definitions are read)
# ---------------------------------------------------------------------------------------------
def platform_levels(p):
    """{level name: pattern} of the platform definition"""
    import importlib
    if p in CORE:
        m = importlib.import_module("scrapli.driver.core.%s.base_driver" % p)
        return {k: v.pattern for k, v in m.PRIVS.items()}
    m = importlib.import_module("scrapli_community.scrapli.networkdriver.scrapli_networkdriver")
    return {k: v.pattern for k, v in m.SCRAPLI_PLATFORM["defaults"]["privilege_levels"].items()}


def platforms():
    out = list(CORE)
    try:
        platform_levels(COMMUNITY)
        out.append(COMMUNITY)
    except Exception:  # noqa
        pass
    return out


def prompt_pool(p, names):
    """prompts the simulated device of this platform prints, in every mode / sub-mode / session"""
    from . import simdevice as sd
    d = sd.SimDevice(sim_platform(p), host=HOST, user=USER)
    modes = list(d.t["trans"].keys())
    out = []
    for m in modes:
        for sm in d.t["submodes"]:
            if m == "session":
                if "session_cmd" not in d.t:
                    continue
                for nm in names:
                    d.mode, d.submode = "session:" + nm, sm
                    out.append(d.prompt().decode())
            else:
                d.mode, d.submode = m, sm
                out.append(d.prompt().decode())
    out += [x.strip() for x in out] + ["nothing like a prompt", HOST + "(config-s)#", HOST + "(config-s-change)#", "root@%s:~ # %%" % HOST]
    seen, res = set(), []
    for x in out:
        if x not in seen:
            seen.add(x)
            res.append(x)
    return res


def gen_scenario(rng, plats):
    p = rng.choice(plats)
    n = rng.choice([2, 2, 2, 3])
    ops, conn_plat, names = [], [], []
    user_levels = rng.random() < 0.25        # the twins pass levels they built themselves (privilege_levels=...)
    for i in range(n):
        q = p if (i < 2 or rng.random() < 0.7) else rng.choice(plats)
        ops.append({"op": "new", "platform": q, "async": rng.random() < 0.4})
        if user_levels and (i < 2 or rng.random() < 0.5):
            ops[-1]["levels"] = "user"
        conn_plat.append(q)
        names.append(list(platform_levels(q)))
    used_sessions = []
    prompts = {q: None for q in set(conn_plat)}

    def pool_of(q):
        if prompts[q] is None:
            prompts[q] = prompt_pool(q, SESSION_NAMES)
        return prompts[q]

    def mutation(i):
        q = conn_plat[i]
        kinds = ["register", "register", "appendnc", "appendnc", "setpattern", "addlevel", "appendfwc", "dellevel",
                 "extendnc", "iaddnc", "insertnc", "addlevel", rng.choice(["extendfwc", "iaddfwc"])]
        k = rng.choice(kinds)
        lv = rng.choice(names[i]) if names[i] else "exec"
        made = [x for x in names[i] if x not in platform_levels(q)]       # created at run time: no deep copy of a definition's level
        if made and k in ("appendnc", "extendnc", "iaddnc", "insertnc") and rng.random() < 0.6:
            lv = rng.choice(made)
        if k == "register":
            nm = rng.choice(SESSION_NAMES)
            if nm not in names[i]:
                names[i].append(nm)
                used_sessions.append(nm)
            return {"op": "register", "conn": i, "name": nm}
        if k == "appendnc":
            return {"op": "appendnc", "conn": i, "level": lv, "s": rng.choice(NC_POOL)}
        if k in ("extendnc", "iaddnc", "insertnc"):
            return {"op": k, "conn": i, "level": lv, "l": rng.sample(NC_POOL, 1 if k == "insertnc" else rng.choice([1, 2]))}
        if k in ("extendfwc", "iaddfwc"):
            return {"op": k, "conn": i, "l": rng.sample(FWC_POOL, rng.choice([1, 2]))}
        if k == "setpattern":
            base = platform_levels(q)
            pat = rng.choice(sorted(base.values()) + [r"^edited#$", r"^sw1[>#]\s?$"])
            return {"op": "setpattern", "conn": i, "level": lv, "pattern": pat}
        if k == "addlevel":
            nm = rng.choice(["maint", "alpha", "beta", "ops"])
            op = {"op": "addlevel", "conn": i, "name": nm, "like": lv, "nc": rng.choice([[], ["zz"], ["sw1"], ["(config-if"]])}
            if rng.random() < 0.5:
                del op["nc"]                      # built without the argument
            if nm not in names[i]:
                names[i].append(nm)
            return op
        if k == "dellevel":
            # only leaves that were added on this connection (the priv graph of the platform stays whole)
            extra = [x for x in names[i] if x not in platform_levels(q)]
            if not extra:
                return {"op": "appendfwc", "conn": i, "s": rng.choice(FWC_POOL)}
            nm = rng.choice(extra)
            names[i].remove(nm)
            return {"op": "dellevel", "conn": i, "level": nm}
        return {"op": "appendfwc", "conn": i, "s": rng.choice(FWC_POOL)}

    def use(i, prompt=None):
        q = conn_plat[i]
        k = rng.choice(["priv", "priv", "priv", "acquire", "acquire", "send", "prompt"])
        if prompt is not None or k == "priv":
            return {"op": "priv", "conn": i, "prompt": prompt if prompt is not None else rng.choice(pool_of(q))}
        if k == "acquire":
            own = names[i] or ["exec"]
            other = [x for j in range(n) if j != i for x in names[j]]
            return {"op": "acquire", "conn": i, "target": rng.choice(own if rng.random() < 0.85 or not other else other)}
        if k == "send":
            return {"op": "send", "conn": i, "cmd": rng.choice(CMDS)}
        return {"op": "prompt", "conn": i}

    for _ in range(rng.choice([3, 5, 8, 12])):
        i = rng.randrange(n)
        ops.append(mutation(i) if rng.random() < 0.5 else use(i))
    # the same prompt looked up on every connection, in a random order; then sessions entered in a random order
    for _ in range(rng.choice([1, 2, 3])):
        cand = pool_of(p)
        sess = [x for x in cand if "(config-s" in x]
        pr = rng.choice(sess if used_sessions and sess and rng.random() < 0.5 else cand)
        order = list(range(n))
        rng.shuffle(order)
        for i in order:
            ops.append(use(i, pr))
    if rng.random() < 0.5:
        order = list(range(n))
        rng.shuffle(order)
        for i in order:
            mine = [x for x in names[i] if x not in platform_levels(conn_plat[i])] or names[i]
            if mine:
                ops.append({"op": "acquire", "conn": i, "target": rng.choice(mine)})
        for i in order:
            ops.append(rng.choice([{"op": "prompt", "conn": i}, {"op": "send", "conn": i, "cmd": rng.choice(CMDS)}]))
    return ops


def corpus(plats):
    """the kinds of twins: same pattern text, different level names / not_contains; each in both orders, sync and asyncio"""
    out = []
    n = lambda p, a=False: {"op": "new", "platform": p, "async": a}  # noqa: E731

    def both_orders(head, tail_a, tail_b):
        out.append(head + tail_a + tail_b)
        out.append(head + tail_b + tail_a)

    for a in (False, True):
        # differently named sessions, one pattern text (NX-OS)
        head = [n("cisco_nxos", a), n("cisco_nxos", not a), {"op": "register", "conn": 0, "name": "alpha"}, {"op": "register", "conn": 1, "name": "beta"}]
        pr = HOST + "(config-s)# "
        both_orders(head, [{"op": "priv", "conn": 0, "prompt": pr}], [{"op": "priv", "conn": 1, "prompt": pr}])
        both_orders(head, [{"op": "acquire", "conn": 0, "target": "alpha"}, {"op": "send", "conn": 0, "cmd": "show ok"}],
                    [{"op": "acquire", "conn": 1, "target": "beta"}, {"op": "send", "conn": 1, "cmd": "show ok"}])
        # sessions that agree in the first six characters (EOS prints six)
        head = [n("arista_eos", a), n("arista_eos", a), {"op": "register", "conn": 0, "name": "change-1041"}, {"op": "register", "conn": 1, "name": "change-2093"}]
        both_orders(head, [{"op": "acquire", "conn": 0, "target": "change-1041"}, {"op": "prompt", "conn": 0}],
                    [{"op": "acquire", "conn": 1, "target": "change-2093"}, {"op": "prompt", "conn": 1}])
        # a not_contains edit on one of two twins
        for p, level, s, pr in (("juniper_junos", "shell", "admin@", "admin@%s:~ %% " % HOST), ("cisco_iosxe", "privilege_exec", "sw1", HOST + "#"),
                                ("cisco_iosxr", "privilege_exec", "CPU0", "RP/0/RP0/CPU0:%s#" % HOST)):
            head = [n(p, a), n(p, a), {"op": "appendnc", "conn": 0, "level": level, "s": s}]
            both_orders(head, [{"op": "priv", "conn": 0, "prompt": pr}], [{"op": "priv", "conn": 1, "prompt": pr}])
        # a level added under another name with the pattern of an existing one; failure strings of one connection
        head = [n("cisco_iosxe", a), n("cisco_iosxe", not a), {"op": "addlevel", "conn": 0, "name": "maint", "like": "configuration", "nc": ["(config-if"]},
                {"op": "appendfwc", "conn": 1, "s": "fine"}]
        both_orders(head, [{"op": "acquire", "conn": 0, "target": "configuration"}, {"op": "priv", "conn": 0, "prompt": HOST + "(config)#"},
                           {"op": "send", "conn": 0, "cmd": "show ok"}],
                    [{"op": "acquire", "conn": 1, "target": "configuration"}, {"op": "priv", "conn": 1, "prompt": HOST + "(config)#"},
                     {"op": "send", "conn": 1, "cmd": "show ok"}])
        # IN-PLACE container edits of levels created at run time (registered sessions; levels the user built; a level added
        # without not_contains) and of deep-copied ones, on one of two twins; the twin and a connection built afterwards are used
        pr = HOST + "(config-s)# "
        for edit in ({"op": "appendnc", "s": "sw1"}, {"op": "extendnc", "l": ["zz", "sw1"]}, {"op": "iaddnc", "l": ["(config"]}):
            head = [n("cisco_nxos", a), n("cisco_nxos", not a), {"op": "register", "conn": 0, "name": "alpha"}, {"op": "register", "conn": 1, "name": "beta"},
                    dict(edit, conn=0, level="alpha")]
            out.append(head + [{"op": "priv", "conn": 1, "prompt": pr}, {"op": "priv", "conn": 0, "prompt": pr}, n("cisco_iosxe", a),
                               {"op": "priv", "conn": 2, "prompt": HOST + ">"}, {"op": "priv", "conn": 1, "prompt": HOST + "#"}])
        u = lambda p, x: dict(n(p, x), levels="user")  # noqa: E731
        head = [u("cisco_iosxe", a), u("cisco_iosxe", not a), {"op": "iaddnc", "conn": 0, "level": "privilege_exec", "l": ["sw1"]},
                {"op": "insertnc", "conn": 1, "level": "configuration", "l": ["(config-if"]}]
        both_orders(head, [{"op": "priv", "conn": 0, "prompt": HOST + "#"}, {"op": "acquire", "conn": 0, "target": "configuration"}],
                    [{"op": "priv", "conn": 1, "prompt": HOST + "#"}, {"op": "acquire", "conn": 1, "target": "configuration"}])
        head = [n("arista_eos", a), u("arista_eos", a), {"op": "addlevel", "conn": 0, "name": "maint", "like": "privilege_exec"},
                {"op": "extendnc", "conn": 0, "level": "maint", "l": ["sw1"]}, {"op": "extendfwc", "conn": 1, "l": ["fine"]}]
        out.append(head + [{"op": "priv", "conn": 1, "prompt": HOST + ">"}, {"op": "priv", "conn": 0, "prompt": HOST + "#"},
                           {"op": "send", "conn": 0, "cmd": "show ok"}, {"op": "send", "conn": 1, "cmd": "show ok"}])
    if COMMUNITY in plats:
        head = [n(COMMUNITY), dict(n(COMMUNITY, True), levels="user"), {"op": "register", "conn": 0, "name": "alpha"},
                {"op": "extendnc", "conn": 0, "level": "alpha", "l": ["sw1"]}, {"op": "iaddfwc", "conn": 0, "l": ["fine"]}]
        out.append(head + [{"op": "priv", "conn": 1, "prompt": HOST + ">"}, {"op": "send", "conn": 1, "cmd": "show ok"},
                           {"op": "priv", "conn": 0, "prompt": HOST + ">"}])
        head = [n(COMMUNITY), n(COMMUNITY, True), {"op": "register", "conn": 0, "name": "alpha"}, {"op": "register", "conn": 1, "name": "beta"},
                {"op": "appendnc", "conn": 1, "level": "privilege_exec", "s": "sw1"}]
        both_orders(head, [{"op": "priv", "conn": 0, "prompt": HOST + "(config-s)#"}, {"op": "priv", "conn": 0, "prompt": HOST + "#"}],
                    [{"op": "priv", "conn": 1, "prompt": HOST + "(config-s)#"}, {"op": "priv", "conn": 1, "prompt": HOST + "#"}])
    return out


if __name__ == "__main__":
    _serve()
