"""C05 — SEVERAL network driver objects alive in one process (suite `prompt-cache-objects`).

functools.lru_cache on the method _determine_current_priv is one cache for the whole class.  The theorem
C05_cache_transparent_objects (props/C05.v over model/PromptCacheObjs.v) says it is invisible on every interleaved history of
queries and table updates of any number of objects, given three facts read from the source on every run (the key contains the
object, update_privilege_levels clears, capacity).  This module confronts that model with the real drivers:

  model-compared   k = 2..3 objects of ONE platform that has configuration sessions (NX-OS, EOS), sync and asyncio: interleaved
                   queries, object i registers s1 / retires s1 and registers s2 (its table changes, the others' do not);
                   the model gets the generated tables tbl_base / tbl_session_s1 / tbl_session_s2
  oracle-only      objects of DIFFERENT platforms (all five), the same prompts asked of each in turn

Oracle (independent of scrapli's function and of any cache): every answer equals `table_classify` — python `re` over the
object's OWN current privilege_levels (pattern, flags M|I, not_contains as substrings).  All objects of a history are
constructed BEFORE the first query (a constructor runs update_privilege_levels, which clears the class-wide cache)."""
import json
import re


def table_classify(drv, prompt):
    """the classification the object's own table gives, recomputed from the level objects' current attributes"""
    out = []
    for name, lvl in drv.privilege_levels.items():
        if lvl.not_contains and any(nc in prompt for nc in lvl.not_contains):
            continue
        if re.search(lvl.pattern, prompt, flags=re.M | re.I):
            out.append(lvl.name)
    return out


def _pool(me, rx, plat_info, rng, n=10):
    obs = plat_info["info"]["obs"]
    pool = []
    for o in obs:
        if o["variant"] in ("base", "session:s1"):
            m = me.sample_member(rx, o, rng, 10)
            if m:
                pool.append(m)
    rng.shuffle(pool)
    return pool[:n] or [b"r1#"]


def run_history(me, hist):
    """hist = {"objects": [[platform, stack], ...], "ops": [["Q", i, hex] | ["R", i] | ["S", i]]}
    -> (answers per op (None for updates), expected per op)"""
    drvs = [me.make_real_driver(p, "base", stack) for p, stack in hist["objects"]]
    got, want = [], []
    for op in hist["ops"]:
        d = drvs[op[1]]
        if op[0] == "Q":
            t = bytes.fromhex(op[2]).decode("latin-1")
            got.append(me.real_classify(d, t))
            want.append(table_classify(d, t))
        elif op[0] == "R":
            d.register_configuration_session(session_name="s1")
            got.append(None)
            want.append(None)
        else:
            d.privilege_levels.pop("s1")
            d.register_configuration_session(session_name="s2")
            got.append(None)
            want.append(None)
    return got, want


def _gen_same_platform(p, pool, rng, k):
    objs = [[p, rng.choice(["sync", "async"])] for _ in range(k)]
    ops = []
    state = [0] * k       # 0 base, 1 s1, 2 s2

    def qs(n):
        out = []
        for _ in range(n):
            x = rng.choice(pool)
            # the same prompt asked of several objects in a row: what a key without the object gets wrong
            who = rng.sample(range(k), rng.randint(1, k))
            out += [["Q", i, x.hex()] for i in who]
        return out
    ops += qs(rng.randint(1, 3))
    for _ in range(rng.randint(1, 3)):
        i = rng.randrange(k)
        if state[i] == 0:
            ops.append(["R", i])
            state[i] = 1
        elif state[i] == 1:
            ops.append(["S", i])
            state[i] = 2
        ops += qs(rng.randint(1, 3))
    ops += [["Q", i, x.hex()] for x in pool[-2:] for i in range(k)]
    return {"objects": objs, "ops": ops}


def _gen_cross_platform(names, pools, rng):
    k = rng.randint(2, min(3, len(names)))
    ps = rng.sample(names, k)
    objs = [[p, rng.choice(["sync", "async"])] for p in ps]
    allp = [x for p in ps for x in pools[p]]
    ops = []
    for _ in range(rng.randint(3, 8)):
        x = rng.choice(allp)
        order = list(range(k))
        rng.shuffle(order)
        ops += [["Q", i, x.hex()] for i in order]
    # and once more, in the other order (the second asker must not get the first one's answer either way round)
    for x in allp[:3]:
        ops += [["Q", i, x.hex()] for i in reversed(range(k))]
    return {"objects": objs, "ops": ops}


def objects_suite(me, rep, rx, plats, rng, thorough, info_all, coq_bytes, coq_list, common, wd):
    stats = {"histories": 0, "ops": 0, "model_compared": 0, "oracle_only": 0, "oracle_failures": 0,
             "objects_per_history": {}, "same_prompt_asked_of_two_objects": 0}
    reported = 0
    pools = {p: _pool(me, rx, plats[p], rng) for p in plats}
    # --- one platform, k objects: model-compared -------------------------------------------------------------
    for p in ("cisco_nxos", "arista_eos"):
        if p not in plats:
            continue
        terms, meta = [], []
        for h in range(30 if thorough else 8):
            k = 2 if h % 3 else 3
            hist = _gen_same_platform(p, pools[p], rng, k)
            got, want = run_history(me, hist)
            stats["histories"] += 1
            stats["ops"] += len(hist["ops"])
            stats["model_compared"] += 1
            stats["objects_per_history"][str(k)] = stats["objects_per_history"].get(str(k), 0) + 1
            rep.case(("objs", p, json.dumps(hist, sort_keys=True)))
            reported += _judge(rep, stats, hist, got, want, reported)
            coq_ops, outs = [], []
            for op, g in zip(hist["ops"], got):
                if op[0] == "Q":
                    coq_ops.append("MQuery %d %s" % (op[1], coq_bytes(bytes.fromhex(op[2]))))
                    outs.append("Some (%s)" % ("None" if not g else "Some [%s]" % "; ".join('"%s"%%string' % n for n in g)))
                else:
                    coq_ops.append("MUpdate %d %s" % (op[1], "tbl_session_s1" if op[0] == "R" else "tbl_session_s2"))
                    outs.append("None")
            terms.append("(%d%%nat, %s, %s)" % (k, coq_list(coq_ops), coq_list(outs)))
            meta.append(hist)
        header = ("From Coq Require Import String List.\nFrom Verif Require Import Bytes Regex RegexDeriv Prompt PromptCache PromptCacheObjs.\n"
                  "From Gen Require Import Gen_Prompts_%s Gen_PromptCache.\n"
                  "Fixpoint seqb (a b : list string) : bool := match a, b with [] , [] => true | x :: a', y :: b' => String.eqb x y && seqb a' b' | _, _ => false end.\n"
                  "Definition oeqb (a b : option (option (list string))) : bool := match a, b with None, None => true | Some None, Some None => true\n"
                  "  | Some (Some x), Some (Some y) => seqb x y | _, _ => false end.\n"
                  "Fixpoint leqb (a b : list (option (option (list string)))) : bool := match a, b with [], [] => true | x :: a', y :: b' => oeqb x y && leqb a' b' | _, _ => false end.\n"
                  "Definition chk (c : nat * list (mop (list level)) * list (option (option (list string)))) : bool :=\n"
                  "  let '(k, ops, outs) := c in\n"
                  "  leqb (snd (mrun classify_opt gen_keyed_by_self gen_cap gen_update_clears_cache (mkM (repeat tbl_base k) []) ops)) outs.\n" % p)
        bad, log = common.eval_cases(wd, "objs_%s" % p, header, terms, "chk", shard=40)
        if bad is None:
            rep.broken.append("correspondence prompt-cache-objects %s (model evaluation failed)" % p)
            rep.notes.append(log[-1500:])
        elif bad:
            rep.broken.append("correspondence prompt-cache-objects %s: %d disagreements" % (p, len(bad)))
            rep.notes.append("objects history disagreement: %s" % json.dumps(meta[bad[0]])[:1200])
    # --- different platforms: oracle only ----------------------------------------------------------------------
    names = sorted(plats)
    if len(names) >= 2:
        for h in range(60 if thorough else 14):
            hist = _gen_cross_platform(names, pools, rng)
            got, want = run_history(me, hist)
            stats["histories"] += 1
            stats["ops"] += len(hist["ops"])
            stats["oracle_only"] += 1
            k = len(hist["objects"])
            stats["objects_per_history"][str(k)] = stats["objects_per_history"].get(str(k), 0) + 1
            rep.case(("objs-x", json.dumps(hist, sort_keys=True)))
            reported += _judge(rep, stats, hist, got, want, reported)
    info_all["cache_object_histories"] = stats


def _judge(rep, stats, hist, got, want, reported):
    seen = {}
    for op in hist["ops"]:
        if op[0] == "Q":
            seen.setdefault(op[2], set()).add(op[1])
    stats["same_prompt_asked_of_two_objects"] += sum(1 for v in seen.values() if len(v) > 1)
    n = 0
    for j, (op, g, w) in enumerate(zip(hist["ops"], got, want)):
        if op[0] == "Q" and g != w:
            stats["oracle_failures"] += 1
            if reported + n < 3:
                n += 1
                small = shrink(hist, j)
                t = bytes.fromhex(op[2]).decode("latin-1")
                rep.violation("object %d (%s, %s) classifies %r as %s; its own privilege table gives %s — the answer belongs to another object alive in the process" % (
                    op[1], hist["objects"][op[1]][0], hist["objects"][op[1]][1], t, g, w),
                    {"kind": "cache-objects", "history": small, "found_in": hist, "failing_op": j,
                     "rerun": "./check C05 --replay <this file>"})
            break
    return n


def _fails(me, hist):
    got, want = run_history(me, hist)
    return any(op[0] == "Q" and g != w for op, g, w in zip(hist["ops"], got, want))


def shrink(hist, j):
    """drop operations (keeping the objects) while some query still gets an answer that is not its own table's"""
    import sys
    me = sys.modules["harness.c05"]
    cur = {"objects": hist["objects"], "ops": hist["ops"][:j + 1]}
    try:
        if not _fails(me, cur):
            return hist
        i = 0
        while i < len(cur["ops"]) - 1:
            cand = {"objects": cur["objects"], "ops": cur["ops"][:i] + cur["ops"][i + 1:]}
            if _fails(me, cand):
                cur = cand
            else:
                i += 1
    except Exception:  # noqa
        return hist
    return cur


def replay(me, r):
    hist = r["history"]
    got, want = run_history(me, hist)
    ok = True
    for op, g, w in zip(hist["ops"], got, want):
        if op[0] == "Q":
            t = bytes.fromhex(op[2]).decode("latin-1")
            flag = "" if g == w else "   <-- not this object's own table"
            ok = ok and g == w
            print("object %d %s: %r -> %s (own table: %s)%s" % (op[1], hist["objects"][op[1]], t, g, w, flag))
        else:
            print("object %d: %s" % (op[1], "register s1" if op[0] == "R" else "retire s1, register s2"))
    print("property holds on this input" if ok else "property FAILS on this input")
    return 0 if ok else 1


# ------------------------------------------------------------------------------------------------------------------------
# configuration-session names that are already names of levels (suite `session-name-is-a-level`, oracle-only)
# ------------------------------------------------------------------------------------------------------------------------
def _base_samples(me, rx, plat_info, rng, per=2):
    out = []
    for o in plat_info["info"]["obs"]:
        if o["variant"] != "base":
            continue
        for _ in range(per):
            m = me.sample_member(rx, o, rng, 10)
            if m:
                out.append((o["mode"], m.hex(), me.expected_class(o)))
    return out


def run_session_name(me, p, stack, names, samples):
    """register each name in turn on ONE driver (a refusal is an acceptable outcome); then classify the base prompts"""
    d = me.make_real_driver(p, "base", stack)
    outcomes = []
    for n in names:
        try:
            d.register_configuration_session(session_name=n)
            outcomes.append("registered")
        except Exception as e:  # noqa
            outcomes.append(type(e).__name__)
    got = [me.real_classify(d, bytes.fromhex(h).decode("latin-1")) for _, h, _ in samples]
    return outcomes, got


def session_name_suite(me, rep, rx, plats, rng, thorough, info_all):
    """the user registers a configuration session whose name is the name of an existing level (a core level, or a session
    registered before): whatever register_configuration_session does with it — the unchanged tree refuses — every prompt of the
    platform's base grammars must still map to its own level(s) afterwards"""
    stats = {"runs": 0, "refused": 0, "registered": 0, "oracle_failures": 0}
    reported = 0
    for p in ("cisco_nxos", "arista_eos"):
        if p not in plats:
            continue
        samples = _base_samples(me, rx, plats[p], rng, 3 if thorough else 2)
        core = list(me.make_real_driver(p, "base").privilege_levels)
        for stack in ("sync", "async"):
            fams = [[n] for n in core] + [["s1", "s1"], ["s1", core[0]]] + [[n.upper()] for n in core[:2]]
            for names in fams:
                outcomes, got = run_session_name(me, p, stack, names, samples)
                stats["runs"] += 1
                stats["refused"] += sum(o != "registered" for o in outcomes)
                stats["registered"] += sum(o == "registered" for o in outcomes)
                rep.case(("sessname", p, stack, tuple(names)))
                for (mode, h, want), g in zip(samples, got):
                    if g != want:
                        stats["oracle_failures"] += 1
                        if reported < 3:
                            reported += 1
                            t = bytes.fromhex(h).decode("latin-1")
                            rep.violation("%s (%s): after register_configuration_session(%s) [%s] the %s prompt %r is classified %s, expected %s" % (
                                p, stack, ", ".join(map(repr, names)), ", ".join(outcomes), mode, t, g, want),
                                {"kind": "session-name", "platform": p, "stack": stack, "names": names, "prompt_hex": h, "mode": mode,
                                 "expected": want, "rerun": "./check C05 --replay <this file>"})
                        break
    info_all["session_name_is_a_level"] = stats


def replay_session_name(me, r):
    outcomes, got = run_session_name(me, r["platform"], r.get("stack", "sync"), r["names"], [(r["mode"], r["prompt_hex"], r["expected"])])
    t = bytes.fromhex(r["prompt_hex"]).decode("latin-1")
    print("%s: register_configuration_session(%s) -> %s; %r classified %s, expected %s" % (r["platform"], r["names"], outcomes, t, got[0], r["expected"]))
    ok = got[0] == r["expected"]
    print("property holds on this input" if ok else "property FAILS on this input")
    return 0 if ok else 1
