"""C11 suite `two-conn` (ORACLE-ONLY: the Coq model has one connection and a timeout that always closes the transport).

Histories over TWO real driver objects A and B (sync and asyncio) on the scripted FaultTransport / SimDevice:

* commandeer: open A (with / without a channel_log file), construct B (with / without its own channel_log file, never
  opened), B.commandeer(A) (on_open executed or not, the device dropping / stalling inside it), operate through B
  and/or A, then close B only / A only / B then A / A then B, optionally open B again and close it.
  What the unchanged tree does (Driver.commandeer / AsyncDriver.commandeer, read from the source): B takes A's
  transport object and loggers; when A holds a channel-log handle B's channel adopts THAT handle (B's own channel_log
  setting is not opened: open() is never called on B); then B.on_open(B).  close() of either connection closes the one
  shared transport and the one shared log handle; the docstring promises that closing the commandeering connection
  closes the original connection as well.
* nested with-blocks of two independent connections (outer A, inner B) with the inner device stalling / dropping in
  the inner body or the inner body raising by itself (ScrapliTimeout included): the exception of the inner connection
  travels through the outer connection's __exit__.
* Settings.NO_TERMINATE_ON_TIMEOUT = True (the timeout handler raises ScrapliTimeout WITHOUT closing the transport)
  around with-blocks, open/operate/close histories and nested blocks.

Observers after every operation: per connection the transport flag / isalive() / the channel's log handle, every file
object that was ever seen as a channel log (identity-tracked: a handle that a connection no longer refers to is still
looked at), /proc/self/fd entries that point at one of the scenario's log files, new fds, new threads."""
import os

from . import c11_lib as L

CONNS = ("A", "B")


def _platform_of(kind):
    return kind if kind in L.PLATFORMS else ("cisco_iosxe" if kind == "network" else "generic")


def _dyn_wrap(orig, name, stack):
    """label the phase on whatever transport the connection uses NOW (commandeer swaps the transport object)"""
    if stack == "sync":
        def hook(conn):
            t = conn.transport
            prev, t.phase = t.phase, name
            try:
                return orig(conn)
            finally:
                t.phase = prev
    else:
        async def hook(conn):
            t = conn.transport
            prev, t.phase = t.phase, name
            try:
                return await orig(conn)
            finally:
                t.phase = prev
    hook.__wrapped__ = orig
    return hook


def _factory(plat):
    return lambda: L.SimDevice(plat, outputs={"show version": b"v1\nline2"})


def _hook_arg(spec, stack):
    if spec in ("default", None):
        return None
    return L.user_hook(stack, spec.get("interact", False), spec.get("fail"))


class TwoConn:
    """runs one two-connection history against real drivers; returns per-op observations (JSON-able)"""

    def __init__(self, sc, tmpdir):
        self.sc = sc
        stack = sc["stack"]
        self.conns, self.logpaths = {}, {}
        for name in CONNS:
            spec = sc["conns"][name]
            # commandeer histories: one device (of B's platform) behind the shared transport; otherwise a device per connection
            factory = _factory(sc.get("plat") or _platform_of(spec["kind"]))
            kw = {}
            if spec.get("log") == "file":
                self.logpaths[name] = os.path.join(tmpdir, "two_%d_%s.log" % (sc.get("n", 0), name))
                kw["channel_log"] = self.logpaths[name]
            for h in ("on_open", "on_close"):
                a = _hook_arg(spec.get(h, "default"), stack)
                if a is not None:
                    kw[h] = a
            d = L.make_fault_driver(spec["kind"], stack, factory, tuple(sc.get("policy", ("whole",))), **kw)
            for h in ("on_open", "on_close"):
                cur = getattr(d, h)
                if cur is not None:
                    setattr(d, h, _dyn_wrap(cur.__wrapped__, h, stack))
            self.conns[name] = d
        self.r = L.ARunner(stack)
        self.handles = []            # every file object ever seen as a channel log

    # -- helpers -------------------------------------------------------------------------------
    def _transports(self):
        out = []
        for d in self.conns.values():
            for t in (d.transport, d.channel.transport):
                if not any(t is x for x in out):
                    out.append(t)
        return out

    def _note_handles(self):
        for d in self.conns.values():
            cl = d.channel.channel_log
            if cl is not None and not any(cl is h for h in self.handles):
                self.handles.append(cl)

    def _op_sync(self, conn, phase, n):
        t = conn.transport
        prev, t.phase = t.phase, phase
        try:
            for _ in range(n):
                conn.send_command("show version")
        finally:
            t.phase = prev

    async def _op_async(self, conn, phase, n):
        t = conn.transport
        prev, t.phase = t.phase, phase
        try:
            for _ in range(n):
                await conn.send_command("show version")
        finally:
            t.phase = prev

    def _raise(self, name):
        if name:
            raise L.exc_by_name(name)("body failure")

    def _with(self, op):
        d = self.conns[op["c"]]
        n, exc = op.get("body_ops", 1), op.get("body_exc")
        if self.sc["stack"] == "sync":
            with d as conn:
                self._note_handles()
                self._op_sync(conn, "body", n)
                self._raise(exc)
        else:
            async def go():
                async with d as conn:
                    self._note_handles()
                    await self._op_async(conn, "body", n)
                    self._raise(exc)
            self.r.loop.run_until_complete(go())

    def _nested(self, op):
        outer, inner = self.conns[op["outer"]], self.conns[op["inner"]]
        n_o, n_i, n_a = op.get("outer_ops", 1), op.get("inner_ops", 1), op.get("after_ops", 0)
        if self.sc["stack"] == "sync":
            with outer as o:
                self._op_sync(o, "body", n_o)
                with inner as i:
                    self._note_handles()
                    self._op_sync(i, "body", n_i)
                    self._raise(op.get("inner_exc"))
                self._op_sync(o, "body", n_a)
                self._raise(op.get("outer_exc"))
        else:
            async def go():
                async with outer as o:
                    await self._op_async(o, "body", n_o)
                    async with inner as i:
                        self._note_handles()
                        await self._op_async(i, "body", n_i)
                        self._raise(op.get("inner_exc"))
                    await self._op_async(o, "body", n_a)
                    self._raise(op.get("outer_exc"))
            self.r.loop.run_until_complete(go())

    # -- the history ---------------------------------------------------------------------------
    def run(self):
        from scrapli.settings import Settings
        saved = Settings.NO_TERMINATE_ON_TIMEOUT
        Settings.NO_TERMINATE_ON_TIMEOUT = bool(self.sc.get("no_terminate"))
        try:
            return self._run()
        finally:
            Settings.NO_TERMINATE_ON_TIMEOUT = saved
            self.r.close()

    def _run(self):
        import scrapli.exceptions as se
        obs = []
        fd0, th0 = L.fd_snapshot(), L.threads()
        for op in self.sc["ops"]:
            f = op.get("fault")
            for t in self._transports():
                t.fired, t.count, t.armed = None, {}, None
            if f:
                targets = [self.conns[f["c"]].transport] if f.get("c") else self._transports()
                for t in targets:
                    t.armed = {k: f[k] for k in ("phase", "kind", "at")}
            res, scrapli_exc = "ok", None
            try:
                k = op["op"]
                if k == "open":
                    self.r.call(self.conns[op["c"]].open)
                elif k == "close":
                    self.r.call(self.conns[op["c"]].close)
                elif k == "commandeer":
                    self.r.call(self.conns[op["c"]].commandeer, self.conns[op["of"]],
                                execute_on_open=op.get("execute_on_open", True))
                elif k == "operate":
                    d = self.conns[op["c"]]
                    if self.sc["stack"] == "sync":
                        self._op_sync(d, "operate", 1)
                    else:
                        self.r.loop.run_until_complete(self._op_async(d, "operate", 1))
                elif k == "with":
                    self._with(op)
                elif k == "nested":
                    self._nested(op)
                else:
                    raise ValueError(k)
            except Exception as e:  # noqa  (BaseExceptions — Starved — are harness failures and propagate)
                res = type(e).__name__
                scrapli_exc = isinstance(e, se.ScrapliException)
            fired = None
            for t in self._transports():
                if t.fired:
                    fired = list(t.fired)
                t.armed = None
            self._note_handles()
            fds = L.fd_snapshot()
            o = {"res": res, "scrapli_exc": scrapli_exc, "fired": fired,
                 "shared": self.conns["A"].transport is self.conns["B"].transport,
                 "handles_open": sum(1 for h in self.handles if not h.closed), "handles_seen": len(self.handles),
                 "log_fds": {n: sum(1 for v in fds.values() if v == p) for n, p in sorted(self.logpaths.items())},
                 "new_fds": sorted(L.fd_new(fd0, fds, ignore=("anon_inode", "pipe:", "/dev/null")).values()),
                 "new_threads": [x for x in L.threads() if x not in th0], "conn": {}}
            for name, d in self.conns.items():
                cl = d.channel.channel_log
                o["conn"][name] = {"t_open": bool(d.transport.opened), "isalive": bool(d.isalive()),
                                   "chan_t_open": bool(d.channel.transport.opened),
                                   "log_open": bool(cl is not None and not cl.closed),
                                   "sessions": d.transport.sessions}
            obs.append(o)
        return obs


# -- the property, decided on the observations only ----------------------------------------------------
def oracle(sc, obs):
    """returns [(op index, class, what)].
    R1 the connection(s) an operation closes (close X, with X, both of a nested block) hold nothing afterwards: transport
       closed and not alive, the channel's log handle closed;
    R2 closing a connection that commandeered another one closes the original connection as well (commandeer's
       documented contract): the same for the commandeered connection;
    R3 once no connection is in use any more (every opened / commandeering connection closed, or closed through the
       connection that commandeered it) nothing is left at all: no file object that ever was a channel log is open, no
       fd points at a log file, no new fd / thread;
    R4 open() of a released connection on a healthy device succeeds."""
    bad = []
    live = set()
    took = {}                 # commandeering connection -> commandeered connection
    for i, (op, o) in enumerate(zip(sc["ops"], obs)):
        k = op["op"]
        closed = []
        if k == "open":
            if op["c"] not in live and not o["fired"] and not live and _clean(sc, op["c"]) and \
                    (o["res"] != "ok" or not o["conn"][op["c"]]["t_open"]):
                bad.append((i, "reopen", "open() of released connection %s: %s, transport open=%s" % (
                    op["c"], o["res"], o["conn"][op["c"]]["t_open"])))
            live.add(op["c"])
            took.pop(op["c"], None)
            for x, y in list(took.items()):
                if y == op["c"]:
                    took.pop(x)
        elif k == "commandeer":
            live.add(op["c"])
            took[op["c"]] = op["of"]
        elif k == "close":
            closed = [op["c"]]
            if op["c"] in took:
                closed.append(took.pop(op["c"]))
        elif k == "with":
            closed = [op["c"]]
        elif k == "nested":
            closed = [op["inner"], op["outer"]]
        for x in closed:
            live.discard(x)
            c = o["conn"][x]
            held = []
            if c["t_open"] or c["isalive"] or c["chan_t_open"]:
                held.append("transport open")
            if c["log_open"]:
                held.append("channel log handle open")
            if held:
                why = "" if x == op.get("c", x) or k == "nested" else " (commandeered by %s)" % op["c"]
                bad.append((i, "release", "after %s %s (%s): connection %s%s: %s" % (
                    k, op.get("c") or "%s>%s" % (op["outer"], op["inner"]), o["res"], x, why, ", ".join(held))))
        if closed and not live:
            left = []
            if o["handles_open"]:
                left.append("%d channel log file object(s) still open" % o["handles_open"])
            if any(o["log_fds"].values()):
                left.append("fds on channel log files %s" % {n: c for n, c in o["log_fds"].items() if c})
            if o["new_fds"]:
                left.append("file descriptors left %s" % o["new_fds"])
            if o["new_threads"]:
                left.append("threads left %s" % o["new_threads"])
            if any(c["t_open"] or c["isalive"] for c in o["conn"].values()):
                left.append("a transport is open")
            if left:
                bad.append((i, "release", "after %s %s (%s), no connection in use any more: %s" % (
                    k, op.get("c") or "%s>%s" % (op["outer"], op["inner"]), o["res"], "; ".join(left))))
    return bad


SIG_ADOPTED = "c11-reopen-adopted-log"


def signature(sc, i, klass):
    """the listed finding's region: open() of a connection that adopted the commandeered connection's log handle and has
    no channel_log of its own (the closed, adopted handle stays in its channel)"""
    op = sc["ops"][i]
    if klass == "reopen" and op["op"] == "open":
        for prev in sc["ops"][:i]:
            if prev["op"] == "commandeer" and prev["c"] == op["c"] and sc["conns"][prev["of"]].get("log") == "file" \
                    and sc["conns"][op["c"]].get("log") != "file":
                return SIG_ADOPTED
    return "c11-two-%s" % klass


def _clean(sc, name):
    spec = sc["conns"][name]
    h = spec.get("on_open", "default")
    return not (isinstance(h, dict) and h.get("fail"))


# -- generators ----------------------------------------------------------------------------------------
def _fault(rng, phase, c=None, kinds=("drop", "stall", "wdrop")):
    f = {"phase": phase, "kind": rng.choice(list(kinds)), "at": rng.choice([1, 1, 2, 3])}
    if c:
        f["c"] = c
    return f


def _quiet_hook(rng):
    return {"interact": False, "fail": None}


def _base(rng, kind_a, kind_b, plat=None):
    return {"stack": rng.choice(["sync", "async"]), "plat": plat,
            "policy": rng.choice([("whole",), ("bytes", 3), ("random", rng.randint(0, 999), 7)]),
            "conns": {"A": {"kind": kind_a, "log": None}, "B": {"kind": kind_b, "log": None}}, "ops": []}


CLOSE_ORDERS = [("B",), ("A",), ("B", "A"), ("A", "B")]


def gen_commandeer(rng, stack=None, logs=None, order=None):
    kind_b = rng.choice(L.KINDS)
    kind_a = rng.choice(["generic", "generic", kind_b])
    if _platform_of(kind_a) != _platform_of(kind_b):
        kind_a = "generic"
    sc = _base(rng, kind_a, kind_b, _platform_of(kind_b))
    if stack:
        sc["stack"] = stack
    la, lb = logs if logs is not None else (rng.choice(["file", "file", None]), rng.choice(["file", "file", None]))
    sc["conns"]["A"]["log"], sc["conns"]["B"]["log"] = la, lb
    for n in CONNS:
        if rng.random() < 0.25:
            sc["conns"][n]["on_close"] = rng.choice([_quiet_hook(rng), {"interact": True, "fail": None},
                                                      {"interact": False, "fail": rng.choice(["ValueError", "ScrapliTimeout"])}])
    if rng.random() < 0.15:
        sc["no_terminate"] = True
    ops = [{"op": "open", "c": "A"}]
    if rng.random() < 0.5:
        ops.append({"op": "operate", "c": "A"})
    cm = {"op": "commandeer", "c": "B", "of": "A", "execute_on_open": rng.random() < 0.75}
    if cm["execute_on_open"] and rng.random() < 0.2:
        cm["fault"] = _fault(rng, "on_open")
    ops.append(cm)
    for _ in range(rng.choice([0, 1, 1, 2])):
        o = {"op": "operate", "c": rng.choice(["B", "B", "A"])}
        if rng.random() < 0.25:
            o["fault"] = _fault(rng, "operate")
        ops.append(o)
    for c in (order or rng.choice(CLOSE_ORDERS)):
        o = {"op": "close", "c": c}
        if rng.random() < 0.2:
            o["fault"] = _fault(rng, "on_close")
        ops.append(o)
        if rng.random() < 0.15:
            ops.append({"op": "close", "c": c})
    if rng.random() < 0.3:
        c = rng.choice(["B", "A"])
        if c == "B" and la == "file" and lb != "file":
            c = "A"       # known finding c11-reopen-adopted-log (replayed from findings/): the main exploration keeps away
        ops += [{"op": "open", "c": c}, {"op": "operate", "c": c}, {"op": "close", "c": c}]
    sc["ops"] = ops
    return sc


def gen_nested(rng, stack=None, how=None):
    """the inner connection's failure travels through the outer connection's __exit__"""
    kind_a = rng.choice(L.KINDS)
    kind_b = rng.choice(["generic", "generic"] + L.KINDS)
    sc = _base(rng, kind_a, kind_b)     # two independent devices: each connection talks to a device of its own platform
    if stack:
        sc["stack"] = stack
    for n in CONNS:
        sc["conns"][n]["log"] = rng.choice(["file", None])
    if rng.random() < 0.5:
        sc["conns"]["B"]["on_close"] = _quiet_hook(rng)     # the inner exception class survives the inner __exit__
    if rng.random() < 0.3:
        sc["conns"]["A"]["on_close"] = _quiet_hook(rng)
    op = {"op": "nested", "outer": "A", "inner": "B", "outer_ops": rng.choice([0, 1]), "inner_ops": 1,
          "after_ops": 0}
    how = how or rng.choice(["stall", "stall", "raise_timeout", "drop", "raise_other", "none", "outer_fault"])
    if how == "stall":
        op["fault"] = _fault(rng, "body", c="B", kinds=("stall",))
    elif how == "drop":
        op["fault"] = _fault(rng, "body", c="B", kinds=("drop", "wdrop"))
    elif how == "raise_timeout":
        op["inner_exc"] = "ScrapliTimeout"
    elif how == "raise_other":
        op["inner_exc"] = rng.choice(["ValueError", "ScrapliConnectionError", "KeyError"])
    elif how == "outer_fault":
        op["after_ops"] = 1
        op["outer_ops"] = 0
        op["fault"] = _fault(rng, "body", c="A")
    else:
        op["after_ops"] = rng.choice([0, 1])
        op["outer_exc"] = rng.choice([None, "ScrapliTimeout"])
    if rng.random() < 0.25:
        sc["no_terminate"] = True
    sc["ops"] = [op]
    if rng.random() < 0.4:
        c = rng.choice(CONNS)
        sc["ops"] += [{"op": "open", "c": c}, {"op": "close", "c": c}]
    return sc


def gen_no_terminate(rng, stack=None):
    """NO_TERMINATE_ON_TIMEOUT: a timeout raises ScrapliTimeout and leaves the transport open"""
    kind = rng.choice(L.KINDS)
    sc = _base(rng, kind, "generic")
    if stack:
        sc["stack"] = stack
    sc["no_terminate"] = True
    sc["conns"]["A"]["log"] = rng.choice(["file", None])
    if rng.random() < 0.5:
        sc["conns"]["A"]["on_close"] = rng.choice([_quiet_hook(rng), {"interact": True, "fail": None}])
    shape = rng.choice(["with", "with", "open_close", "with_on_open"])
    if shape == "with":
        sc["ops"] = [{"op": "with", "c": "A", "body_ops": rng.choice([1, 2]), "fault": _fault(rng, "body", kinds=("stall",))}]
    elif shape == "with_on_open":
        sc["ops"] = [{"op": "with", "c": "A", "body_ops": 1, "fault": _fault(rng, "on_open", kinds=("stall",))}]
    else:
        sc["ops"] = [{"op": "open", "c": "A"}, {"op": "operate", "c": "A", "fault": _fault(rng, "operate", kinds=("stall",))},
                     {"op": "close", "c": "A"}]
        if rng.random() < 0.5:
            sc["ops"][2]["fault"] = _fault(rng, "on_close", kinds=("stall",))
    if rng.random() < 0.5:
        sc["ops"] += [{"op": "with", "c": "A", "body_ops": 1}]
    return sc


def fixed(rng):
    """every run: both stacks x (A logs, B logs) x close order for commandeer; both stacks x the ways an inner failure
    reaches the outer __exit__; both stacks x NO_TERMINATE_ON_TIMEOUT"""
    out = []
    for stack in ("sync", "async"):
        for logs in ((None, None), ("file", None), (None, "file"), ("file", "file")):
            for order in CLOSE_ORDERS:
                out.append(gen_commandeer(rng, stack, logs, order))
        for how in ("stall", "raise_timeout", "drop", "outer_fault"):
            out.append(gen_nested(rng, stack, how))
        out.append(gen_no_terminate(rng, stack))
        out.append(gen_no_terminate(rng, stack))
    return out


def generate(rng, thorough):
    out = fixed(rng)
    n = 600 if thorough else 120
    for _ in range(n):
        x = rng.random()
        out.append(gen_commandeer(rng) if x < 0.5 else gen_nested(rng) if x < 0.8 else gen_no_terminate(rng))
    return out


def classify(sc):
    ks = {op["op"] for op in sc["ops"]}
    if "commandeer" in ks:
        return "commandeer"
    if "nested" in ks:
        return "nested-with" + ("/no_terminate" if sc.get("no_terminate") else "")
    return "no_terminate"


# ------------------------------------------------------------------------------------------------------
# real resources: two real connections on loopback TCP devices / a real pty child, observed through /proc
# ------------------------------------------------------------------------------------------------------
REAL_TIMEOUT = 0.4


def real_scenarios(rng, thorough):
    """commandeer: no timeouts involved (cheap); nested / no_terminate: one operation timeout (REAL_TIMEOUT) each"""
    cm = [{"shape": "commandeer", "transport": t, "logs": list(logs), "order": list(order)}
          for t in ("telnet", "asynctelnet", "system")
          for logs in ((True, True), (True, False), (False, True)) for order in CLOSE_ORDERS]
    timed = [{"shape": shape, "transport": t} for t in ("telnet", "asynctelnet") for shape in ("nested", "no_terminate")]
    if thorough:
        return cm + timed
    both = [s for s in cm if s["logs"] == [True, True] and s["order"][0] == "B"]
    return [rng.choice([s for s in both if s["transport"] == "telnet"]),
            rng.choice([s for s in both if s["transport"] == "asynctelnet"]),
            rng.choice([s for s in cm if s["transport"] == "system"]), rng.choice(timed)]


def run_real(sc, tmpdir, standin_text):
    import asyncio
    import gc
    import sys
    from scrapli.driver.core import AsyncIOSXEDriver, IOSXEDriver
    from scrapli.driver.generic import AsyncGenericDriver, GenericDriver
    from scrapli.settings import Settings
    transport, shape = sc["transport"], sc["shape"]
    is_async = transport == "asynctelnet"
    factory = lambda: L.SimDevice("cisco_iosxe", outputs={"show version": b"v1"})
    L.reap()
    gc.collect()
    fd0, ch0, th0 = L.fd_snapshot(), L.children(), L.threads()
    servers, logpaths, handles, events, after_close = [], {}, [], [], []
    tag = "%s_%s_%s" % (shape, transport, "".join(sc.get("order", [])) + "".join("ly"[not x] for x in sc.get("logs", [])))

    def mk(name, cls, log, timeout_ops=5.0):
        kw = dict(host="127.0.0.1", auth_bypass=True, timeout_socket=1, timeout_transport=0, timeout_ops=timeout_ops,
                  transport=transport)
        if log:
            logpaths[name] = os.path.join(tmpdir, "real2_%s_%s.log" % (tag, name))
            kw["channel_log"] = logpaths[name]
        if transport == "system":
            d = cls(**kw)
            script = os.path.join(tmpdir, "standin_device.py")
            with open(script, "w") as f:
                f.write(standin_text)
            d.transport.open_cmd = [sys.executable, script, "ok"]
            return d, None
        srv = L.LoopbackDevice(factory, negotiate=b"\xff\xfd\x18\xff\xfb\x01")
        servers.append(srv)
        kw["port"] = srv.port
        return cls(**kw), srv

    def note(*ds):
        for d in ds:
            cl = d.channel.channel_log
            if cl is not None and not any(cl is h for h in handles):
                handles.append(cl)

    loop = asyncio.new_event_loop() if is_async else None
    call = (lambda f, *a, **k: loop.run_until_complete(f(*a, **k))) if is_async else (lambda f, *a, **k: f(*a, **k))
    gen_cls, xe_cls = (AsyncGenericDriver, AsyncIOSXEDriver) if is_async else (GenericDriver, IOSXEDriver)
    saved = Settings.NO_TERMINATE_ON_TIMEOUT
    res, conns = "ok", {}
    try:
        if shape == "commandeer":
            a, _ = mk("A", gen_cls, sc["logs"][0])
            # B is only constructed: nothing of its own is ever opened (its transport object stays unused)
            kwb = dict(host="127.0.0.1", auth_bypass=True, timeout_socket=1, timeout_transport=0, timeout_ops=5.0, transport=transport)
            if sc["logs"][1]:
                logpaths["B"] = os.path.join(tmpdir, "real2_%s_B.log" % tag)
                kwb["channel_log"] = logpaths["B"]
            b = xe_cls(**kwb)
            conns = {"A": a, "B": b}
            own_b = b.transport
            call(a.open)
            note(a, b)
            events.append(("A", call(a.send_command, "show version").result))
            call(b.commandeer, a)
            note(a, b)
            events.append(("B", call(b.send_command, "show version").result))
            for c in sc["order"]:
                try:
                    call(conns[c].close)
                    events.append(("close " + c, "ok"))
                except Exception as e:  # noqa
                    events.append(("close " + c, type(e).__name__))
                note(a, b)
                now = L.fd_snapshot()
                after_close.append({"c": c, "handles_open": sum(1 for h in handles if not h.closed),
                                    "log_fds": {n: sum(1 for v in now.values() if v == p) for n, p in sorted(logpaths.items())}})
            conns["B-own-transport"] = own_b
        else:
            Settings.NO_TERMINATE_ON_TIMEOUT = shape == "no_terminate"
            a, srv_a = mk("A", gen_cls, True, timeout_ops=REAL_TIMEOUT if shape == "no_terminate" else 5.0)
            conns = {"A": a}
            srv_stall = srv_a
            if shape == "nested":
                b, srv_stall = mk("B", gen_cls, True, timeout_ops=REAL_TIMEOUT)
                conns["B"] = b
            if is_async:
                async def go():
                    async with a:
                        note(a)
                        events.append(("A", (await a.send_command("show version")).result))
                        if shape == "nested":
                            async with b:
                                note(b)
                                events.append(("B", (await b.send_command("show version")).result))
                                srv_stall.mode = "silent"
                                await b.send_command("show version")
                        else:
                            srv_stall.mode = "silent"
                            await a.send_command("show version")
                loop.run_until_complete(go())
            else:
                with a:
                    note(a)
                    events.append(("A", a.send_command("show version").result))
                    if shape == "nested":
                        with b:
                            note(b)
                            events.append(("B", b.send_command("show version").result))
                            srv_stall.mode = "silent"
                            b.send_command("show version")
                    else:
                        srv_stall.mode = "silent"
                        a.send_command("show version")
    except Exception as e:  # noqa
        res = type(e).__name__
    finally:
        Settings.NO_TERMINATE_ON_TIMEOUT = saved
    if loop is not None:
        loop.run_until_complete(asyncio.sleep(0.05))
        loop.close()
    for srv in servers:
        srv.shutdown()
    gc.collect()
    fds = L.fd_snapshot()
    held = {}
    for name, d in conns.items():
        t = d if name == "B-own-transport" else d.transport
        h = [x for x in ("session", "socket", "stdin", "stdout", "session_channel") if getattr(t, x, None) is not None]
        if h:
            held[name] = h
    alive = {}
    for name, d in conns.items():
        if name == "B-own-transport":
            continue
        try:
            alive[name] = bool(d.isalive())
        except Exception as e:  # noqa
            alive[name] = "isalive raised %s" % type(e).__name__
    obs = {"res": res, "events": [list(e) for e in events], "held": held, "alive": alive, "after_close": after_close,
           "handles_open": sum(1 for h in handles if not h.closed), "handles_seen": len(handles),
           "log_fds": {n: sum(1 for v in fds.values() if v == p) for n, p in sorted(logpaths.items())},
           "new_fds": sorted(L.fd_new(fd0, fds, ignore=("anon_inode",)).values()),
           "children": [c for c in L.children() if c not in ch0],
           "threads": [x for x in L.threads() if x not in th0]}
    L.reap()
    return obs


def real_oracle(sc, obs):
    """every history here ends with the commandeering connection closed / both connections closed / the with-blocks
    left: nothing may be left — except `commandeer` closed through A only, where B (never closed) may keep what is its own"""
    bad = []
    only_a = sc["shape"] == "commandeer" and sc["order"] == ["A"]
    if obs["held"]:
        bad.append("transport still holds %s" % obs["held"])
    if any(v for v in obs["alive"].values()):
        bad.append("alive: %s" % obs["alive"])
    if obs["children"]:
        bad.append("child processes left: %s" % obs["children"])
    if obs["threads"]:
        bad.append("threads left: %s" % obs["threads"])
    sockets = [f for f in obs["new_fds"] if not f.endswith(".log")]
    if sockets:
        bad.append("file descriptors left open: %s" % sockets)
    if not only_a:
        if obs["handles_open"]:
            bad.append("%d channel log file object(s) still open" % obs["handles_open"])
        logs = [f for f in obs["new_fds"] if f.endswith(".log")]
        if logs or any(obs["log_fds"].values()):
            bad.append("fds on channel log files: %s" % (logs or obs["log_fds"]))
    elif obs["log_fds"].get("A"):
        bad.append("fds on the closed connection's channel log: %s" % obs["log_fds"])
    for x in obs.get("after_close", []):
        # closing the commandeering connection closes the original connection as well (commandeer's contract)
        if x["c"] == "B" and (x["handles_open"] or any(x["log_fds"].values())):
            bad.append("right after close B: %d channel log file object(s) open, fds on log files %s" % (x["handles_open"], x["log_fds"]))
            break
    return bad        # which exception leaves the blocks is not part of the property
