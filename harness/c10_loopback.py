"""C10 helper — in-process loopback SSH servers (asyncssh.listen on 127.0.0.1) that RECORD every
authentication attempt they receive, run on a private event loop in a background thread so that
both the sync (paramiko, system/ssh binary) and the asyncio (asyncssh) transports can connect.

A server is (host key, accept flag).  log entries (canonical tuples):
  ("password", user, password)      SSH_MSG_USERAUTH_REQUEST password reached the server
  ("publickey", user, key-base64)   a publickey request (query or signed) reached the server
  ("kbdint", user)                  keyboard-interactive started
Anything in the log of a server is a credential that crossed the wire."""
import asyncio
import threading

import asyncssh

asyncssh.set_log_level(100)


def gen_key(alg):
    if alg == "ssh-rsa":
        return asyncssh.generate_private_key("ssh-rsa", key_size=2048)
    return asyncssh.generate_private_key(alg)


def pub_b64(key):
    """base64 field of the public key line (what a known_hosts line carries)"""
    return key.export_public_key("openssh").split()[1].decode()


def key_type(key):
    return key.export_public_key("openssh").split()[0].decode()


class _Server(asyncssh.SSHServer):
    def __init__(self, log, accept):
        self._log = log
        self._accept = accept

    def begin_auth(self, username):
        return True

    def password_auth_supported(self):
        return True

    def validate_password(self, username, password):
        self._log.append(("password", username, password))
        return self._accept

    def public_key_auth_supported(self):
        return True

    def validate_public_key(self, username, key):
        self._log.append(("publickey", username, key.export_public_key("openssh").split()[1].decode()))
        return self._accept

    def kbdint_auth_supported(self):
        return False


async def _process(proc):
    proc.stdout.write("r1#")
    try:
        async for line in proc.stdin:
            proc.stdout.write(line + "r1#")
    except Exception:  # noqa
        pass
    proc.exit(0)


class Loopback:
    """background event loop + any number of listening servers"""

    def __init__(self):
        self.loop = asyncio.new_event_loop()
        self.thread = threading.Thread(target=self._run, daemon=True)
        self.thread.start()
        self.servers = []

    def _run(self):
        asyncio.set_event_loop(self.loop)
        self.loop.run_forever()

    def call(self, coro, timeout=30):
        return asyncio.run_coroutine_threadsafe(coro, self.loop).result(timeout)

    def listen(self, host_keys, accept=True):
        """returns (port, log) ; log is appended to from the server thread"""
        log = []

        async def go():
            srv = await asyncssh.listen(
                "127.0.0.1", 0, server_factory=lambda: _Server(log, accept), server_host_keys=host_keys,
                process_factory=_process, encoding="utf-8",
                # old clients (paramiko with rsa-sha2 disabled, as scrapli configures it) sign with ssh-rsa
                signature_algs=["ssh-ed25519", "rsa-sha2-256", "rsa-sha2-512", "ssh-rsa"],
            )
            return srv

        srv = self.call(go())
        port = srv.sockets[0].getsockname()[1]
        self.servers.append(srv)
        return port, log

    def switch(self, backends):
        """one address whose server can be exchanged between two connections (takeover while the client
        is disconnected): a TCP forwarder on 127.0.0.1:<port> that pipes every new connection to the
        backend port currently selected.  backends: name -> port of a listening server.
        Returns (port, select) ; select(name) takes effect for connections accepted afterwards."""
        state = {"to": None}

        async def pipe(r, w):
            try:
                while True:
                    data = await r.read(65536)
                    if not data:
                        break
                    w.write(data)
                    await w.drain()
            except Exception:  # noqa
                pass
            try:
                w.close()
            except Exception:  # noqa
                pass

        async def handle(cr, cw):
            try:
                br, bw = await asyncio.open_connection("127.0.0.1", backends[state["to"]])
            except Exception:  # noqa
                cw.close()
                return
            await asyncio.gather(pipe(cr, bw), pipe(br, cw))

        async def go():
            return await asyncio.start_server(handle, "127.0.0.1", 0)

        srv = self.call(go())
        port = srv.sockets[0].getsockname()[1]
        self.servers.append(srv)

        def select(name):
            if name not in backends:
                raise KeyError(name)

            async def s():
                state["to"] = name

            self.call(s())

        return port, select

    def close(self):
        async def stop():
            for s in self.servers:
                s.close()
            for s in self.servers:
                try:
                    await asyncio.wait_for(s.wait_closed(), 2)
                except Exception:  # noqa
                    pass

        try:
            self.call(stop(), timeout=10)
        except Exception:  # noqa
            pass
        self.loop.call_soon_threadsafe(self.loop.stop)
        self.thread.join(5)
