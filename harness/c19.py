"""C19 — with channel locking on, concurrent operations never interleave.

proof: coq/proofs/Lock_Proofs.v, props/C19.v — (A) every path of every public operation of Channel and
AsyncChannel, as translated from the current source (Gen_Lock.v), is one lock section closed on every
exit; (B) all interleavings of N such paths: mutual exclusion, lock free at the end, no deadlock;
(C) reactive callers over any device with failures anywhere: mutual exclusion, serialisability
(wire trace = whole operations in acquisition order, every caller's outcome = its own sequential
outcome), lock released on every outcome, no deadlock, channel_lock off is a no-op; (D) the lock object
across re-opens of the connection and commandeer(): nothing but the channel's __init__ binds channel_lock
(ast over the channel classes AND every other module of the package), so one holder at a time through any
re-opens / retries; refuted for a lock recreated by open().
tie: Gen_Lock.v regenerated on every run + correspondence `lock-schedules`: the REAL Channel (threads)
and AsyncChannel (tasks) under a controlled scheduler (c19_sched.py), schedules enumerated, failures and
timeouts injected, callers cancelled / timed out with the connection staying up and the others going on
(whatever task the ended operation left behind keeps being scheduled and observed), connection lost +
re-opened + operation retried while others are queued, two-connection histories (a real Driver built with
channel_lock=True commandeers / is commandeered by a Driver built with or without it, then the callers
run on it), interactions ended early by an interaction_complete_pattern before the prompt was read and
send_input_and_read ended by its read_duration over a busy device, each with other callers queued / arriving
(threads the code under test starts are scheduled and observed like the tasks it leaves behind; blocking waits
on them are park points, time is virtual); every observed trace is replayed through the
model's executable step function (vm_compute, Lock.check_run; re-open runs also Lock.oreplay) and judged
by an independent oracle."""
import json
import os
import random
import re
import time

from . import common
from .common import coq_bool, coq_bytes, coq_list

LEVEL = "proof"
SOURCES = ["scrapli/channel/sync_channel.py", "scrapli/channel/async_channel.py",
           "scrapli/channel/base_channel.py", "scrapli/decorators.py",
           "scrapli/driver/base/sync_driver.py", "scrapli/driver/base/async_driver.py", "scrapli/driver/base/base_driver.py"]

OPS = ["get_prompt", "send_input", "send_input_and_read", "send_inputs_interact"]


# --------------------------------------------------------------------------------------------------
# scenarios
# --------------------------------------------------------------------------------------------------
def sgr(text, c):
    """the text as a device that colours its output sends it: every line inside SGR escape sequences (ESC [ 1 ; 3x m ... ESC [ 0 m)"""
    return "\n".join("\x1b[1;3%dm%s\x1b[0m" % (1 + c % 7, ln) for ln in text.split("\n"))


PARTIAL_ESCAPE_AT_END = re.compile(rb"\x1b(\[[0-9;?]*)?$")


def cut_escapes(scn, c):
    """how many reads of caller c's solo operation end INSIDE an escape sequence (the transport cut it) with a further read to come"""
    sc = [bytes.fromhex(h) for k, h in solo(scn, c)["script"] if k == "r"]
    return sum(1 for b in sc[:-1] if PARTIAL_ESCAPE_AT_END.search(b))


def caller_spec(kind, c, variant=0, chunk=0, deco=False):
    """operation of caller c; every caller's commands and outputs carry its own marker (deco: the outputs are decorated
    with SGR escape sequences, which the channel strips: with reads of a few bytes the transport cuts them).
    send_input_and_read with expected_outputs returns AT the expected text by design and leaves the rest
    of the output on the channel for whoever reads next; the scenarios use it only where the expected
    text arrives in the same read as the prompt (whole reads), so that every operation ends at a prompt."""
    tag = "c%d" % c
    if deco:
        spec, outs = caller_spec(kind, c, variant, chunk)
        return spec, {k: sgr(v, c) for k, v in outs.items()}
    if kind == "get_prompt":
        return {"op": "get_prompt"}, {}
    if kind == "send_input":
        cmd = "show %s" % tag
        return {"op": "send_input", "cmd": cmd}, {cmd: "out-%s line1\nout-%s line2" % (tag, tag) if variant else "out-%s" % tag}
    if kind == "send_input_and_read":
        cmd = "read %s" % tag
        spec = {"op": "send_input_and_read", "cmd": cmd}
        if variant and not chunk:
            spec["expected"] = ["done-%s" % tag]
        return spec, {cmd: "data-%s\ndone-%s" % (tag, tag)}
    if kind == "send_inputs_interact":
        cmd = "clear %s" % tag
        ans = "y%s" % tag
        return ({"op": "send_inputs_interact", "events": [[cmd, "[confirm-%s]" % tag, False], [ans, "router1#", False]]},
                {cmd: "Clear %s [confirm-%s]" % (tag, tag), ans: "cleared-%s" % tag})
    if kind == "interact_early":
        # the device refuses the command: the interaction ends on a completion pattern.  With reads of a few bytes the
        # pattern is complete before the rest of the message and the prompt have been read: the operation ends there
        # (by design) and leaves them on the channel for whoever reads next
        cmd = "clear %s" % tag
        ans = "y%s" % tag
        return ({"op": "send_inputs_interact", "events": [[cmd, "[confirm-%s]" % tag, False], [ans, "router1#", False]],
                 "complete": ["Invalid-%s" % tag]},
                {cmd: "%% Invalid-%s input detected at marker" % tag})
    if kind == "read_timed":
        # a command that keeps the device busy (output, no prompt): the operation ends because read_duration is up
        cmd = "tail %s" % tag
        return {"op": "send_input_and_read", "cmd": cmd, "duration": 2.0}, {cmd: "log-%s line1" % tag}
    raise ValueError(kind)


def sp_kind(spec):
    return spec["op"]


def make_scenario(stack, lock, kinds, chunk=0, faults=(), timeouts=None, no_terminate=False, variant=0, silent_after=None, deco=False):
    callers, outputs = [], {}
    for c, k in enumerate(kinds):
        spec, outs = caller_spec(k, c, variant, chunk, deco)
        callers.append(spec)
        outputs.update(outs)
    faults = list(faults) + [{"caller": c, "kind": "duration"} for c, k in enumerate(kinds) if k == "read_timed"]
    scn = {"stack": stack, "lock": lock, "chunk": chunk, "host": "router1", "outputs": outputs, "callers": callers,
           "faults": list(faults)}
    if "read_timed" in kinds:
        scn["busy"] = [sp["cmd"] for sp, k in zip(callers, kinds) if k == "read_timed"]
    if timeouts:
        scn["timeouts"] = {str(k): v for k, v in timeouts.items()}
    if no_terminate:
        scn["no_terminate"] = True
    if silent_after is not None:
        scn["silent_after"] = silent_after
    return scn


_SOLO = {}


def solo(scn, c):
    """caller c alone on a fresh device: its script (what it writes / reads) and its result"""
    from . import c19_impl as I
    # (a read_duration that runs out belongs to the operation itself: alone it runs out the same way)
    own = [{"caller": 0, "kind": "duration"} for f in scn.get("faults", []) if f["kind"] == "duration" and f["caller"] == c]
    key = json.dumps([scn["stack"], scn["lock"], scn["chunk"], scn["callers"][c], scn["outputs"], own, scn.get("busy")], sort_keys=True)
    if key not in _SOLO:
        # (always on a device that answers: a silent device is a failure of the scenario, not of the caller)
        s1 = {"stack": scn["stack"], "lock": scn["lock"], "chunk": scn["chunk"], "host": scn.get("host", "router1"),
              "outputs": scn["outputs"], "callers": [scn["callers"][c]], "faults": own, "busy": scn.get("busy", [])}
        obs = I.run_scenario(s1, [])
        script = [(e[0], e[2]) for e in obs["events"] if e[0] in ("w", "r")]
        _SOLO[key] = {"script": script, "result": obs["results"]["0"], "ok": obs["verdict"] is None and not obs["wedged"],
                      "nio": len(script)}
    return _SOLO[key]


_SEQ = {}


def sequential(scn, order):
    """the callers one after the other in `order` on a fresh device (no concurrency): per caller its script and result"""
    from . import c19_impl as I
    key = json.dumps([scn, list(order)], sort_keys=True)
    if key not in _SEQ:
        obs = I.run_scenario(scn, [], order=list(order))
        _SEQ[key] = {"ok": obs["verdict"] is None and not obs["wedged"], "results": obs["results"],
                     "scripts": {c: [(e[0], e[2]) for e in obs["events"] if e[0] in ("w", "r") and e[1] == c]
                                 for c in range(len(scn["callers"]))}}
    return _SEQ[key]


def real_faults(scn):
    """injected failures (a read_duration that runs out is how the operation is meant to end, not a failure)"""
    return [f for f in scn.get("faults", []) if f["kind"] != "duration"]


def after_leftover(scn, obs):
    """callers that took the lock after an operation that by design may end before the prompt and leave output on the
    channel (an interaction ended by a completion pattern): they find what it left, their reference is the sequential
    run in the order of acquisition, not their solo run"""
    acq = {}
    for i, e in enumerate(obs["events"]):
        if e[0] == "acq" and e[1] not in acq:
            acq[e[1]] = i
    return {c for c in acq for d in acq if d != c and scn["callers"][d].get("complete") and acq[d] < acq[c]}


def acquisition_order(scn, obs):
    order = []
    for e in obs["events"]:
        if e[0] == "acq" and e[1] not in order:
            order.append(e[1])
    return order + [c for c in range(len(scn["callers"])) if c not in order]


# --------------------------------------------------------------------------------------------------
# the independent oracle (knows nothing of the Coq model)
# --------------------------------------------------------------------------------------------------
def attempt_of(events):
    """per event: which attempt of its caller it belongs to (a caller that re-opens and retries runs two operations)"""
    att, out = {}, []
    for e in events:
        if e[0] == "reopen":
            att[e[1]] = att.get(e[1], 0) + 1
        out.append(att.get(e[1], 0) if len(e) > 1 else 0)
    return out


def io_runs(events):
    """operations (caller, or [caller, attempt] for a retry) of the successive wire events, collapsed into runs"""
    runs = []
    att = attempt_of(events)
    for i, e in enumerate(events):
        if e[0] in ("w", "r", "x"):
            key = e[1] if not att[i] else "%d/retry" % e[1]
            if not runs or runs[-1] != key:
                runs.append(key)
    return runs


def first_fault_index(events):
    for i, e in enumerate(events):
        if e[0] in ("x", "cancel", "kill", "timeout", "close"):
            return i
    return None


def oracle(scn, obs):
    """list of (signature, text) — empty when the property holds on this observation"""
    bad = []
    ev = obs["events"]
    n = len(scn["callers"])
    if obs["wedged"]:
        return [("harness-wedged", "the controlled run wedged: %s" % obs["wedged"])]
    want_type = None if not scn["lock"] else ("_thread.lock" if scn["stack"] == "sync" else "asyncio.locks.Lock")
    if obs["lock_created"] != want_type:
        bad.append(("lock-creation", "channel_lock=%s but the channel created %s" % (scn["lock"], obs["lock_created"])))
    if not scn["lock"]:
        return bad
    faulty = bool(real_faults(scn))
    if obs["verdict"] == "deadlock":
        bad.append(("deadlock", "a caller waits for the channel lock and nobody who could release it is left "
                                "(lock held at the end: %s)" % (obs["lock_free_at_end"] is False)))
    elif (obs["verdict"] == "starved" and obs.get("stuck_owner") is not None
          and ["timeout", obs["stuck_owner"]] in [list(e) for e in ev]):
        # the operation timed out and still keeps the lock: the next caller is blocked by it
        if scn["stack"] == "sync" and scn.get("no_terminate"):
            bad.append(("thread-noterm-stalled-holder",
                        "thread-pool timeout with NO_TERMINATE_ON_TIMEOUT over a silent device: caller %d's operation timed out, its worker "
                        "still holds the channel lock (and the caller itself is stuck joining it): the next caller is blocked" % obs["stuck_owner"]))
        else:
            bad.append(("timed-out-holder", "caller %d's operation timed out and still holds the channel lock: the next caller is blocked"
                        % obs["stuck_owner"]))
    elif obs["verdict"] == "starved" and not faulty:
        bad.append(("starved", "a caller waits for device output that never comes although nothing failed "
                               "(its output went to another caller)"))
    elif obs["verdict"] == "budget":
        bad.append(("budget", "the run did not end within the step budget"))
    if obs["lock_free_at_end"] is False and obs["verdict"] is None:
        bad.append(("lock-held-at-end", "every caller is through and the channel lock is still held"))
    # bytes never interleave on the wire: every caller's wire events are one contiguous run
    runs = io_runs(ev)
    if len(runs) != len(set(runs)):
        bad.append(("interleaved", "wire events of different callers interleave: order of callers on the wire %s" % runs))
    # the lock protocol as observed, over the WHOLE log (also after an operation has failed / been cancelled
    # and ended: a task it left behind is I/O by a caller that holds nothing): transport events only by the
    # holder, one holder at a time whichever lock object the channel refers to at the moment
    holder = None
    for e in ev:
        if e[0] == "acq":
            if holder is not None:
                bad.append(("double-acquire", "caller %d acquired the lock while caller %d holds it" % (e[1], holder)))
            holder = e[1]
        elif e[0] == "rel":
            holder = None
        elif e[0] in ("w", "r", "x") and holder != e[1]:
            bad.append(("io-outside-lock", "caller %d touches the transport while the lock is held by %s" % (e[1], holder)))
            break
    for c, kind in obs.get("pending_io", []):
        bad.append(("io-outside-lock", "caller %d's operation has ended and a task it left behind is still inside transport.%s()" % (c, kind)))
    # each caller gets exactly its own output, and puts exactly its own operation on the wire
    strict = strict_callers(scn, obs)
    att = attempt_of(ev)
    for c in range(n):
        res = obs["results"].get(str(c))
        if res is None:
            if obs["verdict"] is None:
                bad.append(("no-result", "caller %d never ended" % c))
            continue
        s = solo(scn, c)
        last = max([att[i] for i, e in enumerate(ev) if len(e) > 1 and e[1] == c] or [0])
        if last:
            # the attempts before the re-open failed: each is a prefix of the solo operation
            for a in range(last):
                part = [(e[0], e[2]) for i, e in enumerate(ev) if e[0] in ("w", "r") and e[1] == c and att[i] == a]
                if part != s["script"][:len(part)]:
                    bad.append(("wrong-wire", "caller %d's failed attempt is not a prefix of its solo operation" % c))
        mine = [(e[0], e[2]) for i, e in enumerate(ev) if e[0] in ("w", "r") and e[1] == c and att[i] == last]
        if strict[c] == "full":
            if res != s["result"]:
                bad.append(("wrong-result", "caller %d got %r, alone it gets %r" % (c, res, s["result"])))
            if mine != s["script"]:
                bad.append(("wrong-wire", "caller %d's wire events differ from its solo operation" % c))
        elif strict[c] == "prefix":
            if mine != s["script"][:len(mine)]:
                bad.append(("wrong-wire", "failing caller %d's wire events are not a prefix of its solo operation" % c))
        elif strict[c] == "seq":
            order = acquisition_order(scn, obs)
            ref = sequential(scn, order)
            if not ref["ok"]:
                bad.append(("no-reference", "the callers one after the other in the order %s do not all end" % order))
            else:
                if res != ref["results"][str(c)]:
                    bad.append(("wrong-result", "caller %d got %r, in the sequential run in the order of acquisition %s it gets %r"
                                % (c, res, order, ref["results"][str(c)])))
                if mine != ref["scripts"][c]:
                    bad.append(("wrong-wire", "caller %d's wire events differ from those of the sequential run in the order of acquisition %s"
                                % (c, order)))
    # a connection built with channel_lock=True serialises its callers for its whole life: whatever happened to
    # it before the callers came (it commandeered another connection / was commandeered) and whatever happens
    # while they run (failures, re-opens), its channel refers to a lock object of the right kind
    for when, text in (("lock_at_start", "when the callers start"), ("lock_at_end", "when the run ends")):
        if when in obs and obs[when] != want_type:
            bad.append(("lock-unbound", "the connection was built with channel_lock=True and %s its channel's channel_lock is %s%s"
                        % (text, obs[when], " (after the commandeer history %s)" % json.dumps(scn["commandeer"], sort_keys=True)
                           if scn.get("commandeer") else "")))
            break
    return bad


def interleaved(obs):
    runs = io_runs(obs["events"])
    return len(runs) != len(set(runs))


# --------------------------------------------------------------------------------------------------
# canonical model trace
# --------------------------------------------------------------------------------------------------
def model_trace(scn, obs):
    """events of Lock.v's reactive model"""
    out = []
    n = len(scn["callers"])
    holding, pending, acquired, gone = set(), set(), set(), set()
    lock = scn["lock"]
    vid = {}                       # caller -> its id in the model: a retry after a re-open is a further caller of the model
    nv = n
    for e in obs["events"]:
        k, c = e[0], e[1]
        if k == "reopen":
            vid[c] = nv
            nv += 1
            continue
        c = vid.get(c, c)
        if k == "acq":
            out.append(("EAcq", c)); holding.add(c); acquired.add(c)
        elif k in ("w", "r"):
            if not lock and c not in acquired:
                out.append(("EAcq", c)); holding.add(c); acquired.add(c)
            out.append(("EWr" if k == "w" else "ERd", c, bytes.fromhex(e[2])))
        elif k == "x":
            if not lock and c not in acquired:
                out.append(("EAcq", c)); holding.add(c); acquired.add(c)
            pending.add(c)
        elif k in ("cancel", "kill") or (k == "timeout" and scn["stack"] == "async"):
            # (a timeout / cancellation delivered to a caller in the lock queue shows as its own "cancel" event;
            #  the thread-pool timeout does not interrupt the worker: how its operation ends is seen at its release)
            if c in holding:
                pending.add(c)
            elif c not in acquired and k == "cancel":
                out.append(("EGiveUp", c)); gone.add(c)
        elif k == "rel":
            out.append(("EFault" if c in pending else "ERel", c)); holding.discard(c); gone.add(c)
        elif k == "end":
            if not lock and c in holding:
                out.append(("EFault" if (c in pending or e[2] != "ok") else "ERel", c)); holding.discard(c); gone.add(c)
            elif c not in acquired and c not in gone:
                out.append(("EGiveUp", c)); gone.add(c)
    return out


def coq_ev(e):
    if e[0] in ("EWr", "ERd"):
        return "%s %d %s" % (e[0], e[1], coq_bytes(e[2]))
    return "%s %d" % (e[0], e[1])


def coq_script(script):
    return coq_list(["%s %s" % ("IW" if k == "w" else "IR", coq_bytes(bytes.fromhex(h))) for k, h in script])


def retried(obs):
    """callers that re-opened the connection, in the order of their re-opens"""
    return [e[1] for e in obs["events"] if e[0] == "reopen"]


def strict_callers(scn, obs):
    """callers whose wire events must be those of their solo run: everybody when nothing fails; with a
    failure, the callers that ended before it (a failed operation may leave output behind for the
    later ones) and the failing callers themselves (prefix).  Re-open scenarios (a lost connection, the
    failing caller brings it back and retries): the retry itself and every operation that took the
    lock after the re-open run on a fresh session and must be whole."""
    ev = obs["events"]
    if retried(obs):
        ro = [i for i, e in enumerate(ev) if e[0] == "reopen"]
        ff = first_fault_index(ev)
        out = {}
        for c in range(len(scn["callers"])):
            acq = [i for i, e in enumerate(ev) if e[0] == "acq" and e[1] == c]
            end = [i for i, e in enumerate(ev) if e[0] == "end" and e[1] == c]
            if c in retried(obs):
                out[c] = "full" if retried(obs).count(c) == 1 and len(ro) == 1 else "free"
            elif (end and end[0] < ff) or (acq and len(ro) == 1 and acq[0] > ro[0]):
                out[c] = "full"
            else:
                out[c] = "free"
        return out
    ff = first_fault_index(ev)
    clean = all(f["kind"] == "boom" and f.get("at") == 0 and not f.get("sticky", True) for f in real_faults(scn))
    ended = {e[1]: i for i, e in enumerate(ev) if e[0] == "end"}
    left = after_leftover(scn, obs)
    out = {}
    for c in range(len(scn["callers"])):
        hit = any(f["caller"] == c for f in real_faults(scn))
        before = ff is None or (c in ended and ended[c] < ff)
        out[c] = "full" if (before or (clean and not hit)) else ("prefix" if (hit and scn.get("silent_after") is None) else "free")
        if c in left:
            # (what the earlier operation left on the channel is read by this one)
            out[c] = "seq" if not real_faults(scn) else "free"
    return out


def case_term(scn, obs):
    strict = strict_callers(scn, obs)
    scripts = []
    att = attempt_of(obs["events"])
    rt = retried(obs)
    for c in range(len(scn["callers"])):
        if strict[c] in ("free", "seq") and c not in rt:
            scripts.append([(e[0], e[2]) for e in obs["events"] if e[0] in ("w", "r") and e[1] == c])
        else:
            scripts.append(solo(scn, c)["script"])       # (a failed first attempt: the model checks the prefix)
    for j, c in enumerate(rt):
        # the retry after the j-th re-open is caller n+j of the model
        nth = rt[:j + 1].count(c)
        if strict[c] == "free":
            scripts.append([(e[0], e[2]) for i, e in enumerate(obs["events"]) if e[0] in ("w", "r") and e[1] == c and att[i] == nth])
        else:
            scripts.append(solo(scn, c)["script"])
    tr = model_trace(scn, obs)
    return "(%s, %s, %s)" % (coq_bool(scn["lock"]), coq_list([coq_script(s) for s in scripts]),
                             coq_list([coq_ev(e) for e in tr]))


HEADER = """From Verif Require Import Bytes Lock.
Open Scope N_scope.
Definition chk (c : bool * list script * list ev) : bool :=
  let '(en, scripts, tr) := c in check_run en scripts tr.
"""


OHEADER = """From Verif Require Import Bytes Lock.
Open Scope nat_scope.
Definition ochk (c : nat * list oev) : bool :=
  match oreplay false (oinit (fst c)) (snd c) with Some cf => Nat.eqb (holders cf) 0 | None => false end.
"""


def reopen_term(scn, obs):
    """the run as a trace of Lock.v layer D (lock identity across re-opens): the channel is opened once
    before the callers start; a caller binds to the channel's lock object when it enters its lock section"""
    tr = ["OOpen"]
    if scn.get("commandeer"):
        tr.append("OOpen")          # commandeer(): a step of the connection's life outside any lock section
    for e in obs["events"]:
        k, c = e[0], e[1]
        if k == "acq":
            tr += ["OArrive %d" % c, "OAcq %d" % c]
        elif k in ("w", "r", "x"):
            tr.append("OIo %d" % c)
        elif k == "rel":
            tr.append("ORel %d" % c)
        elif k == "reopen":
            tr += ["OOpen", "OAgain %d" % c]
    return "(%d, %s)" % (len(scn["callers"]), coq_list(tr))


# --------------------------------------------------------------------------------------------------
# exploration
# --------------------------------------------------------------------------------------------------
def random_choices(rng, length=400):
    return [rng.randrange(0, 6) for _ in range(length)]


def schedules(scn, rng, dfs_limit, n_random):
    """(choices, observation) for the DFS enumeration (up to dfs_limit) then n_random seeded schedules;
    the third element tells whether the DFS was exhaustive"""
    from . import c19_impl as I
    seen = set()
    exhaustive = True
    count = 0
    for ch, obs in I.explore(scn, limit=dfs_limit + 1):
        count += 1
        if count > dfs_limit:
            exhaustive = False
            break
        seen.add(tuple(ch))
        yield ch, obs, True
    schedules.last_exhaustive = exhaustive
    if exhaustive:
        return
    for _ in range(n_random):
        obs = I.run_scenario(scn, random_choices(rng))
        ch = [c[0] for c in obs["choices"]]
        if tuple(ch) in seen:
            continue
        seen.add(tuple(ch))
        yield ch, obs, False


def fault_variants(scn, rng, thorough):
    """fault placements for a lock-on scenario: every transport call of the first caller raising
    (sticky), a clean non-sticky failure of the first write, timeouts at reads (terminate / not),
    timeout while waiting for the lock"""
    out = []
    n0 = solo(scn, 0)["nio"]
    ks = list(range(n0)) if thorough else sorted(set([0, 1, n0 - 1] + [rng.randrange(n0)]))
    for k in ks:
        out.append(({"faults": [{"caller": 0, "at": k, "kind": "raise"}]}, "raise@%d" % k))
    out.append(({"faults": [{"caller": 0, "at": 0, "kind": "boom", "sticky": False}]}, "boom-clean"))
    out.append(({"faults": [{"caller": len(scn["callers"]) - 1, "at": rng.randrange(solo(scn, len(scn["callers"]) - 1)["nio"]), "kind": "boom"}]}, "boom-last"))
    reads = [i for i, (k, _) in enumerate(solo(scn, 0)["script"]) if k == "r"]
    if scn["stack"] == "sync":
        points = list(range(n0))
    else:
        points = reads
    tk = points if thorough else sorted(set([points[0], points[-1], rng.choice(points)]))
    for k in tk:
        for nt in (False, True):
            out.append(({"faults": [{"caller": 0, "at": k, "kind": "timeout"}], "timeouts": {"0": 1000},
                         "no_terminate": nt}, "timeout%s@%d" % ("-noterm" if nt else "", k)))
    last = len(scn["callers"]) - 1
    for nt in (False, True):
        out.append(({"faults": [{"caller": last, "kind": "timeout_lockwait"}], "timeouts": {str(last): 1000},
                     "no_terminate": nt}, "timeout-lockwait%s" % ("-noterm" if nt else "")))
    return out


def io_points(scn, c=0):
    """(all transport calls, the reads among them) of caller c's solo operation"""
    sc = solo(scn, c)["script"]
    return list(range(len(sc))), [i for i, (k, _) in enumerate(sc) if k == "r"]


def pick_points(points, rng, every):
    """every point, or: the last one (the whole operation but its end has happened) and a random inner one"""
    if every or len(points) <= 2:
        return list(points)
    return sorted(set([points[-1], rng.choice(points[1:-1])]))


def ended_early_variants(scn, rng, every):
    """(i) caller 0's operation is ended from outside at a point of its operation while the connection stays
    up, the other callers go on: asyncio — the task is cancelled (at a transport read / in the lock queue) or
    its timeout_ops elapses with NO_TERMINATE_ON_TIMEOUT; threads — timeout_ops elapses with NO_TERMINATE_ON_TIMEOUT"""
    out = []
    allp, reads = io_points(scn, 0)
    if scn["stack"] == "async":
        for k in pick_points(reads, rng, every):
            out.append(({"faults": [{"caller": 0, "at": k, "kind": "cancel"}]}, "cancel@%d" % k))
        for k in ([rng.choice(reads[len(reads) // 2:])] if not every else reads):
            out.append(({"faults": [{"caller": 0, "at": k, "kind": "timeout"}], "timeouts": {"0": 1000}, "no_terminate": True},
                        "timeout-noterm@%d" % k))
        last = len(scn["callers"]) - 1
        if every or rng.randrange(4) == 0:
            out.append(({"faults": [{"caller": last, "kind": "cancel_lockwait"}]}, "cancel-lockwait"))
    else:
        for k in (allp if every else [rng.choice(allp[len(allp) // 2:])]):
            out.append(({"faults": [{"caller": 0, "at": k, "kind": "timeout"}], "timeouts": {"0": 1000}, "no_terminate": True},
                        "timeout-noterm@%d" % k))
    return out


def reopen_variants(scn, rng, every):
    """(ii) the connection is lost at a transport call of caller 0 (sticky: everything fails from then on);
    caller 0 re-opens it and runs its operation again while the others are queued on the lock / arrive"""
    allp, _ = io_points(scn, 0)
    return [({"faults": [{"caller": 0, "at": k, "kind": "raise"}]}, "reopen@%d" % k)
            for k in (allp if every else [rng.choice(allp[1:])])]


def every9(thorough, tie_broken):
    return thorough or tie_broken


def with_retry(scn, c=0):
    s = json.loads(json.dumps(scn))
    s["callers"][c]["retry"] = True
    return s


def with_faults(scn, upd):
    s = json.loads(json.dumps(scn))
    s.update(json.loads(json.dumps(upd)))
    return s


# --------------------------------------------------------------------------------------------------
def run(rep):
    from gen import gen_lock

    rng = rep.rng
    thorough = rep.tier == "thorough"
    t_start = time.time()
    # 1. regenerate from the source
    info = {}
    try:
        _, info = gen_lock.generate(rep.workdir)
        rc, out, _ = common.coqc(os.path.join(rep.workdir, "Gen_Lock.v"), rep.workdir)
        if rc:
            rep.broken.append("Gen_Lock.v")
            rep.notes.append(out[-2000:])
    except Exception as e:  # translator aborted: broken tie; nothing stale may be used instead
        rep.broken.append("gen_lock:%s" % e)
        for fn in ("Gen_Lock.v", "Gen_Lock.vo", "Gen_Lock.glob", "C19.vo"):
            try:
                os.remove(os.path.join(rep.workdir, fn))
            except OSError:
                pass
    # 2. proofs
    ok, _ = rep.build_static()
    rep.add_static_obligations("props/C19.v", ok)
    if not ok:
        rep.broken.append("static-build")
    if ok and not any(b.startswith("gen_lock") or b == "Gen_Lock.v" for b in rep.broken):
        pok, _ = rep.compile_props("props/C19.v")
        if pok and thorough:
            rc, out, _ = common.sh(["timeout", "900", "coqchk", "-o", "-silent", "-Q", common.COQ, "Verif", "-Q", rep.workdir, "Gen", "Gen.C19"],
                                   cwd=rep.workdir, timeout=1000)
            rep.coverage["coqchk"] = ("ok: " + " ".join(out.split())[-200:]) if rc == 0 else "FAILED"
            if rc:
                rep.broken.append("coqchk props/C19.vo")
                rep.notes.append(out[-1500:])
    else:
        # the property theorems could not even be attempted: they count as undischarged
        txt = common.strip_comments(open(os.path.join(common.COQ, "props/C19.v")).read())
        rep.obligations += [("C19.v", m.group(2)) for m in common.OBLIGATION.finditer(txt)]
    tie_broken = bool(rep.broken)
    # 3. correspondence + oracle
    effort = 2 if tie_broken else 1            # a broken obligation: search harder for a failing input
    budget = (540 if thorough else 130)        # seconds of exploration (the unchanged tree needs about a quarter)
    cases, terms = [], []
    ocases, oterms = [], []
    dist = {"scenarios": 0, "runs": 0, "by_stack": {"sync": 0, "async": 0}, "by_callers": {}, "by_fault": {},
            "by_op": {k: 0 for k in OPS}, "exhaustive_scenarios": 0, "sampled_scenarios": 0,
            "lock_off_runs": 0, "lock_off_interleaved": 0, "verdicts": {}, "max_schedule_len": 0,
            "decision_points_gt1": 0}
    violations = []          # (sig, text, replay)
    nonvac = {"sync": False, "async": False}

    def do_scenario(scn, label, dfs_limit, n_random, judge=True, force=False):
        if len(violations) >= 4:
            return              # enough concrete failing inputs: no need to go on exploring
        # the budget is wall-clock (a loaded machine uses it up sooner): what it skips is exploration, never the
        # non-vacuity runs (force=True) — a skipped run must not turn into an alarm
        if not force and time.time() - t_start > budget:
            dist["skipped_over_budget"] = dist.get("skipped_over_budget", 0) + 1
            return
        dist["scenarios"] += 1
        nfound, found_wired = 0, False
        for c in range(len(scn["callers"])):
            if not solo(scn, c)["ok"]:
                rep.broken.append("solo run of %s failed" % scn["callers"][c]["op"])
                return
        for ch, obs, _ in schedules(scn, rng, dfs_limit, n_random):
            dist["runs"] += 1
            dist["by_stack"][scn["stack"]] += 1
            dist["by_callers"][len(scn["callers"])] = dist["by_callers"].get(len(scn["callers"]), 0) + 1
            dist["by_fault"][label] = dist["by_fault"].get(label, 0) + 1
            dist["verdicts"][str(obs["verdict"])] = dist["verdicts"].get(str(obs["verdict"]), 0) + 1
            dist["max_schedule_len"] = max(dist["max_schedule_len"], len(ch))
            multi = sum(1 for x in obs["choices"] if x[1] > 1)
            dist["decision_points_gt1"] += multi
            for sp in scn["callers"]:
                dist["by_op"][sp["op"]] += 1
            rep.case((json.dumps(scn, sort_keys=True), tuple(ch)), nontrivial=len(scn["callers"]) > 1 and multi > 0)
            if not scn["lock"]:
                dist["lock_off_runs"] += 1
                if interleaved(obs):
                    dist["lock_off_interleaved"] += 1
                    nonvac[scn["stack"]] = True
            if obs["wedged"]:
                rep.broken.append("harness wedged: %s" % obs["wedged"])
                rep.notes.append("wedged on %s choices %s" % (json.dumps(scn), ch))
                return
            bad = oracle(scn, obs) if judge else []
            # the first two failing schedules, and the first one whose failure shows ON THE WIRE if those do not
            wired = any(sig == "interleaved" for sig, _ in bad)
            if bad and (nfound < 2 or (wired and not found_wired and nfound < 3)):
                nfound += 1
                found_wired = found_wired or wired
                shown = bad[:3] + [b for b in bad[3:] if b[0] == "lock-unbound"]
                violations.append((bad[0][0], "; ".join(t for _, t in shown),
                                   {"suite": "lock-schedules", "scenario": scn, "choices": ch, "label": label,
                                    "failures": [list(b) for b in bad], "events": obs["events"], "results": obs["results"],
                                    "rerun": "./check C19 --replay <this file>"}))
            # the model is asked about every run it has an opinion on: complete runs, and lock-off runs
            if obs["verdict"] is None:
                terms.append(case_term(scn, obs))
                cases.append({"scenario": scn, "choices": ch, "label": label, "oracle_bad": bool(bad)})
                # layer D: every re-open run; of the commandeer histories those with a re-open and a sample of the others
                # (without a re-open their layer-D traces are plain acquire / event / release sequences)
                if scn["lock"] and (label in ("reopen", "commandeer+reopen")
                                    or (scn.get("commandeer") and dist["by_fault"][label] <= (400 if thorough else 60))):
                    oterms.append(reopen_term(scn, obs))
                    ocases.append(cases[-1])
            if len(rep.samples) < 3 and len(scn["callers"]) > 1 and multi > 2:
                rep.sample({"scenario": {k: scn[k] for k in ("stack", "lock", "chunk", "callers", "faults")}, "choices": ch,
                            "events": [e for e in obs["events"]][:40], "results": obs["results"]})
        if getattr(schedules, "last_exhaustive", False):
            dist["exhaustive_scenarios"] += 1
        else:
            dist["sampled_scenarios"] += 1

    # corpus: the fixed / known findings first
    for f in rep.findings:
        p = os.path.join(common.VERIF, f["replay"])
        if os.path.exists(p):
            r = json.load(open(p))
            still = replay_scenario(r)
            rep.case(("finding", f["id"]))
            if f.get("kind") == "known":
                if any(sig == f["signature"] for sig, _ in still):
                    rep.known(f["signature"])
                else:
                    rep.notes.append("known finding %s does not reproduce any more" % f["id"])
                still = [b for b in still if b[0] != f["signature"]]
            if still:
                if f.get("kind") == "known":
                    violations.append((still[0][0], "replay of %s fails in another way: %s" % (f["id"], still[0][1]),
                                       {"suite": "lock-schedules", "scenario": r["scenario"], "choices": r.get("choices", []),
                                        "label": "finding:" + f["id"], "failures": [list(b) for b in still]}))
                else:
                    violations.append((f["signature"], "fixed finding %s is back: %s" % (f["id"], still[0][1]),
                                       {"suite": "lock-schedules", "scenario": r["scenario"], "choices": r.get("choices", []),
                                        "label": "finding:" + f["id"], "failures": [list(b) for b in still]}))

    stacks = ["sync", "async"]
    # F1: every ordered pair of operations, both stacks, lock on, no faults — exhaustive
    for stack in stacks:
        for a in OPS:
            for b in OPS:
                for chunk, variant in ((0, 0), (9, 1)) if (thorough or (OPS.index(a) + OPS.index(b)) % 2 == 0) else ((0, 0),):
                    scn = make_scenario(stack, True, [a, b], chunk=chunk, variant=variant)
                    do_scenario(scn, "none", 600 * effort, 40 * effort)
    # F11: devices that DECORATE their output (SGR escape sequences around every line, which the channel strips) read in chunks of a
    # few bytes, so that the transport cuts escape sequences between two reads of the lock holder: the channel then keeps per-channel
    # READ STATE across the holder's reads (the held-back start of a sequence).  All schedules: the other caller starts / queues for
    # the lock between any two reads of the holder.  Oracle unchanged: each caller's result = its solo / sequential result -- nothing
    # a caller does before it holds the lock may touch what the operation in flight has read so far.
    rng11 = random.Random("C19-decorated-%s" % rep.seed)      # (own stream: derived from the seed only)
    t11 = time.time()
    dist["decorated"] = {"scenarios": 0, "reads_cut_inside_escape": 0}

    def decorated(stack, kinds, chunk, dfs, nrand, upd=None, label="decorated"):
        scn = make_scenario(stack, True, kinds, chunk=chunk, variant=1, deco=True)
        cuts = sum(cut_escapes(scn, c) for c in range(len(kinds)))
        if any(k != "get_prompt" for k in kinds) and not cuts:
            rep.broken.append("generator: no read of the decorated scenario %s chunk %d ends inside an escape sequence" % (kinds, chunk))
        dist["decorated"]["scenarios"] += 1
        dist["decorated"]["reads_cut_inside_escape"] += cuts
        do_scenario(with_faults(scn, upd) if upd else scn, label, dfs, nrand)

    for stack in stacks:
        for i, a in enumerate(OPS):
            for j, b in enumerate(OPS):
                # (a broken tie does not widen this family: the exploration budget is the older families')
                if thorough:
                    for chunk in (5, 7):     # (chunk 3 makes traces long enough for the model shards to run out of memory)
                        decorated(stack, [a, b], chunk, 600 * effort, 40 * effort)
                elif i <= j:
                    # (the two callers of a scenario start in either order: an unordered pair covers both as holder / as queued)
                    decorated(stack, [a, b], (5, 7)[(i + j + rep.seed) % 2], 600 * effort, 40 * effort)
        for _ in range(4 if thorough else 1):
            kinds = [rng11.choice(OPS[1:]), rng11.choice(OPS), rng11.choice(OPS[1:])]
            decorated(stack, kinds, rng11.choice([5, 7]), (300 if thorough else 60) * effort, (30 if thorough else 20) * effort)
        if stack == "async" or thorough:
            # an operation ended from outside while it holds back the start of a sequence; the next caller starts clean or
            # reads on, as in the sequential run (judged as in F6)
            scn = make_scenario(stack, True, [rng11.choice(OPS[1:]), rng11.choice(OPS[1:])], chunk=5, variant=1, deco=True)
            upd, label = rng11.choice(ended_early_variants(scn, rng11, False))
            decorated(stack, [sp_kind(sp) for sp in scn["callers"]], 5, 200 * effort, 20 * effort, upd, "decorated+" + label.split("@")[0])
    dist["decorated"]["explore_s"] = round(time.time() - t11, 1)
    # F8: two-connection histories.  Connection B (built with channel_lock=True) commandeers connection A (built with
    # / without channel locking; the real Driver.commandeer / AsyncDriver.commandeer), then 2..3 callers run
    # concurrently on B -- or on A, the commandeered connection, where A was built with the lock --: the
    # connection built with channel_lock=True serialises its callers for its whole life, whatever the other
    # connection of the history was built with; also with an operation ended early / the connection lost,
    # re-opened and the operation retried on the commandeering connection.
    rng8 = random.Random("C19-commandeer-%s" % rep.seed)      # (own stream: derived from the seed only)
    rng_main, rng = rng, rng8
    for stack in stacks:
        pairs8 = [(a, b) for a in OPS for b in OPS]
        rng8.shuffle(pairs8)
        hist = [{"a_lock": False, "b_lock": True, "on": "B"}, {"a_lock": True, "b_lock": True, "on": "B"},
                {"a_lock": True, "b_lock": True, "on": "A"}, {"a_lock": True, "b_lock": False, "on": "A"}]
        for i, (a, b) in enumerate(pairs8 if (thorough or tie_broken) else pairs8[:2]):
            for h in (hist if (thorough or tie_broken or i == 0) else [hist[0], hist[1 + rng8.randrange(3)]]):
                scn = make_scenario(stack, True, [a, b], chunk=rng8.choice([0, 7, 9]), variant=rng8.randrange(2))
                scn["commandeer"] = dict(h)
                do_scenario(scn, "commandeer", 300 * effort, 30 * effort)
        kinds = [rng8.choice(OPS) for _ in range(3)]
        scn = make_scenario(stack, True, kinds, chunk=rng8.choice([0, 7]), variant=1)
        scn["commandeer"] = dict(hist[rng8.randrange(2)])
        do_scenario(scn, "commandeer", 120 * effort, 40 * effort)
        scn = make_scenario(stack, True, [rng8.choice(OPS), rng8.choice(OPS)], chunk=rng8.choice([5, 7, 9]), variant=1)
        scn["commandeer"] = dict(hist[0])
        upd, label = rng8.choice(ended_early_variants(scn, rng8, False))
        do_scenario(with_faults(scn, upd), "commandeer+" + label.split("@")[0], 200 * effort, 20 * effort)
        scn = with_retry(make_scenario(stack, True, [rng8.choice(OPS), rng8.choice(OPS)], chunk=rng8.choice([0, 7]), variant=rng8.randrange(2)))
        scn["commandeer"] = dict(hist[rng8.randrange(2)])
        upd, label = rng8.choice(reopen_variants(scn, rng8, False))
        do_scenario(with_faults(scn, upd), "commandeer+reopen", 200 * effort, 20 * effort)
    rng = rng_main
    # F9: an interaction that ends early on an interaction_complete_pattern BEFORE the device's prompt has been read (reads of a
    # few bytes: the rest of the refusal message and the prompt are still to come) with a second caller waiting for / arriving at
    # the lock: whatever the operation does after the pattern it does inside its lock section; the later callers are judged
    # against the sequential run in the order of acquisition (they read what the interaction left behind).
    # F10: send_input_and_read that ends because read_duration runs out over a busy device (output, no prompt: a read is
    # pending when the time is up), followed by / queued with another operation: nothing of the ended operation -- no reader
    # thread or task it started -- reads the channel afterwards.
    rng9 = random.Random("C19-early-duration-%s" % rep.seed)      # (own stream: derived from the seed only)
    for stack in stacks:
        for special, label, chunks in (("interact_early", "early-end", (5, 7)), ("read_timed", "duration", (0, 7))):
            for b in OPS + ([special] if every9(thorough, tie_broken) else []):
                scn = make_scenario(stack, True, [special, b], chunk=rng9.choice(chunks), variant=rng9.randrange(2))
                do_scenario(scn, label, 600 * effort, 40 * effort)
            for a in (OPS if every9(thorough, tie_broken) else [rng9.choice(OPS)]):
                scn = make_scenario(stack, True, [a, special], chunk=rng9.choice(chunks), variant=rng9.randrange(2))
                do_scenario(scn, label, 600 * effort, 40 * effort)
            for _ in range(3 if every9(thorough, tie_broken) else 1):
                kinds = [rng9.choice(OPS), special, rng9.choice(OPS + ["interact_early", "read_timed"])]
                rng9.shuffle(kinds)
                scn = make_scenario(stack, True, kinds, chunk=rng9.choice(chunks[-1:]), variant=1)
                do_scenario(scn, label, (300 if thorough else 100) * effort, 30 * effort)
            if special == "interact_early":
                # (the generator's claim: alone, the interaction ends before the prompt has been read)
                so = solo(make_scenario(stack, True, [special], chunk=chunks[0]), 0)
                dist["early_end_before_prompt"] = dist.get("early_end_before_prompt", 0) + int(
                    so["ok"] and so["result"][0] == "tuple" and b"router1#" not in bytes.fromhex(so["result"][1]))
    # F6: an operation ended from outside with the connection staying up (task cancelled / NO_TERMINATE timeout) at
    # a point of the operation, the other callers go on; output in several reads.  The observer (transport events
    # only by the lock holder) runs over the whole log: whatever a failed operation leaves behind (a shielded /
    # detached reader) is scheduled like a caller until the run ends.
    # F7: connection lost, the failing caller re-opens it (transport.open + channel.open) and retries while the
    # others are queued on the lock or arrive: one holder at a time whichever lock object the channel refers to.
    every = thorough or tie_broken
    rng_main, rng = rng, random.Random("C19-ended-reopen-%s" % rep.seed)   # (own stream: derived from the seed only)
    for stack in stacks:
        firsts = list(OPS) if (stack == "async" or every) else [rng.choice(OPS)]
        for a in firsts:
            scn = make_scenario(stack, True, [a, rng.choice(OPS)], chunk=rng.choice([5, 7, 9]), variant=1)
            for upd, label in ended_early_variants(scn, rng, every):
                do_scenario(with_faults(scn, upd), label.split("@")[0], 300 * effort, 20 * effort)
            scn = with_retry(make_scenario(stack, True, [a, rng.choice(OPS)], chunk=rng.choice([0, 7]), variant=rng.randrange(2)))
            for upd, label in reopen_variants(scn, rng, every):
                do_scenario(with_faults(scn, upd), "reopen", 300 * effort, 20 * effort)
        if every:
            for _ in range(4):
                kinds = [rng.choice(OPS) for _ in range(3)]
                scn = make_scenario(stack, True, kinds, chunk=rng.choice([0, 7]), variant=1)
                fv = ended_early_variants(scn, rng, False)
                upd, label = rng.choice(fv)
                do_scenario(with_faults(scn, upd), label.split("@")[0], 150, 40)
                scn = with_retry(scn)
                upd, label = rng.choice(reopen_variants(scn, rng, False))
                do_scenario(with_faults(scn, upd), "reopen", 150, 40)
    rng = rng_main
    # F2: failures and timeouts — exhaustive schedules per placement
    pairs = [(a, b) for a in OPS for b in OPS]
    rng.shuffle(pairs)
    pairs = pairs if thorough else pairs[:5 * effort]
    for stack in stacks:
        for (a, b) in pairs:
            scn = make_scenario(stack, True, [a, b], chunk=rng.choice([0, 0, 11]), variant=rng.randrange(2))
            for upd, label in fault_variants(scn, rng, thorough):
                do_scenario(with_faults(scn, upd), label.split("@")[0], 300 * effort, 20 * effort)
    # F3: three and four callers — exhaustive where small, seeded random beyond
    for i in range((60 if thorough else 10) * effort):
        stack = stacks[i % 2]
        kinds = [rng.choice(OPS) for _ in range(rng.choice([3, 3, 4]))]
        scn = make_scenario(stack, True, kinds, chunk=rng.choice([0, 0, 13]), variant=rng.randrange(2))
        if i % 3 == 2:
            fv = fault_variants(scn, rng, False)
            upd, label = rng.choice(fv)
            do_scenario(with_faults(scn, upd), label.split("@")[0], (600 if thorough else 120) * effort, (80 if thorough else 40) * effort)
        else:
            do_scenario(scn, "none", (600 if thorough else 120) * effort, (80 if thorough else 40) * effort)
    # F5: the device goes silent in the middle (the situation timeouts exist for): the timeout of a caller
    # elapses when nobody can step.  Thread-pool mechanism + NO_TERMINATE_ON_TIMEOUT is the region of the
    # known finding (replayed above), the exploration keeps out of it.
    for stack in stacks:
        for kinds in ([["send_input", "get_prompt"], ["get_prompt", "send_input_and_read"], ["send_inputs_interact", "send_input", "get_prompt"]]
                      + ([[rng.choice(OPS) for _ in range(rng.choice([2, 3]))] for _ in range(6)] if thorough else [])):
            for who in (0, len(kinds) - 1):
                for nt in ((False,) if stack == "sync" else (False, True)):
                    scn = make_scenario(stack, True, kinds, chunk=rng.choice([0, 7]), silent_after=rng.choice([0, 3, 9, 14, 25, 40]),
                                        faults=[{"caller": who, "kind": "timeout_stuck"}], timeouts={who: 1000}, no_terminate=nt)
                    do_scenario(scn, "stall" + ("-noterm" if nt else ""), 200 * effort, 30 * effort)
    # F4: lock off — the scheduler really interleaves (non-vacuity); the model with the lock off must
    # accept what happens; no verdict of the property is drawn from these runs
    for stack in stacks:
        for kinds in ([["send_input", "send_input"], ["get_prompt", "send_input_and_read"], ["send_inputs_interact", "get_prompt"]]
                      + ([[rng.choice(OPS) for _ in range(3)] for _ in range(4)] if thorough else [])):
            scn = make_scenario(stack, False, kinds)
            do_scenario(scn, "lock-off", 150 if thorough else 60, 40, force=True)
    for stack in stacks:
        if not nonvac[stack]:
            rep.broken.append("scheduler never interleaved two %s callers with the lock off (vacuous exploration)" % stack)

    # the model's opinion
    t_explored = time.time()
    bad_ix, log = common.eval_cases(rep.workdir, "cases_c19", HEADER, terms, "chk", shard=max(300, -(-len(terms) // common.JOBS)))
    obad_ix, olog = common.eval_cases(rep.workdir, "cases_c19_reopen", OHEADER, oterms, "ochk", shard=4000)
    t_model = time.time()
    if obad_ix is None:
        rep.broken.append("correspondence reopen-lock-identity (model evaluation failed)")
        rep.notes.append(olog)
    else:
        oshown = [ocases[i] for i in obad_ix if not ocases[i]["oracle_bad"]]
        for c in oshown[:3]:
            rep.notes.append("layer D (one lock object across re-opens) rejects an observed trace the oracle accepts: %s choices %s"
                             % (json.dumps(c["scenario"]), c["choices"]))
        if oshown:
            rep.broken.append("correspondence reopen-lock-identity: model rejects %d observed traces the oracle accepts" % len(oshown))
    rep.coverage["correspondence_reopen"] = {"suite": "reopen-lock-identity", "cases": len(oterms),
                                             "model_disagreements": None if obad_ix is None else len(obad_ix)}
    rep.coverage["correspondence"] = {"suite": "lock-schedules", "cases": len(terms), "distribution": dist,
                                      "model_disagreements": None if bad_ix is None else len(bad_ix),
                                      "oracle_failures": len(violations), "search_effort": effort}
    rep.coverage["wall_parts"] = {"gen_proofs_explore_s": round(t_explored - t_start, 1), "model_eval_s": round(t_model - t_explored, 1)}
    rep.coverage["generated_from"] = common.source_hashes(SOURCES)
    rep.coverage["generated"] = info
    rep.coverage["not_covered"] = ["signal (SIGALRM) timeout mechanism: callers never run on the main thread",
                                   "driver.read_callback and the platform on_close hooks use channel.write/read/send_return directly, "
                                   "outside any lock section (outside the property's four operations)"]
    rep.rule = ("scenario = stack x 2..4 callers each one of get_prompt/send_input/send_input_and_read/send_inputs_interact "
                "(own marker per caller) x read chunking x failure (none | k-th transport call of a caller raises, sticky or clean | "
                "timeout at a parked read/write, closing or NO_TERMINATE | timeout while waiting for the lock | asyncio task cancelled at a "
                "read / in the lock queue | connection lost + re-open (channel.close, transport.open, channel.open) and retry by the failing caller) "
                "x device output plain | decorated (every line inside SGR escape sequences, reads of 3/5/7 bytes: >= 1 read of the holder ends inside a sequence, "
                "counted in coverage `decorated`) "
                "x operation ending before the prompt (send_inputs_interact with interaction_complete_patterns over a device that refuses the command, reads of "
                "5/7 bytes so that the pattern is complete before the rest of the message and the prompt are read | send_input_and_read with read_duration "
                "over a busy device -- output, no prompt --: the duration runs out at a read that is pending on the silent device) as first / second / "
                "middle caller with every other operation "
                "x history of the connection (built and opened | two real Drivers: B built with channel_lock=True commandeers A built with / without "
                "it and the callers use B, or the callers use the commandeered A built with it; also with an early end / loss + re-open + retry); "
                "cancellation / NO_TERMINATE timeout / loss at every point of the operation in the thorough tier or when a tie is broken, at sampled "
                "points — always one after the whole operation but its end — in the quick tier; "
                "every transport call, lock wait, caller start and re-open is a scheduler decision, tasks left behind by an ended "
                "operation are scheduled until the run ends; DFS over all decisions (exhaustive for every 2-caller scenario), "
                "seeded random schedules where the DFS bound is hit; distinct = (scenario, schedule); non-trivial = >= 2 callers and "
                ">= 1 decision with more than one option")
    for sig, text, rp in violations[:6]:
        rep.violation("C19 %s: %s" % (sig, text), rp, signature=sig)
    if bad_ix is None:
        rep.broken.append("correspondence lock-schedules (model evaluation failed)")
        rep.notes.append(log)
    elif bad_ix:
        shown = 0
        for ix in bad_ix:
            c = cases[ix]
            if c["oracle_bad"]:
                continue          # already a violation with its own replay
            if shown < 3:
                rep.notes.append("model rejects an observed trace the oracle accepts: %s choices %s" % (json.dumps(c["scenario"]), c["choices"]))
            shown += 1
        if shown:
            rep.broken.append("correspondence lock-schedules: model rejects %d observed traces the oracle accepts" % shown)
    if rep.broken and not violations:
        # a tie is broken and nothing failed so far: one more focused search with fresh random schedules
        for stack in stacks:
            for a in OPS:
                for b in OPS:
                    scn = make_scenario(stack, True, [a, b, rng.choice(OPS)], chunk=rng.choice([0, 5]))
                    for upd, label in fault_variants(scn, rng, False)[:4] + [({}, "none")]:
                        s2 = with_faults(scn, upd)
                        from . import c19_impl as I
                        for _ in range(25):
                            obs = I.run_scenario(s2, random_choices(rng))
                            bad = oracle(s2, obs)
                            if bad and not obs["wedged"]:
                                rep.violation("C19 %s: %s" % (bad[0][0], "; ".join(t for _, t in bad[:3])),
                                              {"suite": "lock-schedules", "scenario": s2, "choices": [c[0] for c in obs["choices"]],
                                               "label": label, "failures": [list(x) for x in bad]}, signature=bad[0][0])
                                return


# --------------------------------------------------------------------------------------------------
def replay_scenario(r):
    """re-run a recorded (scenario, choices); returns the oracle's failures"""
    from . import c19_impl as I
    scn = r["scenario"]
    obs = I.run_scenario(scn, r.get("choices", []))
    return oracle(scn, obs)


def replay(path):
    r = json.load(open(path))
    if "scenario" not in r:
        print("nothing to replay (no concrete input): %s" % r.get("what"))
        return 1
    from . import c19_impl as I
    scn = r["scenario"]
    obs = I.run_scenario(scn, r.get("choices", []))
    print("scenario:", json.dumps({k: scn[k] for k in ("stack", "lock", "commandeer", "chunk", "callers", "faults") if k in scn}))
    if scn.get("commandeer"):
        h = scn["commandeer"]
        print("history : connection A built with channel_lock=%s has the session; connection B built with channel_lock=%s "
              "calls B.commandeer(A); the callers then use connection %s" % (h["a_lock"], h["b_lock"], h["on"]))
        print("lock    : created by the callers' connection: %s; its channel's channel_lock when the callers start: %s, at the end: %s"
              % (obs["lock_created"], obs["lock_at_start"], obs["lock_at_end"]))
    print("schedule:", [c[0] for c in obs["choices"]])
    print("events  :", " ".join("%s%d" % (e[0], e[1]) + ("" if len(e) < 3 or e[0] in "wr" else ":" + str(e[2])) for e in obs["events"]))
    print("results :", obs["results"], "verdict:", obs["verdict"], "lock free at end:", obs["lock_free_at_end"])
    bad = oracle(scn, obs)
    for sig, text in bad:
        print("FAILS   : [%s] %s" % (sig, text))
    print("property holds on this input" if not bad else "property FAILS on this input")
    return 1 if bad else 0


MANIFEST = {
    "category": "proof",
    "text": "Coq (props/C19.v, axiom-free). (A) Gen_Lock.v, regenerated from the source on every run, holds the `_channel_lock` context "
            "manager and the six public operations of Channel and AsyncChannel as terms (helpers inlined down to self.transport.<call>()); "
            "obligations by computation: the context manager acquires before the body and releases on the normal AND the exceptional exit, "
            "every transport call lies in exactly one lock section, no nesting, one section per call, the lock is created iff channel_lock; "
            "theorem: EVERY path of every operation (any branch, any loop count, any call raising, cancellation) is `acquire; transport events; "
            "release` or empty; no public operation writes an attribute of the channel object (per-channel read state: the held-back partial "
            "escape sequence, buffers) outside its lock section, directly or through helpers / properties (ast scan, gen_state_written_outside_lock_*). (B) all interleavings of ANY number of such paths of ANY length: a transport event of k happens only while k "
            "holds the lock, the lock is free when all are through, some caller can always step. (C) reactive callers over ANY device with "
            "failures at ANY point: mutual_exclusion, serialisable (wire trace = concatenation of whole operations in acquisition order, device "
            "and every caller's outcome = those of the sequential run), schedule_independent, lock_released (any outcome frees the lock, the "
            "next caller proceeds), no_deadlock, disabled_is_noop (+ interleaving reachable with the lock off); timeout_unblocks (the timeout of a "
            "holder stalled on a silent device frees the lock) proved where the timeout ends the operation, the full statement REFUTED for thread "
            "pool + NO_TERMINATE_ON_TIMEOUT (known finding C19-thread-noterm-stalled-holder, replayed on the real code). (D) lock identity across "
            "re-opens: callers bind to the lock object the channel refers to when they enter their section, `channel.open()` may happen at any time; "
            "Gen_Lock.v says (ast over the whole class bodies AND over every other module of the package — drivers incl. commandeer(), factory, transports: "
            "any `x.channel_lock = ...` / del / setattr / delattr) that nothing but the channel's __init__ binds channel_lock, hence at most one holder and transport "
            "events only by that holder through any number of re-opens, failures and retries (reopen_mutual_exclusion); the statement for an "
            "arbitrary open() REFUTED (lock recreated on open: the caller queued on the old object and the retry on the new one hold together). Tie: the real Channel (threads) "
            "and AsyncChannel (tasks) run 2-4 concurrent callers of get_prompt/send_input/send_input_and_read/send_inputs_interact under a "
            "controlled scheduler (every transport call, lock wait and start is a decision; all schedules of every 2-caller scenario, DFS+random "
            "beyond), with injected transport failures, timeouts and a device that goes silent (real timeout_wrapper: thread pool / wait_for), with a caller's "
            "task cancelled at a read / in the lock queue or timed out under NO_TERMINATE_ON_TIMEOUT while the others go on over the same connection "
            "(any task the ended operation left behind — shielded / detached readers — is scheduled like a caller and observed until the run ends), and with "
            "the connection lost, re-opened (transport.open + channel.open) and the operation retried by the failing caller while others are queued on the "
            "lock (every lock object ever bound to channel_lock is instrumented; a waiter stays on the object it waits for), and on two-connection "
            "histories: real Driver / AsyncDriver objects, B built with channel_lock=True commandeers (the real commandeer()) A built with or without "
            "channel locking, then 2-3 concurrent callers use B — or the commandeered A where A was built with the lock —, also with an operation ended "
            "early / the connection lost, re-opened and the operation retried; every trace is replayed "
            "through the model's step function by vm_compute (check_run, proved sound; a retry is a further caller of the model; re-open runs also through "
            "layer D's oreplay); devices that DECORATE their output (every line inside SGR escape sequences) read in chunks of 3/5/7 bytes, so that the "
            "transport cuts escape sequences between two reads of the lock holder and the channel carries read state (the held-back start of a sequence) "
            "across them while the other callers start / queue for the lock at every point (every pair of operations, both stacks, all schedules; 3 callers; "
            "an operation ended from outside), each caller's result = its solo result; operations that END BEFORE THE PROMPT with other callers queued / arriving: send_inputs_interact with "
            "interaction_complete_patterns over a device that refuses the command, read in chunks so that the pattern is complete before the rest of "
            "the message and the prompt are read (later callers are judged against the sequential run of the same callers in the order of "
            "acquisition: they read what the interaction left), and send_input_and_read whose read_duration runs out over a busy device (output, no "
            "prompt; virtual time: the channel modules' time.time() and the transport's read timeout are the scheduler's); a thread the code "
            "under test starts (a reader thread) is scheduled like a caller and observed until the run ends, a blocking wait on it (Queue.get / "
            "Event.wait / Thread.join / Future.result, timed or not) is a park point that the scheduler may let elapse when the duration is due; "
            "every trace is judged by an independent oracle (no interleaving on the wire — per operation, a retry is its own operation —, each "
            "caller's result and wire events = its solo run, lock free at the end, no deadlock, one holder at a time over all lock objects, a connection "
            "built with channel_lock=True still refers to a lock object of the right kind when its callers start and when the run ends — it serialises "
            "its callers for its whole life, whatever it commandeered or was commandeered by —, and no "
            "transport call outside a lock section EVER: performed or still pending when the run ends, by the caller or by anything it left behind).",
    "note": "Decorated outputs: the Coq model has no channel read state (held-back partial escape sequence, buffers) -- it replays the wire "
            "events of those runs like any other; that every caller's RESULT is its own output is the oracle's verdict there (oracle-only). The state-write "
            "scan is syntactic: writes through an alias of self or inside a foreign callable that is handed self are reported as `self handed to`, writes by "
            "the timeout_wrapper decorator (it runs before the lock is taken) are not scanned. Early-ending operations: the interaction ended by a completion pattern and the read ended by its duration are paths of the translated "
            "shapes (break / loop exit inside the lock section), their traces go through check_run like any other (the callers after an early-ended "
            "interaction with their observed scripts, their results being the oracle's business: sequential reference run). A transport read that times "
            "out (event rt) and an elapsed wait (event elapse) are not transport events of the model. Threads started by the code under test are, "
            "like orphaned tasks, outside the Coq model (oracle-only). Only Queue.get / Event.wait / Thread.join / Future.result are virtualised: code "
            "that blocks a caller's thread on another primitive (a bare Condition / Lock / select) while a thread of its own is parked makes the run "
            "wedge (reported as harness-wedged, no verdict). The duration scenarios exist for both stacks; under asyncio a timed wait on a sub-task "
            "(asyncio.wait_for on a shielded read) is NOT virtualised beyond the existing timeout_ops deadline jump. "
            "Partial in this sense: threading.Lock / asyncio.Lock themselves, contextlib's generator protocol and the interpreter are observed, "
            "not proved (the instrumented lock only delegates acquire(False)/locked()/release() to the lock the channel created; which waiter "
            "gets a free lock is a scheduler choice, a superset of both lock implementations); the channel under test is an instance of a subclass of the "
            "real class whose only addition is a __setattr__ wrapping any lock object bound to channel_lock. Tasks left behind by an ended operation "
            "(orphaned readers) are outside the Coq model: the model has no such step, so it rejects those traces, and the verdict on them is the oracle's "
            "(oracle-only). Layer D abstracts operations to acquire / transport event / release and `open()` to its effect on the attribute; the re-open "
            "of the scripted transport starts a fresh session (pending output of the old one dropped). Two-connection histories: the drivers are the real "
            "base Driver / AsyncDriver (telnet / asynctelnet plugin objects, never opened) whose channel class is the instrumented subclass; connection A's session "
            "is the scripted transport attached the way A.open() leaves it (no login dialogue is run), B.commandeer(A) is the real method (on_open hooks: none); "
            "callers run on ONE of the two connections per scenario (callers spread over both connections have two locks by design: outside the property). The Coq "
            "model has no commandeer step of its own: the callers' trace after it goes through check_run like any other, and layer D counts commandeer() as "
            "one more [OOpen] (a life-cycle step outside a lock section, lock object left alone because the package-wide ast tie says nothing rebinds it); a "
            "commandeer that UNBINDS the lock (channel_lock = None) is outside layer D's premise and its verdict is the oracle's (oracle-only). The package-wide "
            "scan aborts on computed-name setattr / delattr / vars() / __dict__ / __setattr__ only in modules that name a channel anywhere; a module that never "
            "names one (ssh_config.py) is taken not to reach a channel. Cancellation of a caller is an asyncio fault "
            "(threads cannot be cancelled; their analogue is the NO_TERMINATE timeout, whose worker finishes the operation before the caller returns). "
            "The shape translation over-approximates control "
            "flow and is syntactic (aliasing of the transport or of an I/O method aborts it). Timeouts: the thread-pool mechanism runs the "
            "operation — and takes the lock — on a worker; with NO_TERMINATE_ON_TIMEOUT the worker carries the whole operation through before the "
            "caller sees ScrapliTimeout, and over a silent device it never ends and keeps the lock (known finding, shared root with C07-thread-noterm-join); its clock (`scrapli.decorators.wait`) and the event loop's clock are driven by "
            "the scheduler. Not covered: the SIGALRM mechanism (main thread only); read_callback and on_close hooks, which use the channel "
            "primitives outside any lock section and are outside the property's operations; send_input_and_read with expected_outputs ends at the "
            "expected text by design and leaves the rest of the output to the next reader (scenarios use it only where it ends at the prompt). Section variables of layer C: device and operations "
            "are arbitrary (no hypotheses).",
    "technique": "Coq: inductive path semantics of generated program shapes + invariants over unbounded interleavings (induction on traces); "
                 "stateless model checking of the real code under a deterministic scheduler; vm_compute replay of observed traces",
}
