"""C20 helper — RE-OPEN histories on ONE driver object: open -> login / on_open / operations -> close -> open again -> ... (2-3
sessions), through the real Driver.open / close (AsyncDriver likewise) over the scripted transport of c20_driver.

Every session has its own device script (banner + in-channel login + motd + prompt + on_open + operations); a non-final
session may go silent inside its login (the user gives up, closes and opens again).  The channel_log destination is
configured ONCE on the driver object: a path, True (./scrapli_channel.log), a plain BytesIO (which channel.close()
closes: the same closed object is handed to the next session), a BytesIO whose close() keeps it usable (a user's
subclass, the way to read the log after close()), or none; write / append mode; previous content.

Observers: the wire record per session, every channel.open() / channel.close(), and a SNAPSHOT of the destination after
every close (file bytes / BytesIO value) — so the oracle decides every session, not only the last one:
  * file, append : snapshot j == snapshot j-1 (previous content before the first) + the bytes served in session j, CRs removed
  * file, write  : snapshot j == the bytes served in session j alone (every open starts the file anew)
  * BytesIO      : snapshot j == snapshot j-1 + the bytes served in session j that its channel could log — a read whose
                   operation RAISED (the log object is closed: ValueError, loud) logs nothing; a read whose operation
                   completed and whose bytes are in no log is the failure (silent loss)
  * none         : no file appears."""
import io
import os
import re
import shutil

from .c20_driver import BANNERS, CMDS, COMBOS, MOTDS, PROMPTS, KeepBytesIO, VirtualTimeLoop, _cut, _driver_class, _op_response

SINKS = ["path", "path", "true", "true", "bytesio-open", "bytesio", "none"]


class OpenBytesIO(io.BytesIO):
    """a BytesIO whose close() leaves it usable: what a user hands over to look at the log after the connection closed"""

    def close(self):
        self.flush()


def _login_phases(rng, transport, user, prompt, refused=False):
    phases = []
    banner, motd = rng.choice(BANNERS), rng.choice(MOTDS)
    if "telnet" in transport:
        phases.append(banner + rng.choice([b"Username: ", b"login: ", b"Username:"]))
        phases.append(rng.choice([b"", user.encode() + b"\r\n"]) + rng.choice([b"Password: ", b"password:"]))
    else:
        kind = rng.choice(["password", "password", "passphrase", "both", "key"])
        if kind in ("passphrase", "both"):
            phases.append(banner + b"Enter passphrase for key '/home/u/.ssh/id_ed25519': ")
            banner = b""
        if kind in ("password", "both"):
            phases.append(banner + rng.choice([user.encode() + b"@dev1's password: ", b"Password: "]))
            banner = b""
        motd = banner + motd
    phases.append(b"\r\n" + motd + prompt)
    return phases


def gen_reopen_case(rng, i, gen_chunk):
    stack, transport = COMBOS[i % len(COMBOS)]
    driver = rng.choice(["base", "base", "generic"])
    bypass = rng.random() < 0.3
    prompt = rng.choice(PROMPTS)
    user, password = rng.choice(["scrapli", "u"]), rng.choice(["secret", "p%'w"])
    on_open = [rng.choice([["send_input", "terminal length 0"], ["get_prompt"]])] if rng.random() < 0.3 else []
    nsess = rng.choice([2, 2, 2, 3])
    sessions = []
    for j in range(nsess):
        fault = "silent" if (j < nsess - 1 and not bypass and rng.random() < 0.12) else "none"
        chunks = []
        if not bypass:
            for p in _login_phases(rng, transport, user, prompt):
                chunks += _cut(rng, p)
        n_login = len(chunks)
        ops = []
        for _ in range(rng.choice([0, 1, 1, 2, 3]) if (j or not bypass) else rng.choice([1, 2, 3])):
            k = rng.choice(["get_prompt", "send_input", "read", "read"] + (["send_command"] if driver == "generic" else []))
            ops.append([k] if k in ("get_prompt", "read") else [k, rng.choice(CMDS)])
        for op in on_open + ops:
            if op[0] == "read":
                chunks.append(gen_chunk(rng))
            else:
                for ph in _op_response(rng, op, prompt):
                    chunks += _cut(rng, ph, 4)
        if fault == "silent" and n_login:
            chunks = chunks[:rng.randrange(0, n_login)]
        sessions.append({"fault": fault, "chunks": [c.hex() for c in chunks], "login_chunks": n_login, "ops": ops})
    sink = rng.choice(SINKS)
    has_existing = rng.random() < 0.5
    existing = rng.choice([b"old\r\n", b"\x1b[0mprev", b"x"]) if has_existing else b""
    return {"stack": stack, "transport": transport, "driver": driver, "bypass": bypass, "user": user, "password": password,
            "host": rng.choice(["dev1", "10.0.0.1"]), "port": rng.choice([22, 23, 2323]), "uid": rng.choice(["", "u1"]),
            "sink": sink, "append": rng.random() < 0.5, "has_existing": has_existing, "existing": existing.hex(),
            "on_open": on_open, "sessions": sessions}


def run_reopen_impl(case, workdir):
    from .c20 import Starved, _Quiet, _tmp
    d = _tmp(workdir, "reopen")
    os.makedirs(d, exist_ok=True)
    existing = bytes.fromhex(case["existing"])
    sink, mode = case["sink"], ("append" if case["append"] else "write")
    path = bio = None
    if sink == "path":
        path = os.path.join(d, "my channel.log")
        arg = path
    elif sink == "true":
        path = os.path.join(d, "scrapli_channel.log")
        arg = True
    elif sink == "bytesio":
        bio = KeepBytesIO(existing)
        bio.seek(0, 2)
        arg = bio
    elif sink == "bytesio-open":
        bio = OpenBytesIO(existing)
        bio.seek(0, 2)
        arg = bio
    else:
        arg = False
    if path is not None and case["has_existing"]:
        with open(path, "wb") as f:
            f.write(existing)
    sync = case["stack"] == "sync"
    script, events = [], []
    cur = {"sess": 0, "op": None}
    sess_obs = []
    left_open = False

    def nxt():
        if not script:
            raise Starved()
        c = script.pop(0)
        events.append(("r", cur["sess"], c.hex(), cur["op"]))
        return c

    def one_sync(conn, op):
        if op[0] == "read":
            return conn.channel.read()
        if op[0] == "get_prompt":
            return conn.channel.get_prompt().encode()
        if op[0] == "send_input":
            return conn.channel.send_input(op[1])[1]
        if op[0] == "send_command":
            return conn.send_command(op[1]).raw_result
        raise ValueError(op)

    async def one_async(conn, op):
        if op[0] == "read":
            return await conn.channel.read()
        if op[0] == "get_prompt":
            return (await conn.channel.get_prompt()).encode()
        if op[0] == "send_input":
            return (await conn.channel.send_input(op[1]))[1]
        if op[0] == "send_command":
            return (await conn.send_command(op[1])).raw_result
        raise ValueError(op)

    def on_open_sync(conn):
        for op in case["on_open"]:
            one_sync(conn, tuple(op))

    async def on_open_async(conn):
        for op in case["on_open"]:
            await one_async(conn, tuple(op))

    def outcome(res, name, r=None, e=None):
        if e is None:
            res.append((name, r.hex() if isinstance(r, bytes) else None, False))
        else:     # Starved: the device has nothing more to say (a real read would block) — not an error of the operation
            res.append((name, "Starved" if isinstance(e, Starved) else type(e).__name__, not isinstance(e, Starved)))

    def snapshot():
        if bio is not None:
            v = bio.kept if (bio.closed and isinstance(bio, KeepBytesIO)) else bio.getvalue()
            return None if v is None else v.hex()
        if path is not None and os.path.exists(path):
            return open(path, "rb").read().hex()
        return None

    cwd = os.getcwd()
    os.chdir(d)
    exc = None
    try:
        with _Quiet():
            conn = _driver_class(case)(
                host=case["host"], port=case["port"], auth_username=case["user"], auth_password=case["password"],
                auth_private_key_passphrase=case["password"], auth_strict_key=False, auth_bypass=case["bypass"],
                transport=case["transport"], timeout_ops=0, timeout_transport=0, timeout_socket=0,
                channel_log=arg, channel_log_mode=mode, logging_uid=case["uid"],
                on_open=(on_open_sync if sync else on_open_async) if case["on_open"] else None)
            tr = conn.transport
            if sync:
                tr.open = lambda: events.append(("topen", cur["sess"], "", None))
                tr.read = nxt
            else:
                async def _topen():
                    events.append(("topen", cur["sess"], "", None))

                async def _tread():
                    return nxt()
                tr.open, tr.read = _topen, _tread
            tr.write = lambda channel_input: events.append(("w", cur["sess"], bytes(channel_input).hex(), cur["op"]))
            tr.close = lambda: events.append(("tclose", cur["sess"], "", None))
            tr.isalive = lambda: True
            real_open, real_close = conn.channel.open, conn.channel.close

            def observed_open():
                events.append(("open", cur["sess"], "", None))
                return real_open()

            def observed_close():
                events.append(("close", cur["sess"], "", None))
                return real_close()
            conn.channel.open, conn.channel.close = observed_open, observed_close

            def begin(j, sess):
                cur.update(sess=j, op=None)
                del script[:]
                script.extend(bytes.fromhex(c) for c in sess["chunks"])

            if sync:
                for j, sess in enumerate(case["sessions"]):
                    begin(j, sess)
                    res = []
                    steps = [("open", conn.open)] + [(op[0], (lambda op=op: one_sync(conn, tuple(op)))) for op in sess["ops"]] + [("close", conn.close)]
                    for n, (name, fn) in enumerate(steps):
                        cur["op"] = n
                        try:
                            outcome(res, name, fn())
                        except Starved as e:
                            outcome(res, name, e=e)
                        except Exception as e:  # noqa
                            outcome(res, name, e=e)
                    sess_obs.append({"results": res, "snapshot": snapshot()})
            else:
                async def go():
                    for j, sess in enumerate(case["sessions"]):
                        begin(j, sess)
                        res = []
                        steps = [("open", conn.open)] + [(op[0], (lambda op=op: one_async(conn, tuple(op)))) for op in sess["ops"]] + [("close", conn.close)]
                        for n, (name, mk) in enumerate(steps):
                            cur["op"] = n
                            try:
                                outcome(res, name, await mk())
                            except Starved as e:
                                outcome(res, name, e=e)
                            except Exception as e:  # noqa
                                outcome(res, name, e=e)
                        sess_obs.append({"results": res, "snapshot": snapshot()})
                loop = VirtualTimeLoop()
                try:
                    loop.run_until_complete(go())
                finally:
                    loop.close()
            lg = getattr(conn.channel, "channel_log", None)       # a handle no close() released (never on the reference)
            try:
                if lg is not None and not isinstance(lg, io.BytesIO) and not lg.closed:
                    left_open = True
                    lg.close()
            except Exception:  # noqa
                pass
    except Exception as e:  # noqa
        exc = type(e).__name__
    finally:
        os.chdir(cwd)
    final = snapshot()
    stray = sorted(f for f in os.listdir(d) if path is None or f != os.path.basename(path))
    shutil.rmtree(d, ignore_errors=True)
    for j, so in enumerate(sess_obs):
        so["served_chunks"] = [c for k, s, c, _ in events if k == "r" and s == j]
        # the reads of operations that completed (or starved: the device has nothing more to say) — an operation that RAISED lost its bytes loudly
        raised = set(n for n, r in enumerate(so["results"]) if r[2])
        so["served"] = [[c, n in raised] for k, s, c, n in events if k == "r" and s == j]
        so["chan_opens"] = sum(1 for k, s, _, _ in events if k == "open" and s == j)
    return {"sessions": sess_obs, "events": events, "exc": exc, "stray_files": stray, "final": final, "left_open": left_open}


def _cr(chunks):
    return b"".join(bytes.fromhex(c) for c in chunks).replace(b"\r", b"")


def _bio_ok(prev, served, got):
    """got == prev + the served chunks (CRs removed) in order, where the chunks read by an operation that raised may be missing"""
    if got is None or not got.startswith(prev):
        return False
    positions = {len(prev)}
    for c, loud in served:
        data = bytes.fromhex(c).replace(b"\r", b"")
        new = set(p + len(data) for p in positions if got[p:p + len(data)] == data)
        if loud:
            new |= positions
        positions = new
    return len(got) in positions


def reopen_expected(case, obs):
    """[bytes the destination must hold after close j | None = no file]; for a BytesIO: what it held before the session + the
    bytes read by the operations that completed (those of an operation that raised — a closed log object — are optional)"""
    out = []
    prev = bytes.fromhex(case["existing"]) if (case["has_existing"] or case["sink"].startswith("bytesio")) else None
    for so in obs["sessions"]:
        if case["sink"] == "none":
            out.append(None)
        elif case["sink"].startswith("bytesio"):
            out.append((prev or b"") + _cr([c for c, loud in so["served"] if not loud]))
            prev = bytes.fromhex(so["snapshot"]) if so["snapshot"] is not None else out[-1]   # goes on from what the object really holds
        else:
            out.append(((prev or b"") if case["append"] else b"") + _cr(so["served_chunks"]))
            prev = out[-1]
    return out


def oracle_reopen(case, obs):
    if obs["exc"]:
        return "session set-up raised %s" % obs["exc"]
    if len(obs["sessions"]) != len(case["sessions"]):
        return "only %d of %d sessions ran" % (len(obs["sessions"]), len(case["sessions"]))
    want = reopen_expected(case, obs)
    sink = case["sink"]
    prev = bytes.fromhex(case["existing"])
    for j, so in enumerate(obs["sessions"]):
        nth = "session %d of %d on one driver object (%s)" % (j + 1, len(obs["sessions"]), "first open" if j == 0 else "opened again after close")
        for name, r, raised in so["results"]:
            # close() never raises; open() only when its login reads hit the BytesIO the previous close() closed (ValueError: loud)
            if raised and (name == "close" or (name == "open" and not (sink == "bytesio" and j > 0))):
                return "%s: %s() raised %s" % (nth, name, r)
        got = None if so["snapshot"] is None else bytes.fromhex(so["snapshot"])
        w = want[j]
        if sink == "none":
            if got is not None or obs["stray_files"]:
                return "a channel log was written although channel_log is off"
        elif sink.startswith("bytesio"):
            if not _bio_ok(prev, so["served"], got):
                n_lost = len(w) - len(got or b"")
                return ("%s: the BytesIO channel log holds %r after close, but what it held before this session plus the bytes read by the operations "
                        "that completed, CRs removed, is %r%s" % (nth, None if got is None else got[-80:], w[-80:],
                                                                  " (%d bytes silently not logged)" % n_lost if n_lost > 0 else ""))
            prev = got
        elif got != w:
            return ("%s, %s mode: the channel log holds %r after close, but %s the bytes served in this session, CRs removed, is %r" % (
                nth, "append" if case["append"] else "write", None if got is None else got[-80:],
                "what it held before this session plus" if case["append"] else "(the file starts anew at every open)", w[-80:]))
    if obs["left_open"]:
        return "a channel log file handle is still open after the last close()"
    if sink in ("path", "true") and obs["final"] != obs["sessions"][-1]["snapshot"]:
        return "the channel log file changed after the last close()"
    if obs["stray_files"]:
        return "unexpected files %r" % obs["stray_files"]
    return None


def shrink_reopen(case, workdir, why):
    def key(w):
        return None if w is None else re.sub(r"\d+", "N", w)[:60]

    def fails(c):
        o = run_reopen_impl(c, workdir)
        w = oracle_reopen(c, o)
        return (o, w) if key(w) == key(why) else None
    cur, best = case, fails(case)
    if best is None:
        return case, run_reopen_impl(case, workdir), why
    changed = True
    while changed:
        changed = False
        cands = []
        if len(cur["sessions"]) > 2:
            cands += [dict(cur, sessions=cur["sessions"][:j] + cur["sessions"][j + 1:]) for j in range(len(cur["sessions"]))]
        if cur["on_open"]:
            cands.append(dict(cur, on_open=[]))
        for j, s in enumerate(cur["sessions"]):
            if s["ops"]:       # drop the last operation and the chunks only it would consume (the run tells: keep what was served before)
                n_keep = sum(1 for k, sj, _, n in best[0]["events"] if k == "r" and sj == j and n is not None and n < len(s["ops"]))
                cands.append(dict(cur, sessions=cur["sessions"][:j] + [dict(s, ops=s["ops"][:-1], chunks=s["chunks"][:n_keep])] + cur["sessions"][j + 1:]))
        if cur["has_existing"] and cur["existing"]:
            cands.append(dict(cur, has_existing=False, existing=""))
        for cand in cands:
            r = fails(cand)
            if r:
                cur, best, changed = cand, r, True
                break
    return cur, best[0], best[1]
