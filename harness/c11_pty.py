"""C11 suite `pty-child`: the REAL system transport (SystemTransport + PtyProcess, real fork / exec / pty)
under the real sync drivers, against small local stand-ins for the ssh binary:

 * a /bin/sh "device" that prints the platform's prompt, answers every line with the prompt, and EXITS at a
   chosen point (before the first prompt, after the n-th input line, a number of lines after a trigger
   command) in a chosen way (exit 0, exit 255, SIGKILL) — so the transport reads the EOF *before* close();
 * the same "device" WEDGED like an ssh / ProxyCommand wrapper that outlives its remote shell: it IGNORES a chosen
   set of signals (none | HUP | INT | HUP+INT | HUP+INT+TERM; `trap ''` is the first statement, so the dispositions
   are in place before the first prompt is printed = before any operation can start) and, instead of exiting on
   "exit" or on the end of its input (pty master closed), it LINGERS (exec sleep: same pid, ignored signals stay
   ignored across the exec, no grandchild) — so close() itself has to get rid of a child that is still running;
 * an "ssh" that cannot be exec'd after the fork: corrupt executable (ENOEXEC), script with a missing
   interpreter (ENOENT), an argument too long for execve (E2BIG); given through open_cmd or found first on
   PATH (then the real _build_open_cmd builds the command line); and one that is not executable at all
   (refused before the fork).

Histories are lists of ops like the `lifecycle` suite: with-blocks (body commands, body exception), plain
open / operate / close / close / re-open.  Observers are independent of scrapli's bookkeeping: after
gc.collect(), the children of this process in /proc (ANY state, zombies included) and /proc/self/fd, both
against a snapshot taken before the history; threads.  No sleeps: every observation is made after the call
returned or raised, when the property says everything has been released."""
import gc
import os
import signal
import stat

from . import c11_lib as L

CORE = list(L.PLATFORMS)
KINDS = CORE + ["generic"]
PROMPT = {"cisco_iosxe": "router1#", "cisco_iosxr": "RP/0/RP0/CPU0:router1#", "cisco_nxos": "router1# ",
          "arista_eos": "router1#", "juniper_junos": "admin@router1> ", "generic": "router1#"}
HOWS = ["exit0", "exit255", "kill9"]
EXEC_FAILS = ["enoexec", "bad_interp", "e2big"]      # fork happens, execv fails
# signals a wedged stand-in ignores (it lingers after "exit" / end of input in every case)
IGNORES = [[], ["HUP"], ["INT"], ["HUP", "INT"], ["HUP", "INT", "TERM"]]
STUBBORN = [["HUP", "INT"], ["HUP", "INT", "TERM"]]   # neither the hang-up nor the polite signals of terminate() end these
SIGNAMES = ("HUP", "INT", "TERM", "QUIT", "CONT")
NO_FORK_FAILS = ["not_exec"]                          # refused by which() before the fork

# $1 prompt  $2 die at the n-th input line (0: before the first prompt, -: never)  $3 trigger line
# $4 die that many lines after the trigger (0: on the trigger itself, -: never)  $5 how to die
# $6 L: linger (do not exit) after "exit" / end of input, -: exit  $7 signals to ignore (names, blank separated; may be empty)
DEVICE_SH = r'''p=$1; at=$2; trig=$3; delay=$4; how=$5; lg=${6:--}; ign=${7:-}
[ -n "$ign" ] && trap '' $ign
n=0; m=-1
die() { case $how in exit255) exit 255;; kill9) kill -9 $$;; *) exit 0;; esac; }
[ "$at" = 0 ] && die
printf '%s' "$p"
while IFS= read -r line; do
  n=$((n+1))
  if [ "$m" -ge 0 ]; then m=$((m+1)); elif [ "$line" = "$trig" ]; then m=0; fi
  if [ "$n" = "$at" ] || [ "$m" = "$delay" ]; then die; fi
  if [ "$line" = exit ]; then [ "$lg" = L ] && break; exit 0; fi
  if [ "$line" = "show version" ]; then printf 'v1\n%s' "$p"; else printf '\n%s' "$p"; fi
done
[ "$lg" = L ] && exec sleep 600
exit 0
'''


def _driver_class(kind):
    if kind == "generic":
        from scrapli.driver.generic import GenericDriver
        return GenericDriver
    import scrapli.driver.core as core
    return {"cisco_iosxe": core.IOSXEDriver, "cisco_iosxr": core.IOSXRDriver, "cisco_nxos": core.NXOSDriver,
            "arista_eos": core.EOSDriver, "juniper_junos": core.JunosDriver}[kind]


# ------------------------------------------------------------------------------------------------
# observers (nothing of scrapli is consulted)
# ------------------------------------------------------------------------------------------------
def kids():
    """{pid: state letter} of every child of this process, zombies (Z) included"""
    me = os.getpid()
    pids = None
    try:
        pids = []
        for tid in os.listdir("/proc/self/task"):
            with open("/proc/self/task/%s/children" % tid) as f:
                pids += [int(x) for x in f.read().split()]
    except (OSError, ValueError):
        pids = None
    if pids is None:
        pids = [int(p) for p in os.listdir("/proc") if p.isdigit()]
    out = {}
    for p in pids:
        try:
            with open("/proc/%d/stat" % p) as f:
                s = f.read()
            rest = s[s.rindex(")") + 2:].split()
            if int(rest[1]) == me:
                out[p] = rest[0]
        except (OSError, ValueError):
            pass
    return out


def observe(before_kids, before_fds, before_threads):
    gc.collect()
    k = kids()
    fds = L.fd_snapshot()
    return {"children": {str(p): s for p, s in sorted(k.items()) if p not in before_kids},
            "fds": {str(n): v for n, v in sorted(L.fd_new(before_fds, fds, ignore=("anon_inode",)).items())},
            "threads": [x for x in L.threads() if x not in before_threads]}


def cleanup(obs_list):
    """do not let one history's leftovers reach the next: kill + reap the children, close the fds"""
    pids, fds = set(), set()
    for o in obs_list:
        pids |= {int(p) for p in o["children"]}
        fds |= {int(n) for n in o["fds"]}
    for p in pids:
        try:
            os.kill(p, signal.SIGKILL)
        except OSError:
            pass
        try:
            os.waitpid(p, 0)
        except OSError:
            pass
    for n in fds:
        try:
            os.close(n)
        except OSError:
            pass


# ------------------------------------------------------------------------------------------------
# the stand-ins
# ------------------------------------------------------------------------------------------------
def _mkexe(path, data, mode=0o755):
    with open(path, "wb") as f:
        f.write(data)
    os.chmod(path, mode)
    return path


def broken_ssh(tmpdir, why):
    """path of an `ssh` file that fails in the way `why` says"""
    d = os.path.join(tmpdir, "bin_" + why)
    os.makedirs(d, exist_ok=True)
    p = os.path.join(d, "ssh")
    if not os.path.exists(p):
        if why == "enoexec":
            _mkexe(p, b"\x00\x01 this is not something the kernel can run\n")
        elif why == "bad_interp":
            _mkexe(p, b"#!" + os.path.join(d, "no-such-interpreter").encode() + b"\nexit 0\n")
        elif why == "not_exec":
            _mkexe(p, b"#!/bin/sh\nexit 0\n", mode=0o644)
        elif why == "e2big":
            _mkexe(p, b"#!/bin/sh\nexit 0\n")
        else:
            raise ValueError(why)
    return d, p


def child_cmd(kind, child, tmpdir):
    """(open_cmd or None, PATH prefix or None) for one session"""
    if child["kind"] == "device":
        def f(x):
            return "-" if x is None else str(x)
        ign = child.get("ignore")
        if ign is not None and not all(x in SIGNAMES for x in ign):
            raise ValueError(ign)
        return ["/bin/sh", "-c", DEVICE_SH, "ssh-standin", PROMPT[kind], f(child.get("die_at")),
                child.get("die_on") or "-", f(child.get("delay")), child.get("how", "exit0"),
                "-" if ign is None else "L", " ".join(ign or [])], None
    if child["kind"] == "exec_fail":
        d, p = broken_ssh(tmpdir, child["why"])
        if child.get("via") == "path":
            return None, d
        cmd = [p, "localhost"]
        if child["why"] == "e2big":
            cmd.append("x" * (1 << 18))          # one argument above MAX_ARG_STRLEN: execve fails with E2BIG
        return cmd, None
    raise ValueError(child["kind"])


HEALTHY = {"kind": "device"}


# ------------------------------------------------------------------------------------------------
def run_pty(sc, tmpdir):
    """one history over a real driver with the real system transport; per-op observations (JSON-able)"""
    import scrapli.exceptions as se
    kind = sc["kind"]
    gc.collect()
    L.reap()
    k0, fd0, th0 = kids(), L.fd_snapshot(), L.threads()
    kw = dict(host="localhost", transport="system", auth_bypass=True, auth_strict_key=False,
              timeout_socket=5, timeout_transport=5, timeout_ops=5)
    logpath = None
    if sc.get("log"):
        logpath = os.path.join(tmpdir, "pty_chan.log")
        kw["channel_log"] = logpath
    d = _driver_class(kind)(**kw)
    obs = []
    path0 = os.environ.get("PATH", "")

    def arm(child):
        cmd, pathdir = child_cmd(kind, child, tmpdir)
        d.transport.open_cmd = list(cmd) if cmd else []
        if pathdir:
            os.environ["PATH"] = pathdir        # only the stand-in: a real ssh further down the PATH must never be run

    try:
        for op in sc["ops"]:
            res, scrapli_exc, events = "ok", None, []
            eof_before_close = None
            try:
                if op["op"] in ("open", "with"):
                    arm(op.get("child", HEALTHY))
                if op["op"] == "open":
                    d.open()
                elif op["op"] == "operate":
                    d.send_command("show version")
                elif op["op"] == "close":
                    s = d.transport.session          # coverage only
                    eof_before_close = bool(s is not None and s.flag_eof)
                    d.close()
                elif op["op"] == "with":
                    with d as conn:
                        try:
                            for _ in range(op.get("body_ops", 1)):
                                try:
                                    events.append(conn.send_command("show version").result)
                                except Exception as e:  # noqa
                                    events.append(type(e).__name__)
                                    if not op.get("swallow"):
                                        raise
                            if op.get("body_exc"):
                                raise L.exc_by_name(op["body_exc"])("body failure")
                        finally:
                            s = d.transport.session      # coverage only
                            eof_before_close = bool(s is not None and s.flag_eof)
                else:
                    raise ValueError(op["op"])
            except Exception as e:  # noqa
                res = type(e).__name__
                scrapli_exc = isinstance(e, se.ScrapliException)
                del e
            finally:
                os.environ["PATH"] = path0
            cl = d.channel.channel_log
            o = observe(k0, fd0, th0)
            o.update({"res": res, "scrapli_exc": scrapli_exc, "events": events, "eof_before_close": eof_before_close,
                      "session_held": d.transport.session is not None,
                      "log_open": bool(cl is not None and not cl.closed)})
            obs.append(o)
    finally:
        os.environ["PATH"] = path0
        try:
            d.transport.close()
        except Exception:  # noqa
            pass
        try:
            d.channel.close()
        except Exception:  # noqa
            pass
        del d
        cleanup(obs + [observe(k0, fd0, th0)])
    return obs


def _clean(op):
    c = op.get("child", HEALTHY)
    return c["kind"] == "device" and c.get("die_at") is None and c.get("delay") is None


def pty_oracle(sc, obs):
    """the property on the observations: after close() (returned or raised) and after a with-block (any exit)
    no child process of ours — running or defunct —, no new file descriptor (pty master, pipe, channel log),
    no thread is left and the transport holds no session; a further close() raises at most a scrapli exception;
    a released connection opens again when the device is there.  returns [(op index, class, what)]"""
    bad = []
    released = True
    blamed_kids, blamed_fds = set(), set()       # a leftover is reported at the first release point that shows it
    for i, (op, o) in enumerate(zip(sc["ops"], obs)):
        held = []
        new_kids = {p: s for p, s in o["children"].items() if p not in blamed_kids}
        new_fds = {n: v for n, v in o["fds"].items() if n not in blamed_fds}
        if op["op"] in ("close", "with"):
            blamed_kids |= set(new_kids)
            blamed_fds |= set(new_fds)
        if new_kids:
            held.append("child processes left (pid: state) %s" % new_kids)
        if new_fds:
            held.append("file descriptors left %s" % sorted(new_fds.values()))
        if o["threads"]:
            held.append("threads left %s" % o["threads"])
        if o["session_held"]:
            held.append("transport still holds its session")
        if o["log_open"]:
            held.append("channel log handle open")
        if op["op"] in ("close", "with"):
            if held:
                bad.append((i, "release", "after %s (%s): %s" % (op["op"], o["res"], "; ".join(held))))
            if op["op"] == "close" and released and o["res"] != "ok" and not o["scrapli_exc"]:
                bad.append((i, "repeat", "close() of a closed connection raised %s (not a scrapli exception)" % o["res"]))
        if op["op"] in ("open", "with") and released and _clean(op):
            want = (op.get("body_exc") or "ok") if op["op"] == "with" else "ok"
            if o["res"] != want:
                bad.append((i, "reopen", "%s on a released connection with a healthy device: %s" % (op["op"], o["res"])))
        if op["op"] in ("close", "with"):
            released = not held
        elif op["op"] == "open":
            released = False
    return bad


# ------------------------------------------------------------------------------------------------
# generators
# ------------------------------------------------------------------------------------------------
def _dev(**kw):
    c = {"kind": "device"}
    c.update({k: v for k, v in kw.items() if v is not None})
    return c


def gen_child(rng, phase=None):
    """a stand-in that goes away in `phase` (on_open | body | on_close | start | exec | None = any)"""
    phase = phase or rng.choice(["on_open", "body", "body", "on_close", "start", "exec", "exec"])
    how = rng.choice(HOWS)
    if phase == "start":
        return _dev(die_at=0, how=how)
    if phase == "on_open":
        return _dev(die_at=rng.randint(1, 3), how=how)
    if phase == "body":
        return _dev(die_on="show version", delay=0, how=how)
    if phase == "on_close":
        return _dev(die_on="show version", delay=rng.randint(1, 2), how=how)
    why = rng.choice(EXEC_FAILS + EXEC_FAILS + NO_FORK_FAILS)
    return {"kind": "exec_fail", "why": why, "via": "open_cmd" if why == "e2big" else rng.choice(["open_cmd", "path"])}


def _with_ops(rng, child, reopen):
    ops = [{"op": "with", "child": child, "body_ops": 1, "body_exc": rng.choice([None, None, "ValueError"]),
            "swallow": rng.random() < 0.3}, {"op": "close"}]
    return ops + ([{"op": "with", "body_ops": 1}] if reopen else [])


def _plain_ops(child, reopen):
    ops = [{"op": "open", "child": child}, {"op": "operate"}, {"op": "close"}, {"op": "close"}]
    return ops + ([{"op": "open"}, {"op": "operate"}, {"op": "close"}] if reopen else [])


def _over_ops(rng, shape, how=None):
    """a session REPLACED by another open() on the same object, never closed by the user: whatever the connection
    ever started has to be gone at the release point.
    open_open: open, open again (retry without close); open_with: open, then a with-block on the same object;
    drop_reopen: the device goes away inside an operation, the user opens again and carries on (retry loop);
    drop_with: same, carrying on with a with-block; start_reopen: the stand-in exits before its first prompt (failed open), open again"""
    how = how or rng.choice(HOWS)
    if shape == "open_open":
        return [{"op": "open"}, {"op": "operate"}, {"op": "open"}, {"op": "operate"}, {"op": "close"}, {"op": "close"}]
    if shape == "open_with":
        return [{"op": "open"}, {"op": "with", "body_ops": 1, "body_exc": rng.choice([None, "ValueError"])}, {"op": "close"},
                {"op": "with", "body_ops": 1}]
    if shape == "drop_reopen":
        return [{"op": "open", "child": _dev(die_on="show version", delay=0, how=how)}, {"op": "operate"}, {"op": "open"},
                {"op": "operate"}, {"op": "close"}]
    if shape == "drop_with":
        return [{"op": "open", "child": _dev(die_on="show version", delay=0, how=how)}, {"op": "operate"},
                {"op": "with", "body_ops": 1}, {"op": "open"}, {"op": "close"}]
    if shape == "drop_open_open":       # both kinds in one history: over a dropped session, then over a live one
        return [{"op": "open", "child": _dev(die_on="show version", delay=0, how=how)}, {"op": "operate"}, {"op": "open"},
                {"op": "operate"}, {"op": "open"}, {"op": "operate"}, {"op": "close"}]
    if shape == "drop_open_with":
        return [{"op": "open", "child": _dev(die_on="show version", delay=0, how=how)}, {"op": "operate"}, {"op": "open"},
                {"op": "operate"}, {"op": "with", "body_ops": 1, "body_exc": rng.choice([None, "ValueError"])}]
    if shape == "start_reopen":
        return [{"op": "open", "child": _dev(die_at=rng.choice([0, 1]), how=how)}, {"op": "open"}, {"op": "operate"}, {"op": "close"}]
    raise ValueError(shape)


OVER_SHAPES = ["open_open", "open_with", "drop_reopen", "drop_with", "start_reopen", "drop_open_open", "drop_open_with"]


def fixed_scenarios(rng, thorough):
    """every kind of going-away (before the first prompt, inside on_open, inside the body / an operation, inside
    on_close, exec failures after the fork, refusal before the fork), left through a with-block and through
    plain close() / close() again / re-open, default platform hooks.  quick: one platform drawn per kind."""
    out = []

    def add(kind, ops):
        out.append({"kind": kind, "log": rng.random() < 0.5, "ops": ops})

    if thorough:
        for kind in KINDS:
            for phase in ("start", "on_open", "body", "on_close"):
                add(kind, _with_ops(rng, gen_child(rng, phase), True))
                add(kind, _plain_ops(gen_child(rng, phase), True))
        for why in EXEC_FAILS + NO_FORK_FAILS:
            for via in ("open_cmd", "path"):
                if (why, via) == ("e2big", "path"):
                    continue
                child = {"kind": "exec_fail", "why": why, "via": via}
                kind = rng.choice(KINDS)
                add(kind, [{"op": "with", "child": child}, {"op": "with", "child": child}, {"op": "with", "body_ops": 1}])
                add(kind, [{"op": "open", "child": child}, {"op": "close"}, {"op": "close"}, {"op": "open"}, {"op": "operate"}, {"op": "close"}])
        for kind in KINDS:
            for shape in OVER_SHAPES:
                add(kind, _over_ops(rng, shape))
        return out
    add(rng.choice(CORE), _with_ops(rng, gen_child(rng, "body"), False))
    add(rng.choice(CORE), _plain_ops(gen_child(rng, "body"), True))
    add(rng.choice(CORE), _with_ops(rng, gen_child(rng, rng.choice(["start", "on_open", "on_open"])), False))
    add(rng.choice(CORE), _with_ops(rng, gen_child(rng, "on_close"), False))
    child = {"kind": "exec_fail", "why": "enoexec", "via": rng.choice(["open_cmd", "path"])}
    add(rng.choice(CORE), [{"op": "with", "child": child}, {"op": "with", "child": child}])
    child = {"kind": "exec_fail", "why": rng.choice(["bad_interp", "e2big"]), "via": "open_cmd"}
    add(rng.choice(CORE), [{"op": "open", "child": child}, {"op": "close"}, {"op": "close"}, {"op": "open"}, {"op": "operate"}, {"op": "close"}])
    return out


def over_scenarios(rng, thorough):
    """quick tier: ONE history that re-opens after a device drop AND opens over the live session (then close() or a
    with-block on the same object), one drawn platform (own generator stream in the caller: the other suites' draws do not
    move); thorough: every shape x platform is part of fixed_scenarios"""
    if thorough:
        return []
    return [{"kind": rng.choice(KINDS), "log": rng.random() < 0.5,
             "ops": _over_ops(rng, rng.choice(["drop_open_open", "drop_open_open", "drop_open_with"]))}]


def wedged(ignore):
    """a stand-in that answers like a healthy device, ignores the signals named and lingers after "exit" / end of input"""
    return _dev(ignore=list(ignore))


def gen_child_wedged(rng):
    """for the random histories of the wedged family: mostly wedged stand-ins, some that go away by themselves"""
    if rng.random() < 0.7:
        return wedged(rng.choice(IGNORES + STUBBORN))
    return gen_child(rng)


def wedge_scenarios(rng, thorough):
    """children that are STILL RUNNING when close() is called and do not go away by being asked: every set of ignored
    signals, left through a with-block (normal exit / body exception) and through close() / close() again / re-open;
    thorough adds every platform, sessions replaced by another open() and random histories.  Own generator stream in the
    caller.  quick: one with-block over a child that ignores HUP, INT and TERM, one plain history over a drawn smaller set."""
    out = []

    def add(kind, ops):
        out.append({"kind": kind, "log": rng.random() < 0.5, "ops": ops})

    def w_with(ign, reopen):
        ops = [{"op": "with", "child": wedged(ign), "body_ops": rng.choice([0, 1]), "body_exc": rng.choice([None, "ValueError"])},
               {"op": "close"}]
        return ops + ([{"op": "with", "body_ops": 1}] if reopen else [])

    if not thorough:
        add(rng.choice(KINDS), w_with(STUBBORN[-1], False))       # the hardest to get rid of short of SIGKILL
        add(rng.choice(KINDS), _plain_ops(wedged(rng.choice(IGNORES[:-1])), True))
        return out
    for kind in KINDS:
        for ign in IGNORES:
            add(kind, w_with(ign, True))
            add(kind, _plain_ops(wedged(ign), True))
    for ign in IGNORES[1:]:
        w = wedged(ign)
        # the wedged session is replaced by another open() / with-block on the same object, never closed by the user
        add(rng.choice(KINDS), [{"op": "open", "child": w}, {"op": "operate"}, {"op": "open"}, {"op": "operate"}, {"op": "close"}, {"op": "close"}])
        add(rng.choice(KINDS), [{"op": "open", "child": w}, {"op": "with", "child": w, "body_ops": 1, "body_exc": rng.choice([None, "ValueError"])},
                                {"op": "close"}, {"op": "with", "body_ops": 1}])
    out += [gen_history(rng, gen_child_wedged) for _ in range(12)]
    return out


def gen_history(rng, child_gen=None):
    child_gen = child_gen or gen_child
    kind = rng.choice(CORE + CORE + ["generic"])
    ops = []
    is_open = False
    for _ in range(rng.randint(2, 4)):
        k = rng.choice(["open", "with", "with"]) if not is_open else rng.choice(["operate", "close", "close", "open", "with"])
        op = {"op": k}
        if k in ("open", "with"):
            if rng.random() < 0.75:
                op["child"] = child_gen(rng)
            if k == "with":
                op["body_ops"] = rng.choice([0, 1, 1, 2])
                op["body_exc"] = rng.choice([None, None, "ValueError", "KeyError"])
                op["swallow"] = rng.random() < 0.3
                is_open = False
            else:
                is_open = True
        elif k == "close":
            is_open = False
        ops.append(op)
    if is_open:
        ops.append({"op": "close"})
    if rng.random() < 0.5:
        ops.append({"op": "close"})
    return {"kind": kind, "log": rng.random() < 0.5, "ops": ops}


def classify(sc, obs):
    """coverage key of one history: what kind of stand-in, where the driver noticed"""
    keys = []
    for op, o in zip(sc["ops"], obs):
        c = op.get("child")
        if op["op"] in ("open", "with"):
            what = ("ignores %s, lingers" % ("+".join(c["ignore"]) or "nothing")) if c and c.get("ignore") is not None else \
                "healthy" if c is None or _clean(op) else (c["why"] + "/" + c.get("via", "") if c["kind"] == "exec_fail" else
                                                            "die_at=%s" % c["die_at"] if "die_at" in c else "die_after_cmd+%s" % c["delay"])
            keys.append("%s %s -> %s" % (op["op"], what, o["res"]))
    return keys
