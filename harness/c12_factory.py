"""C12 helper — drivers created through the FACTORY (scrapli.Scrapli / scrapli.AsyncScrapli), for core platforms and for
scrapli_community platforms (with and without a variant).

The factory is code of its own between the user's arguments and the driver: it collects every argument (the three
credentials included) into one dict, resolves the platform (core map, or `importlib.import_module` of
`scrapli_community.<vendor>.<os>` and its SCRAPLI_PLATFORM: driver type, defaults, variants), logs what it selected and
merges the platform's arguments with the user's.  None of the other families goes through it (they call the driver
classes), so this module builds the driver the way the documentation tells users to: `Scrapli(platform=..., host=...,
auth_password=..., ...)`.

Community platforms: SYNTHETIC ones are registered in `sys.modules` for the time of the construction, laid out like the
real package (`scrapli_community.<vendor>.<os>` re-exporting SCRAPLI_PLATFORM of `scrapli_community.<vendor>.<os>.
<vendor>_<os>`; a root `scrapli_community` module as well when the package is not installed) and built from a JSON spec
that lives in the scenario (so a replay file rebuilds the same platform): driver type "network" / "generic" / a pair of
driver CLASSES (sync + async subclasses, the way huawei_vrp, hp_comware, ... do it), defaults (IOS-XE like privilege
levels, the four on_open / on_close callables, failed_when_contains, textfsm / genie platform, extras such as a
transport_options dict), variants (overrides of the defaults, a variant with its own driver classes).  Platforms of the
INSTALLED scrapli_community package are used as they are (construction only: their on_open talks to devices the
simulator does not have); when the package / the platform is missing the factory's ScrapliModuleNotFound is the
observation.

No source hooks: after the construction the driver's transport is replaced by the scripted one (as make_driver does)."""
import sys
import types
from copy import deepcopy

from .simdevice import AsyncScriptedTransport, ScriptedTransport

ROOT = "scrapli_community"

# the synthetic platforms (name -> spec).  Names follow the package's convention <vendor>_<os>; `zqsolo` has no os part
# (the factory supports "any future platforms that dont have child os types").
SYNTHETIC = {
    "zqnet_edgeos": {"driver_type": "network",
                     "extras": {"transport_options": {"ptyprocess": {"cols": 256}}},
                     "variants": {"longlines": {"failed_when_contains": ["% Zq error"], "genie_platform": "zqgenie"},
                                  "user_exec": {"default_desired_privilege_level": "exec"},
                                  "ownclass": {"driver_type": "classes"}}},
    "zqcorp_switchos": {"driver_type": "classes", "extras": {"textfsm_platform": "zqcorp_switchos"},
                        "variants": {"legacy": {"failed_when_contains": ["Error:"], "genie_platform": ""}}},
    "zqwlc_controller": {"driver_type": "generic", "extras": {},
                         "variants": {"plain": {"comms_prompt_pattern": r"^\S{1,48}[#>$~@:\]]\s*$"}}},
    "zqsolo": {"driver_type": "network", "extras": {}, "variants": {}},
}
# broken platform definitions (the factory's own error paths; the user's arguments are in scope there)
BROKEN = {
    "zqbad_noplatform": {"broken": "no-SCRAPLI_PLATFORM"},
    "zqbad_nodefaults": {"broken": "no-defaults"},
}
# platforms of the installed scrapli_community package (construction only), with one of their variants
INSTALLED = [("huawei_vrp", None), ("nokia_sros", "classic"), ("cisco_asa", "read_only"), ("mikrotik_routeros", None),
             ("scrapli_networkdriver", "test_variant2"), ("scrapli_genericdriver", "test_variant1"), ("hp_comware", None)]
INSTALLED_GENERIC = {"scrapli_genericdriver", "mikrotik_routeros"}     # their drivers take no auth_secondary
CORE = ["cisco_iosxe", "cisco_nxos", "arista_eos", "cisco_iosxr", "juniper_junos"]

_CLASSES = {}


def _driver_classes():
    """a community platform's own driver classes: subclasses of the network drivers (defined once per process)"""
    if not _CLASSES:
        from scrapli.driver import AsyncNetworkDriver, NetworkDriver

        class ZqNetworkDriver(NetworkDriver):
            def zq_show(self):
                return self.send_command("show zq")

        class AsyncZqNetworkDriver(AsyncNetworkDriver):
            async def zq_show(self):
                return await self.send_command("show zq")

        _CLASSES.update(sync=ZqNetworkDriver, **{"async": AsyncZqNetworkDriver})
    return dict(_CLASSES)


def _generic_sync_on_open(conn):
    conn.send_command(command="terminal length 0")


async def _generic_async_on_open(conn):
    await conn.send_command(command="terminal length 0")


def _generic_sync_on_close(conn):
    conn.channel.write(channel_input="exit")
    conn.channel.send_return()


async def _generic_async_on_close(conn):
    conn.channel.write(channel_input="exit")
    conn.channel.send_return()


def build_platform(spec):
    """SCRAPLI_PLATFORM of a synthetic community platform, from its JSON spec"""
    from scrapli.driver.core.cisco_iosxe.async_driver import iosxe_on_close as a_close, iosxe_on_open as a_open
    from scrapli.driver.core.cisco_iosxe.base_driver import PRIVS
    from scrapli.driver.core.cisco_iosxe.sync_driver import iosxe_on_close as s_close, iosxe_on_open as s_open
    if spec.get("broken") == "no-SCRAPLI_PLATFORM":
        return None
    if spec.get("broken") == "no-defaults":
        return {"driver_type": "network", "variants": {}}
    dt = spec["driver_type"]
    if dt == "generic":
        defaults = {"sync_on_open": _generic_sync_on_open, "async_on_open": _generic_async_on_open,
                    "sync_on_close": _generic_sync_on_close, "async_on_close": _generic_async_on_close}
    else:
        # what the platforms of the package that sit on IOS-like devices declare: privilege levels, the level to land
        # in, on_open (acquire it, paging off) / on_close, the markers of a failed command
        defaults = {"privilege_levels": deepcopy(PRIVS), "default_desired_privilege_level": "privilege_exec",
                    "sync_on_open": s_open, "async_on_open": a_open, "sync_on_close": s_close, "async_on_close": a_close,
                    "failed_when_contains": ["% Ambiguous command", "% Incomplete command", "% Invalid input detected"],
                    "textfsm_platform": "cisco_iosxe", "genie_platform": "iosxe"}
    defaults.update(deepcopy(spec.get("extras", {})))
    variants = {}
    for vname, v in spec.get("variants", {}).items():
        v = deepcopy(v)
        if v.get("driver_type") == "classes":
            v["driver_type"] = _driver_classes()
        variants[vname] = v
    return {"driver_type": _driver_classes() if dt == "classes" else dt, "defaults": defaults, "variants": variants}


def platform_text(spec, variant):
    """everything the PLATFORM definition supplies for this construction, as text (what the factory may show of it)"""
    plat = build_platform(spec)
    if plat is None:
        return ""
    out = repr({k: v for k, v in plat.items() if k != "variants"})
    if variant and variant in plat.get("variants", {}):
        out += " " + repr(plat["variants"][variant])
    return out


def register(name, spec):
    """put the synthetic platform `name` where `importlib.import_module('scrapli_community.<vendor>.<os>')` finds it;
    returns the module names added (for unregister)"""
    added = []

    def add(modname, package):
        if modname in sys.modules:
            raise ValueError("c12_factory: %s is already a module (a real platform of that name?)" % modname)
        m = types.ModuleType(modname, "synthetic scrapli_community platform (verification harness)")
        if package:
            m.__path__ = []
        sys.modules[modname] = m
        added.append(modname)
        return m

    try:
        if ROOT not in sys.modules:
            try:
                __import__(ROOT)
            except ModuleNotFoundError:
                add(ROOT, True)
        path, leaf = ROOT, None
        for part in name.split("_"):
            path += "." + part
            leaf = add(path, True)
        definition = add(path + "." + name, False)
        plat = build_platform(spec)
        if plat is not None:
            definition.SCRAPLI_PLATFORM = plat
            leaf.SCRAPLI_PLATFORM = definition.SCRAPLI_PLATFORM
            leaf.__all__ = ("SCRAPLI_PLATFORM",)
    except BaseException:
        unregister(added)
        raise
    return added


def unregister(added):
    for modname in added:
        sys.modules.pop(modname, None)


def make_factory_driver(sc, device, policy=("whole",), fault=None, **kw):
    """the driver `Scrapli(platform=..., variant=..., **user arguments)` / `AsyncScrapli(...)` returns, on the scripted
    transport.  Raises whatever the factory raises."""
    from scrapli import AsyncScrapli, Scrapli
    f = sc["factory"]
    sync = sc["stack"] == "sync"
    args = dict(host="sim", transport="telnet" if sync else "asynctelnet", auth_bypass=True,
                timeout_ops=0, timeout_transport=0, timeout_socket=0)
    args.update(kw)
    if f.get("variant") is not None:
        args["variant"] = f["variant"]
    added = register(f["platform"], f["synthetic"]) if f.get("synthetic") else []
    try:
        d = (Scrapli if sync else AsyncScrapli)(platform=f["platform"], **args)
    finally:
        unregister(added)
    t = (ScriptedTransport if sync else AsyncScriptedTransport)(device, policy, fault, base_transport_args=d._base_transport_args)
    d.transport = t
    d.channel.transport = t
    return d
