"""C10 helper — histories on ONE transport / driver object (suite hostkey-history).

A history is: open, close, open again, ... of the SAME object while, between the opens, the server
behind the address is exchanged for one with another host key (takeover while disconnected) and / or
the known_hosts file is edited in place.  The property is decided per open: in strict mode an open
whose presented key is missing from / different to the known_hosts entry AS IT IS AT THAT OPEN must
not offer anything and must end in ScrapliAuthenticationFailed.

  order     the real paramiko / ssh2 / asyncssh transports over the recording stub libraries (exact traces),
  loopback  the real paramiko / asyncssh libraries against recording servers behind a switchable address,
            through transport.open()/close() and through Driver.open()/close(),
  standin   the system transport spawning a stand-in `ssh` that records its argv, once per open,
  real-ssh  the real ssh binary (when there is one) through the system transport against the switchable address.

model: coq/model/HostKey.v run_history / step_open / sys_history; every history is also a correspondence case
(order: exact traces; loopback: projection per open; standin: argv per open; real-ssh: observed only)."""
import asyncio
import json
import os
import random
import shutil
import stat

from .common import coq_bool, coq_bytes, coq_list

HEADER_HIST = """From Verif Require Import Bytes HostKey.
Inductive hcase :=
| HcOrder (l : lib) (h : list hstep) (obs : list bytes)
| HcLoop (l : lib) (h : list hstep) (obs : list (N * bool * bool))
| HcArgv (a : sysargs) (obs : list (list bytes)).
Fixpoint proj_eq (trs : list (list event)) (obs : list (N * bool * bool)) : bool :=
  match trs, obs with
  | [], [] => true
  | t :: trs', (fin, pw, key) :: obs' =>
      let '(fin', pw', key') := projection t in
      (fin =? fin') && Bool.eqb pw pw' && Bool.eqb key key' && proj_eq trs' obs'
  | _, _ => false
  end.
Fixpoint argv_eq (m obs : list (list bytes)) : bool :=
  match m, obs with
  | [], [] => true
  | x :: m', y :: obs' => lbeq x y && argv_eq m' obs'
  | _, _ => false
  end.
Definition chk (c : hcase) : bool :=
  match c with
  | HcOrder l h obs => lbeq (map trace_code (map snd (run_history (step_open true l) t_init h))) obs
  | HcLoop l h obs => proj_eq (map snd (run_history (step_open true l) t_init h)) obs
  | HcArgv a obs => argv_eq (sys_history [] a (length obs)) obs
  end.
"""

# a history = one (server, listed) pair per open.  roles: g the genuine key, x another key of the same
# type, y a key of another type; listed None = no line for the host
KINDS = {
    "good-swapped": [("g", "g"), ("x", "g")],              # takeover while disconnected
    "good-swapped-type": [("g", "g"), ("y", "g")],
    "swapped-good": [("x", "g"), ("g", "g")],              # the reverse order
    "good-swapped-good": [("g", "g"), ("x", "g"), ("g", "g")],
    "good-good-swapped": [("g", "g"), ("g", "g"), ("y", "g")],
    "edit-to-other": [("g", "g"), ("g", "x")],             # known_hosts edited between the opens
    "edit-to-absent": [("g", "g"), ("g", None)],
    "edit-to-right": [("g", "y"), ("g", "g")],
    "absent-then-added": [("g", None), ("g", "g")],
    "swap-follows-edit": [("g", "g"), ("x", "x")],         # key rolled AND file updated: must open again
    "swap-edit-crossed": [("g", "x"), ("x", "g")],         # never matching, each open sees the other's key
}
# retries: open() again on the same object WITHOUT close() after the previous open (failed at the host key verification, at
# the authentication, or succeeded) — every open must verify the key presented to IT
NOCLOSE_KINDS = {
    "retry-other": [("x", "g"), ("x", "g")],                 # fails at verification, retried: must fail the same way
    "retry-absent": [("g", None), ("g", None)],
    "retry-other-thrice": [("x", "g"), ("y", "g"), ("x", "g")],
    "retry-edited-away": [("g", "x"), ("g", None)],
    "retry-other-then-good": [("x", "g"), ("g", "g")],       # the retry reaches the genuine server: opens
    "good-then-other": [("g", "g"), ("x", "g")],             # opened, not closed, opened again while another server answers
    "rejected-then-other": [("g", "g"), ("x", "g")],         # right key but the server rejects the credentials, then another server
}
ROLE = {"A": {"g": "A", "x": "B", "y": "R"}, "R": {"g": "R", "x": "Q", "y": "A"}}
FAILAUTH, OPENED = 20, 30


def resolve(kind, genuine):
    return [(ROLE[genuine][s], None if l is None else ROLE[genuine][l]) for s, l in KINDS[kind]]


def random_steps(rng, genuine):
    roles = ["g", "g", "x", "y"]
    return [(ROLE[genuine][rng.choice(roles)], rng.choice([None] + [ROLE[genuine][r] for r in roles])) for _ in range(rng.randint(2, 4))]


def kh_text(M, rng, keys_pub, server, listed, fmt, port):
    if listed is None:
        return M.gen_known_hosts(rng, keys_pub, server, "absent", fmt, port)
    return M.gen_known_hosts(rng, keys_pub, listed, "right", fmt, port)


# how a new version of known_hosts reaches the path between two opens
#   inplace        written over the old file, the modification time moves on (set explicitly: no dependence on the clock tick)
#   pinned         written over the old file, then the modification time is put back (edit within the timestamp granularity,
#                  `touch -r`, restore of a prepared file)
#   rename         written beside it and renamed over it (atomic replace: another inode), modification time moves on
#   rename-pinned  the same with the old modification time carried over (cp -p / rsync -t)
EDITS = ("inplace", "pinned", "rename", "rename-pinned")
EDIT_KINDS = ("edit-to-other", "edit-to-absent", "edit-to-right", "absent-then-added", "swap-follows-edit", "swap-edit-crossed")
NEAR_HOST = "127.0.0.2"      # same length as HOST: a file of the same shape and size without an entry for HOST


def kh_versions(M, rng, keys_pub, roles, fmt, port, same_shape):
    """one known_hosts text per open.  same_shape: all versions are generated from one sub-seed, so they differ only in the
    key (or the host name) of the target line and of the near-miss lines — with keys of one type the versions have the same
    size, which together with a pinned modification time leaves (path, mtime, size) unchanged while the content changes."""
    if not same_shape:
        return [kh_text(M, rng, keys_pub, server, listed, fmt, port) for server, listed in roles]
    seed = rng.getrandbits(48)
    out = []
    for server, listed in roles:
        sub = random.Random(seed)
        if listed is None:
            out.append(M.gen_known_hosts(sub, keys_pub, server, "right", fmt, port, host=NEAR_HOST))
        else:
            out.append(M.gen_known_hosts(sub, keys_pub, listed, "right", fmt, port))
    return out


def rewrite(path, text, edit="inplace"):
    old = os.stat(path) if os.path.exists(path) else None
    if old is not None and edit in ("rename", "rename-pinned"):
        tmp = path + ".new"
        with open(tmp, "w", encoding="utf-8") as f:
            f.write(text)
        stamp = old.st_mtime_ns if edit == "rename-pinned" else old.st_mtime_ns + 2_000_000_000
        os.utime(tmp, ns=(old.st_atime_ns, stamp))
        os.replace(tmp, path)
        return
    with open(path, "w", encoding="utf-8") as f:
        f.write(text)
    if old is not None:
        stamp = old.st_mtime_ns if edit == "pinned" else old.st_mtime_ns + 2_000_000_000
        os.utime(path, ns=(old.st_atime_ns, stamp))


# ------------------------------------------------------------------------------------------------
# loopback environment: recording servers behind an address whose server can be exchanged
# ------------------------------------------------------------------------------------------------
class Env:
    def __init__(self, M, keys, accepts=(True, False)):
        from . import c10_loopback as lb
        self.M, self.keys = M, keys
        self.L = lb.Loopback()
        self.logs, self.addr = {}, {}
        for acc in accepts:
            back = {}
            for n in ("A", "B", "R", "Q"):
                port, log = self.L.listen([keys.priv[n]], accept=acc)
                back[n] = port
                self.logs[(n, acc)] = log
            self.addr[acc] = self.L.switch(back)

    def close(self):
        self.L.close()

    def clear(self):
        for lg in self.logs.values():
            del lg[:]

    def recorded(self, acc, sk):
        """(what the selected server recorded, what any OTHER server recorded — must be nothing)"""
        got = list(self.logs[(sk, acc)])
        stray = [e for k, lg in self.logs.items() if k != (sk, acc) for e in lg]
        return got, stray


def loop_history(env, lib, via, strict, method, acc, khfile, steps, edit="inplace"):
    """drive ONE driver / transport object through the steps [(server key name, known_hosts text)]
    (via transport | driver; via new-object: a NEW driver object per open over the same known_hosts path —
    what outlives an object is in the class / module / file system).  edit: how each new version of the file
    reaches the path (EDITS).
    Returns per open: dict(fin, exc, got, stray).  After a failed open the library session and the
    socket that scrapli's close() leaves behind (it only tears down when a channel exists) are closed
    by the harness, as open_real does."""
    M = env.M
    port, select = env.addr[acc]
    kw = dict(host=M.HOST, port=port, auth_username="u", timeout_socket=10, timeout_transport=10,
              ssh_known_hosts_file=khfile, ssh_config_file=False)
    if method in ("password", "both"):
        kw["auth_password"] = "SECRETPW"
    if method in ("key", "both"):
        kw["auth_private_key"] = env.keys.client_key_path
    if strict is not None:
        kw["auth_strict_key"] = strict
    if not os.path.exists(khfile):
        rewrite(khfile, steps[0][1])
    out = []

    def begin(sk, text):
        rewrite(khfile, text, edit)
        select(sk)
        env.clear()

    def end(sk, r):
        got, stray = env.recorded(acc, sk)
        fin, ename = (r, None) if not isinstance(r, tuple) else r
        out.append({"fin": fin, "exc": ename, "got": got, "stray": stray})

    if lib == "Asyncssh":
        from scrapli.driver import AsyncDriver
        d = AsyncDriver(transport="asyncssh", **kw)
        t = d.transport

        async def go():
            nonlocal d, t
            for i, (sk, text) in enumerate(steps):
                begin(sk, text)
                if via == "new-object" and i:
                    d = AsyncDriver(transport="asyncssh", **kw)
                    t = d.transport
                try:
                    await (d.open() if via == "driver" else t.open())
                    r = OPENED
                except Exception as e:  # noqa
                    r = M.exc_code(e), type(e).__name__
                end(sk, r)
                sess = t.session
                try:
                    if via == "driver":
                        await d.close()
                    else:
                        t.close()
                except Exception:  # noqa
                    pass
                if sess is not None:
                    try:
                        sess.close()
                        await asyncio.wait_for(sess.wait_closed(), 5)
                    except Exception:  # noqa
                        pass

        loop = asyncio.new_event_loop()
        try:
            loop.run_until_complete(go())
        finally:
            loop.close()
    else:
        from scrapli.driver import Driver
        d = Driver(transport="paramiko", **kw)
        t = d.transport
        for i, (sk, text) in enumerate(steps):
            begin(sk, text)
            if via == "new-object" and i:
                d = Driver(transport="paramiko", **kw)
                t = d.transport
            try:
                d.open() if via == "driver" else t.open()
                r = OPENED
            except Exception as e:  # noqa
                r = M.exc_code(e), type(e).__name__
            end(sk, r)
            sess, sock = t.session, t.socket
            try:
                d.close() if via == "driver" else t.close()
            except Exception:  # noqa
                pass
            for x in (sess, sock):
                try:
                    if x is not None:
                        x.close()
                except Exception:  # noqa
                    pass
    return out, d


def judge_loop(M, keys, strict, port, steps, results):
    """the property per open, on what the servers recorded — no model involved.
    Returns [(index of the open, why)], and per open whether the key is missing / different."""
    strict_eff = strict is not False
    fails, bad = [], []
    for i, ((sk, text), r) in enumerate(zip(steps, results)):
        key_bad = keys.pub[sk][1] not in M.spec_entry_keys(text, M.HOST, port)
        bad.append(key_bad)
        if r["stray"]:
            fails.append((i, "open #%d: a server that was not selected recorded %s" % (i + 1, sorted({e[0] for e in r["stray"]}))))
        if strict_eff and key_bad:
            if r["got"]:
                fails.append((i, "open #%d of the same object: the server (key %s) recorded %s although its key is missing from / different to "
                                 "the known_hosts entry at that open" % (i + 1, sk, sorted({e[0] for e in r["got"]}))))
            elif r["fin"] != FAILAUTH:
                fails.append((i, "open #%d of the same object ended with %s instead of ScrapliAuthenticationFailed" % (
                    i + 1, r["exc"] or M.EVN.get(r["fin"], r["fin"]))))
    return fails, bad


def loop_case(M, keys, hist, lib, via, strict, method, acc, fmt, port, steps, results, bad, edit="inplace"):
    return {"suite": "hostkey-history", "kind": "loopback", "history": hist, "lib": lib, "via": via, "edit": edit, "strict_arg": strict,
            "method": method, "server_accepts": acc, "format": fmt, "port": port,
            "key_table": {n: v[1] for n, v in keys.pub.items()},
            "steps": [{"server_key": sk, "known_hosts": text, "key_missing_or_different": b, "final": M.EVN.get(r["fin"], r["fin"]),
                       "exception": r["exc"], "server_recorded": [list(e[:2]) + ["<%d chars>" % len(e[2])] for e in r["got"]]}
                      for (sk, text), r, b in zip(steps, results, bad)]}


# ------------------------------------------------------------------------------------------------
# order histories over the stub libraries
# ------------------------------------------------------------------------------------------------
def order_history(stubs, lib, conf, khfile, steps, edit="inplace", close_between=True):
    """conf: the object's fixed part (strict, has_key, has_pw, has_user); steps: [(scenario, text)].
    close_between False: open() is called again on the object WITHOUT close() in between (a caller retrying a failed open):
    whatever the earlier attempt left on the object (socket, library session, a completed key exchange) is still there"""
    rewrite(khfile, steps[0][1])
    t = stubs.make(lib, steps[0][0], khfile)
    traces, ckws = [], []
    for sc, text in steps:
        rewrite(khfile, text, edit)
        trace, ckw = stubs.open_on(t, lib, sc)
        traces.append(trace)
        ckws.append(ckw)
        if not close_between:
            continue
        try:
            t.close()
        except Exception:  # noqa
            pass
    return traces, ckws


def judge_order(M, lib, khfile, steps, traces, ckws):
    fails = []
    for i, ((sc, text), trace, ckw) in enumerate(zip(steps, traces, ckws)):
        key_bad = sc["skey"] not in M.spec_entry_keys(text, M.HOST, 22)
        if lib == "Asyncssh" and key_bad and sc["libv"] == "Trusted":
            continue          # a verdict the real library cannot give for this file (hypothesis lib_agrees)
        why = M.oracle_trace(sc, trace, key_bad)
        if why is None and lib == "Asyncssh" and sc["strict"] and ckw is not None and ckw.get("known_hosts") not in (None, khfile):
            why = "asyncssh was handed known_hosts=%r, the resolved file is %r" % (ckw.get("known_hosts"), khfile)
        if why:
            fails.append((i, "open #%d of the same object: %s" % (i + 1, why)))
    return fails


def coq_history(M, scens, close_between=True):
    return coq_list([x for sc in scens for x in (("HOpen %s" % M.coq_scen(sc), "HClose") if close_between else ("HOpen %s" % M.coq_scen(sc),))])


# ------------------------------------------------------------------------------------------------
# system transport: stand-in ssh, real ssh
# ------------------------------------------------------------------------------------------------
def install_standin(M, workdir):
    bindir = os.path.join(workdir, "bin")
    os.makedirs(bindir, exist_ok=True)
    sp = os.path.join(bindir, "ssh")
    with open(sp, "w") as f:
        f.write(M.STANDIN)
    os.chmod(sp, os.stat(sp).st_mode | stat.S_IXUSR | stat.S_IXGRP | stat.S_IXOTH)
    return bindir


def standin_history(M, workdir, strict, khopt, extra, texts, edit="inplace"):
    """ONE system-transport driver object, one spawn of the stand-in ssh per open; the known_hosts file
    (when it is a path) is rewritten before each open.  Returns (args as the model takes them, argv received per open)."""
    from scrapli.driver import Driver
    from scrapli.transport.plugins.system.transport import SystemTransport
    bindir = install_standin(M, workdir)
    old_path = os.environ.get("PATH", "")
    os.environ["PATH"] = bindir + os.pathsep + old_path
    out = os.path.join(workdir, "argv_hist.json")
    os.environ["C10_ARGV_OUT"] = out
    received = []
    try:
        kw = {} if strict is None else {"auth_strict_key": strict}
        to = {"open_cmd": extra} if extra else {}
        if isinstance(khopt, str):
            rewrite(khopt, texts[0])
        d = Driver(host="r1", auth_username="u", auth_password="p", transport="system", ssh_known_hosts_file=khopt,
                   transport_options=to, **kw)
        t = d.transport
        for text in texts:
            if isinstance(khopt, str):
                rewrite(khopt, text, edit)
            if os.path.exists(out):
                os.unlink(out)
            t.open()
            try:
                for _ in range(200):
                    try:
                        t.session.read(1024)
                    except EOFError:
                        break
            except Exception:  # noqa
                pass
            if hasattr(t.session, "wait"):
                t.session.wait()
            t.close()
            received.append(json.load(open(out)) if os.path.exists(out) else None)
        b, p = t._base_transport_args, t.plugin_transport_args
        magic_k, magic_c = SystemTransport.SSH_SYSTEM_KNOWN_HOSTS_FILE_MAGIC_STRING, SystemTransport.SSH_SYSTEM_CONFIG_MAGIC_STRING
        a = {"host": b.host, "port": b.port, "tsock": b.timeout_socket, "ttrans": b.timeout_transport, "key": p.auth_private_key,
             "user": p.auth_username, "strict": p.auth_strict_key is not False,
             "known": "MAGIC" if p.ssh_known_hosts_file == magic_k else p.ssh_known_hosts_file,
             "config": "MAGIC" if p.ssh_config_file == magic_c else p.ssh_config_file, "extra": extra or []}
    finally:
        os.environ["PATH"] = old_path
        os.environ.pop("C10_ARGV_OUT", None)
    return a, received


def judge_standin(M, strict, khopt, received, extra=None):
    fails = []
    user_sets_file = "userknownhostsfile" in json.dumps(extra or []).lower()   # the user's own option: with =yes nothing is trusted, fails closed
    for i, got in enumerate(received):
        if got is None:
            fails.append((i, "open #%d: the stand-in ssh did not record an argv" % (i + 1)))
            continue
        if strict is False:
            continue
        eff = M.ssh_effective(got, "StrictHostKeyChecking")
        ukh = M.ssh_effective(got, "UserKnownHostsFile")
        if eff != "yes":
            fails.append((i, "open #%d of the same object: ssh was asked for StrictHostKeyChecking=%r with strict checking on" % (i + 1, eff)))
        elif isinstance(khopt, str) and ukh != khopt:
            fails.append((i, "open #%d of the same object: ssh got UserKnownHostsFile=%r, resolved file is %r" % (i + 1, ukh, khopt)))
        elif ukh == "/dev/null" and not user_sets_file:
            fails.append((i, "open #%d of the same object: ssh got UserKnownHostsFile=/dev/null with strict checking on" % (i + 1)))
    return fails


def real_ssh_history(env, strict, khfile, steps, edit="inplace"):
    """the real ssh client driven by ONE GenericDriver object (system transport) through the steps"""
    from scrapli.driver import GenericDriver
    M = env.M
    port, select = env.addr[True]
    rewrite(khfile, steps[0][1])
    kw = {} if strict is None else {"auth_strict_key": strict}
    d = GenericDriver(host=M.HOST, port=port, auth_username="u", auth_password="SECRETPW", transport="system",
                      ssh_known_hosts_file=khfile, ssh_config_file=False, timeout_socket=30, timeout_transport=30, timeout_ops=30, **kw)
    out = []
    for sk, text in steps:
        rewrite(khfile, text, edit)
        select(sk)
        env.clear()
        try:
            d.open()
            fin = "Opened"
        except Exception as e:  # noqa
            fin = type(e).__name__
        got, stray = env.recorded(True, sk)
        out.append({"fin": fin, "got": got, "stray": stray})
        try:
            d.close()
        except Exception:  # noqa
            pass
    return out


def judge_real_ssh(M, keys, strict, port, steps, results):
    fails, inconclusive = [], 0
    for i, ((sk, text), r) in enumerate(zip(steps, results)):
        key_bad = keys.pub[sk][1] not in M.spec_entry_keys(text, M.HOST, port)
        if r["stray"]:
            fails.append((i, "open #%d: a server that was not selected recorded %s" % (i + 1, sorted({e[0] for e in r["stray"]}))))
        if strict is not False and key_bad:
            if r["got"]:
                fails.append((i, "real ssh binary, open #%d of the same object: server (key %s) recorded %s although its key is missing from / "
                                 "different to known_hosts at that open" % (i + 1, sk, sorted({e[0] for e in r["got"]}))))
            elif "Timeout" in r["fin"]:
                inconclusive += 1           # machine too slow: nothing was sent, no verdict
            elif r["fin"] != "ScrapliAuthenticationFailed":
                fails.append((i, "real ssh binary, open #%d of the same object ended with %s instead of ScrapliAuthenticationFailed" % (i + 1, r["fin"])))
    return fails, inconclusive


def bracket_text(M, keys, listed, port):
    line = "" if listed is None else "[%s]:%d %s %s\n" % (M.HOST, port, keys.pub[listed][0], keys.pub[listed][1])
    return line + "10.9.9.9 %s %s\n" % keys.pub["B"]


# ------------------------------------------------------------------------------------------------
# the suite
# ------------------------------------------------------------------------------------------------
def plan_loopback(rng, thorough):
    """(history kind, lib, via, strict, method, accepts, format, genuine key, edit).  quick: the takeover / reverse-order /
    edited-file histories with password AND key, plain AND hashed per library, every other kind once per library with rotating
    (method, format), a few with a rejecting server / non-strict / comma lists; the histories that change the host's entry get
    the edit modes in which the modification time does not move (edit-to-other: pinned AND rename-pinned per library, the other
    kinds rotating over the four modes), + per library an entry removed / replaced under a pinned time seen by a NEW object over
    the same path; thorough: the matrix, the edit modes rotating through it, + every (edit kind, lib, mode) with new objects."""
    plan = []
    if thorough:
        n = rng.randrange(4)
        for kind in KINDS:
            for lib in ("Paramiko", "Asyncssh"):
                for method in ("password", "key", "both"):
                    for fmt in ("plain", "hashed", "comma"):
                        for via in ("transport", "driver"):
                            acc = rng.random() < 0.8
                            if lib == "Paramiko" and method == "both" and not acc:
                                acc = True
                            n += 1
                            plan.append((kind, lib, via, rng.choice([None, True]), method, acc, fmt, rng.choice(["A", "R"]), EDITS[n % 4]))
                plan.append((kind, lib, "transport", False, "password", True, "plain", "A", "inplace"))
                if kind in EDIT_KINDS:
                    for edit in EDITS:
                        plan.append((kind, lib, "new-object", rng.choice([None, True]), rng.choice(["password", "key"]), True,
                                     rng.choice(["plain", "hashed", "comma"]), rng.choice(["A", "R"]), edit))
        return plan
    core = ("good-swapped", "swapped-good", "edit-to-other")
    combos = [("password", "plain"), ("key", "hashed"), ("password", "hashed"), ("key", "plain")]
    rot = rng.randrange(4)
    erot = rng.randrange(4)
    for kind in KINDS:
        for lib in ("Paramiko", "Asyncssh"):
            if kind in core:       # the takeover / reverse / edit histories: password and key, plain and hashed, per library
                fmts = ["plain", "hashed"]
                rng.shuffle(fmts)
                todo = list(zip(("password", "key"), fmts))
            else:
                rot += 1
                todo = [combos[rot % 4]]
            if kind == "edit-to-other":
                edits = ["pinned", "rename-pinned"]
                rng.shuffle(edits)
            elif kind in EDIT_KINDS:
                erot += 1
                edits = [("pinned", "rename-pinned", "rename", "inplace")[erot % 4]]
            else:
                edits = [rng.choice(EDITS) for _ in todo]
            for (method, fmt), edit in zip(todo, edits):
                plan.append((kind, lib, rng.choice(["transport", "driver"]), rng.choice([None, True]), method, True, fmt, rng.choice(["A", "R"]), edit))
    # the entry removed / replaced while the modification time stays, seen by a NEW object over the same path
    for lib in ("Paramiko", "Asyncssh"):
        ms = ["password", "key"]
        rng.shuffle(ms)
        plan.append(("edit-to-absent", lib, "new-object", rng.choice([None, True]), ms[0], True, rng.choice(["plain", "hashed", "comma"]),
                     rng.choice(["A", "R"]), rng.choice(["pinned", "rename-pinned"])))
        plan.append((rng.choice(["edit-to-other", "swap-edit-crossed"]), lib, "new-object", rng.choice([None, True]), ms[1], True,
                     rng.choice(["plain", "hashed"]), rng.choice(["A", "R"]), rng.choice(["pinned", "rename-pinned"])))
    # beside the covering part: a few with a server that rejects, non-strict objects, comma lists, both methods
    for _ in range(4):
        lib = rng.choice(["Paramiko", "Asyncssh"])
        plan.append((rng.choice(list(KINDS)), lib, rng.choice(["transport", "driver"]), rng.choice([None, True, False]),
                     rng.choice(["password", "key"] + (["both"] if lib == "Asyncssh" else [])), rng.random() < 0.5,
                     rng.choice(["plain", "hashed", "comma"]), rng.choice(["A", "R"]), rng.choice(EDITS)))
    return plan


def run_suite(rep, M, keys, write_kh, scrapli_entry, dist, thorough, only_search=False):
    """runs the histories; returns dict(cases, terms, fails, coverage).  fails: [(case dict, why)]"""
    rng = rep.rng
    d = dist.setdefault("history", {})

    def count(*ks):
        for k in ks:
            d[k] = d.get(k, 0) + 1

    cases, terms, term_case, fails = [], [], [], []
    hdir = os.path.join(rep.workdir, "kh_hist")
    shutil.rmtree(hdir, ignore_errors=True)
    os.makedirs(hdir)
    nfile = [0]

    def fresh_kh():
        nfile[0] += 1
        return os.path.join(hdir, "kh_%d" % nfile[0])

    # ---- order: stub libraries, exact traces -----------------------------------------------------
    n_order = 0
    if not only_search:
        stubs = M.Stubs(rep.workdir, keys.client_key_path)
        try:
            pub3 = {k: keys.pub[k] for k in ("A", "B", "R")}
            kinds = list(KINDS)
            for i in range(600 if thorough else 99):
                lib = M.LIBS[i % 3]
                kind = kinds[(i // 3) % len(kinds)] if i < 3 * len(kinds) * 2 else "random"
                strict = True if i < 3 * len(kinds) else rng.random() < 0.8
                has_key, has_pw = rng.choice([(True, False), (False, True), (True, True), (True, True)])
                has_user = rng.random() < 0.9
                fmt = rng.choice(["plain", "hashed", "comma"])
                roles = resolve(kind, "A") if kind != "random" else random_steps(rng, "A")
                # first pass over the kinds: the histories that edit the host's entry do it with the modification time pinned
                if i < 3 * len(kinds):
                    edit = "pinned" if kind in EDIT_KINDS else "inplace"
                else:
                    edit = rng.choice(EDITS)
                khfile = fresh_kh()
                steps = []
                roles = [(server if server in pub3 else "B", listed if listed in pub3 or listed is None else "B") for server, listed in roles]
                texts = kh_versions(M, rng, pub3, roles, fmt, 22, same_shape=edit in ("pinned", "rename-pinned"))
                for (server, listed), text in zip(roles, texts):
                    # what scrapli's lookup says about THIS content: read from a path of its own, never from the history's path
                    entry_of_content = scrapli_entry(write_kh(text))
                    skey = keys.pub[server][1]
                    key_bad = skey not in M.spec_entry_keys(text, M.HOST, 22)
                    calm = kind != "random" or rng.random() < 0.6
                    sc = {"strict": strict, "entry": entry_of_content, "skey": skey,
                          "libv": ("Trusted" if not key_bad else rng.choice(["Untrusted", "NoCommonAlg"])) if lib == "Asyncssh" else "Trusted",
                          "handshake_ok": True if calm else rng.random() < 0.8, "has_key": has_key, "has_pw": has_pw, "has_user": has_user,
                          "key_ok": True if calm else rng.random() < 0.6, "pw_ok": True if calm else rng.random() < 0.6,
                          "kbd_ok": (rng.random() < 0.5) if lib == "Ssh2" else False}
                    steps.append((sc, text))
                traces, ckws = order_history(stubs, lib, None, khfile, steps, edit)
                case = {"suite": "hostkey-history", "kind": "order", "history": kind, "lib": lib, "format": fmt, "edit": edit,
                        "steps": [{"scenario": sc, "known_hosts": text, "trace": [M.EVN.get(e, e) for e in tr]}
                                  for (sc, text), tr in zip(steps, traces)]}
                cases.append(case)
                terms.append("HcOrder %s %s %s" % (lib, coq_history(M, [sc for sc, _ in steps]), coq_list([coq_bytes(tr) for tr in traces])))
                term_case.append(len(cases) - 1)
                for ix, why in judge_order(M, lib, khfile, steps, traces, ckws):
                    fails.append((case, why))
                n_order += 1
                count("order", "order_" + lib, "order_kind_" + kind, "order_edit_" + edit, "opens_%d" % len(steps))
                rep.case(("hist-order", lib, kind, fmt, edit, strict, has_key, has_pw, has_user,
                          tuple((sc["skey"] == keys.pub["A"][1], sc["entry"] == sc["skey"], sc["handshake_ok"], sc["key_ok"], sc["pw_ok"], sc["libv"]) for sc, _ in steps)),
                         nontrivial=strict)
            # ---- retries: open() again WITHOUT close() ---------------------------------------------
            nk = list(NOCLOSE_KINDS)
            for i in range((12 if thorough else 2) * 3 * len(nk)):
                lib = M.LIBS[i % 3]
                kind = nk[(i // 3) % len(nk)]
                has_key, has_pw = rng.choice([(True, False), (False, True), (True, True), (False, True)])
                fmt = rng.choice(["plain", "hashed", "comma"])
                roles = [(ROLE["A"][s], None if l is None else ROLE["A"][l]) for s, l in NOCLOSE_KINDS[kind]]
                khfile = fresh_kh()
                texts = kh_versions(M, rng, pub3, roles, fmt, 22, same_shape=False)
                steps = []
                for j, ((server, listed), text) in enumerate(zip(roles, texts)):
                    entry_of_content = scrapli_entry(write_kh(text))
                    skey = keys.pub[server][1]
                    key_bad = skey not in M.spec_entry_keys(text, M.HOST, 22)
                    accepts = not (kind == "rejected-then-other" and j == 0)
                    steps.append(({"strict": True, "entry": entry_of_content, "skey": skey,
                                   "libv": ("Trusted" if not key_bad else rng.choice(["Untrusted", "NoCommonAlg"])) if lib == "Asyncssh" else "Trusted",
                                   "handshake_ok": True, "has_key": has_key, "has_pw": has_pw, "has_user": True,
                                   "key_ok": accepts, "pw_ok": accepts, "kbd_ok": accepts if lib == "Ssh2" else False}, text))
                traces, ckws = order_history(stubs, lib, None, khfile, steps, "inplace", close_between=False)
                case = {"suite": "hostkey-history", "kind": "order", "history": "noclose:" + kind, "lib": lib, "format": fmt, "edit": "inplace",
                        "close_between": False,
                        "steps": [{"scenario": sc, "known_hosts": text, "trace": [M.EVN.get(e, e) for e in tr]}
                                  for (sc, text), tr in zip(steps, traces)]}
                cases.append(case)
                terms.append("HcOrder %s %s %s" % (lib, coq_history(M, [sc for sc, _ in steps], close_between=False), coq_list([coq_bytes(tr) for tr in traces])))
                term_case.append(len(cases) - 1)
                for ix, why in judge_order(M, lib, khfile, steps, traces, ckws):
                    fails.append((case, why + " [open() retried on the object without close()]"))
                n_order += 1
                count("order", "order_" + lib, "order_noclose", "order_noclose_" + kind, "opens_%d" % len(steps))
                rep.case(("hist-order-noclose", lib, kind, fmt, has_key, has_pw,
                          tuple((sc["skey"] == keys.pub["A"][1], sc["entry"] == sc["skey"], sc["key_ok"], sc["libv"]) for sc, _ in steps)), nontrivial=True)
        finally:
            stubs.restore()

    # ---- loopback: real libraries, switchable address -------------------------------------------
    n_loop = n_real = n_standin = 0
    real = "no ssh binary on PATH: not run"
    env = Env(M, keys)
    try:
        plan = plan_loopback(rng, thorough or only_search)
        for (kind, lib, via, strict, method, acc, fmt, genuine, edit) in plan:
            port = env.addr[acc][0]
            roles = resolve(kind, genuine)
            texts = kh_versions(M, rng, keys.pub, roles, fmt, port, same_shape=edit in ("pinned", "rename-pinned"))
            steps = [(server, text) for (server, _), text in zip(roles, texts)]
            khfile = fresh_kh()
            # what scrapli's lookup / asyncssh's matcher say about each version of the file (model inputs): every version is
            # read from a path of its own, never from the history's path — the content at an open decides, not what was read before
            views = []
            for server, text in steps:
                vp = write_kh(text)
                views.append((scrapli_entry(vp), M.lib_verdict(vp, M.HOST, port, keys.pub[server][0], keys.pub[server][1])))
            results, drv = loop_history(env, lib, via, strict, method, acc, khfile, steps, edit)
            jf, bad = judge_loop(M, keys, strict, port, steps, results)
            case = loop_case(M, keys, kind, lib, via, strict, method, acc, fmt, port, steps, results, bad, edit)
            cases.append(case)
            for ix, why in jf:
                fails.append((case, why))
            strict_eff = strict is not False
            if drv.transport.plugin_transport_args.auth_strict_key is not strict_eff:
                fails.append((case, "auth_strict_key argument %r reached the transport as %r" % (strict, drv.transport.plugin_transport_args.auth_strict_key)))
            has_pw, has_key = method in ("password", "both"), method in ("key", "both")
            comparable = not (lib == "Paramiko" and method == "both" and not acc)
            scens, obs = [], []
            for (server, text), (entry, libv_any), r in zip(steps, views, results):
                if (isinstance(entry, str) and entry.startswith("EXC:")) or (lib == "Asyncssh" and libv_any is None):
                    comparable = False
                    break
                scens.append({"strict": strict_eff, "entry": entry, "skey": keys.pub[server][1], "libv": libv_any if lib == "Asyncssh" else "Trusted",
                              "handshake_ok": True, "has_key": has_key, "has_pw": has_pw, "has_user": True, "key_ok": acc, "pw_ok": acc, "kbd_ok": False})
                pw_off = any(e[0] == "password" and e[2] != "" for e in r["got"])
                key_off = any(e[0] == "publickey" for e in r["got"])
                obs.append("(%d, %s, %s)" % (r["fin"], coq_bool(pw_off), coq_bool(key_off)))
            if comparable:
                terms.append("HcLoop %s %s %s" % (lib, coq_history(M, scens), coq_list(obs)))
                term_case.append(len(cases) - 1)
            n_loop += 1
            count("loopback", "loop_" + lib, "loop_kind_" + kind, "loop_via_" + via, "loop_method_" + method, "loop_fmt_" + fmt,
                  "loop_edit_" + edit, "loop_edit_%s_%s" % (edit, lib), "loop_strict_" + str(strict),
                  *(["loop_same_size_edit"] if len({len(t) for t in texts}) == 1 and len(set(texts)) > 1 and edit in ("pinned", "rename-pinned") else []), "opens_%d" % len(steps), *("loop_end_%s" % M.EVN.get(r["fin"], r["fin"]) for r in results))
            rep.case(("hist-loop", kind, lib, via, edit, strict, method, acc, fmt, genuine, tuple(texts)), nontrivial=strict_eff)
            if only_search and fails:
                break

        # ---- system transport: stand-in ssh, one spawn per open ---------------------------------
        if not only_search:
            khp = fresh_kh()
            lineA = "%s %s %s\n" % (M.HOST, keys.pub["A"][0], keys.pub["A"][1])
            lineB = "%s %s %s\n" % (M.HOST, keys.pub["B"][0], keys.pub["B"][1])
            sysplan = [(None, khp, None, [lineA, lineB], "pinned"), (True, khp, ["-o", "StrictHostKeyChecking=no"], [lineA, "", lineA], "rename-pinned"),
                       (False, khp, None, [lineA, lineB], "inplace")]
            if thorough:
                sysplan += [(None, True, None, ["", ""], "inplace")] + [(s, k, e, [lineA, lineB, lineA], rng.choice(EDITS)) for s in (None, True, False) for k in (khp, True, False)
                            for e in (None, ["-o", "StrictHostKeyChecking=no"], "-oUserKnownHostsFile=/dev/null")]
            for strict, khopt, extra, texts, edit in sysplan:
                a, received = standin_history(M, rep.workdir, strict, khopt, extra, texts, edit)
                case = {"suite": "hostkey-history", "kind": "standin", "strict_arg": strict, "ssh_known_hosts_file": khopt if not isinstance(khopt, str) else "<file>",
                        "open_cmd": extra, "known_hosts_versions": texts, "argv_received": received, "edit": edit}
                cases.append(case)
                for ix, why in judge_standin(M, strict, khopt, received, extra):
                    fails.append((case, why))
                if all(g is not None for g in received):
                    obs = [["ssh"] + g[1:] for g in received]
                    terms.append("HcArgv %s %s" % (M.coq_sysargs(a), coq_list([coq_list([coq_bytes(x.encode("utf-8")) for x in g]) for g in obs])))
                    term_case.append(len(cases) - 1)
                n_standin += 1
                count("standin", "standin_edit_" + edit, "opens_%d" % len(texts))
                rep.case(("hist-standin", strict, repr(khopt if not isinstance(khopt, str) else "file"), repr(extra), len(texts), edit), nontrivial=strict is not False)

            # ---- the real ssh binary ------------------------------------------------------------
            if shutil.which("ssh"):
                real = {"binary": shutil.which("ssh"), "histories": 0, "opens": 0, "failures": 0, "outcomes": []}
                port = env.addr[True][0]
                rplan = [("good-swapped", None, "inplace"), ("edit-to-other", None, rng.choice(["pinned", "rename-pinned"]))]
                if thorough:
                    rplan = [(k, s, rng.choice(EDITS)) for k in KINDS for s in (None, True)] + [("good-swapped", False, "inplace")] + \
                            [(k, None, e) for k in ("edit-to-other", "edit-to-absent") for e in ("pinned", "rename-pinned", "rename")]
                for kind, strict, edit in rplan:
                    roles = resolve(kind, "A")
                    steps = [(server, bracket_text(M, keys, listed, port)) for server, listed in roles]
                    results = real_ssh_history(env, strict, fresh_kh(), steps, edit)
                    jf, inconclusive = judge_real_ssh(M, keys, strict, port, steps, results)
                    case = {"suite": "hostkey-history", "kind": "real-ssh", "history": kind, "strict_arg": strict, "port": port, "edit": edit,
                            "key_table": {n: v[1] for n, v in keys.pub.items()},
                            "steps": [{"server_key": sk, "known_hosts": text, "final": r["fin"], "server_recorded": [e[0] for e in r["got"]]}
                                      for (sk, text), r in zip(steps, results)]}
                    cases.append(case)
                    for ix, why in jf:
                        fails.append((case, why))
                    real["histories"] += 1
                    real["opens"] += len(steps)
                    real["failures"] += len(jf)
                    if inconclusive:
                        real["inconclusive_timeouts"] = real.get("inconclusive_timeouts", 0) + inconclusive
                    real["outcomes"].append([kind, str(strict), edit] + [[sk, r["fin"], len(r["got"])] for (sk, _), r in zip(steps, results)])
                    n_real += 1
                    count("real_ssh", "real_ssh_edit_" + edit)
                    rep.case(("hist-realssh", kind, strict, edit), nontrivial=strict is not False)
    finally:
        env.close()
    return {"cases": cases, "terms": terms, "term_case": term_case, "fails": fails,
            "counts": {"order": n_order, "loopback": n_loop, "standin": n_standin, "real_ssh": n_real}, "real_ssh": real}


# ------------------------------------------------------------------------------------------------
# replay
# ------------------------------------------------------------------------------------------------
def subst_keys(text, table, keys, old_port, port):
    for n, old in table.items():
        text = text.replace(old, "\0KEY_%s\0" % n)
    for n in table:
        text = text.replace("\0KEY_%s\0" % n, keys.pub[n][1])
    if old_port is not None:
        text = text.replace("]:%d " % old_port, "]:%d " % port)
    return text


def replay(M, c, workdir):
    kind = c["kind"]
    keys = M.Keys(workdir)
    khfile = os.path.join(workdir, "kh_hist")
    if os.path.exists(khfile):
        os.unlink(khfile)
    if kind == "order":
        stubs = M.Stubs(workdir, keys.client_key_path)
        try:
            steps = [(st["scenario"], st["known_hosts"]) for st in c["steps"]]
            traces, ckws = order_history(stubs, c["lib"], None, khfile, steps, c.get("edit", "inplace"), close_between=c.get("close_between", True))
        finally:
            stubs.restore()
        print("transport:", c["lib"], "(stub library), ONE object, %d opens%s; known_hosts versions reach the path by: %s" % (
            len(steps), "" if c.get("close_between", True) else " WITHOUT close() in between", c.get("edit", "inplace")))
        for i, ((sc, text), tr) in enumerate(zip(steps, traces)):
            print("open #%d: server key %s... known_hosts entry %s  trace: %s" % (
                i + 1, sc["skey"][-12:], "none" if sc["entry"] is None else sc["entry"][-12:] + "...", [M.EVN.get(e, e) for e in tr]))
        fails = judge_order(M, c["lib"], khfile, steps, traces, ckws)
    elif kind == "loopback":
        env = Env(M, keys, accepts=(c["server_accepts"],))
        try:
            port = env.addr[c["server_accepts"]][0]
            steps = [(st["server_key"], subst_keys(st["known_hosts"], c["key_table"], keys, c.get("port"), port)) for st in c["steps"]]
            results, _ = loop_history(env, c["lib"], c["via"], c["strict_arg"], c["method"], c["server_accepts"], khfile, steps, c.get("edit", "inplace"))
        finally:
            env.close()
        fails, bad = judge_loop(M, keys, c["strict_arg"], port, steps, results)
        print("transport:", c["lib"], " via:", c["via"], " auth_strict_key:", c["strict_arg"], " method:", c["method"],
              " %s, %d opens; known_hosts versions reach the path by: %s" % ("a NEW object per open over one known_hosts path" if c["via"] == "new-object" else "ONE object",
                                                                             len(steps), c.get("edit", "inplace")))
        for i, ((sk, text), r, b) in enumerate(zip(steps, results, bad)):
            print("open #%d: server presents key %s (%s...)%s\nknown_hosts at this open:\n%s" % (
                i + 1, sk, keys.pub[sk][1][:32], "  -- missing from / different to the entry" if b else "", text.rstrip("\n")))
            print("   open() ended with: %s   server recorded: %s" % (
                r["exc"] or M.EVN.get(r["fin"]), [(e[0], e[1], e[2] if e[0] == "password" else e[2][:16] + "...") for e in r["got"]]))
    elif kind == "standin":
        khopt = khfile if c["ssh_known_hosts_file"] == "<file>" else c["ssh_known_hosts_file"]
        a, received = standin_history(M, workdir, c["strict_arg"], khopt, c["open_cmd"], c["known_hosts_versions"], c.get("edit", "inplace"))
        for i, g in enumerate(received):
            print("open #%d: argv received by the stand-in ssh: %s" % (i + 1, g))
        fails = judge_standin(M, c["strict_arg"], khopt, received, c["open_cmd"])
    elif kind == "real-ssh":
        if not shutil.which("ssh"):
            print("no ssh binary on PATH")
            return 1
        env = Env(M, keys, accepts=(True,))
        try:
            port = env.addr[True][0]
            steps = [(st["server_key"], subst_keys(st["known_hosts"], c["key_table"], keys, c.get("port"), port)) for st in c["steps"]]
            results = real_ssh_history(env, c["strict_arg"], khfile, steps, c.get("edit", "inplace"))
        finally:
            env.close()
        fails, _ = judge_real_ssh(M, keys, c["strict_arg"], port, steps, results)
        for i, ((sk, text), r) in enumerate(zip(steps, results)):
            print("open #%d: server key %s  ended with %s  server recorded %s" % (i + 1, sk, r["fin"], [e[0] for e in r["got"]]))
    else:
        print("unknown history kind %r" % kind)
        return 1
    for ix, why in fails:
        print("property FAILS on this history: " + why)
    if not fails:
        print("property holds on this history")
    return 1 if fails else 0
