"""Shared machinery of the /verif checks: environment, Coq build, model evaluation (cases.v +
vm_compute), evidence, violation / known-finding reporting.  Used by ./check."""
import fcntl
import hashlib
import json
import os
import random
import re
import shutil
import subprocess
import sys
import tempfile
import time

VERIF = os.path.dirname(os.path.dirname(os.path.abspath(__file__)))
REPO = os.environ.get("VERIF_REPO", "/repo")
COQ = os.path.join(VERIF, "coq")
BUILD = os.path.join(VERIF, "_build")
JOBS = int(os.environ.get("VERIF_JOBS", "16"))

FORBIDDEN = re.compile(
    r"\b(Admitted|admit|Axiom|Axioms|Parameter|Parameters|Conjecture|Admit Obligations|"
    r"Unset Guard Checking|Unset Positivity Checking|Unset Universe Checking|bypass_check|"
    r"type-in-type|impredicative-set)\b"
)
OBLIGATION = re.compile(r"^\s*(Theorem|Lemma|Example|Corollary|Fact|Remark|Proposition)\s+([A-Za-z0-9_']+)", re.M)

TRUSTED_BASE = [
    "Coq 8.16.1 kernel + vm_compute (no native_compute)",
    "standard library only; axioms: none declared (Print Assumptions output recorded per theorem)",
    "gen/*.py translators (CPython import/ast/re._parser of the current /repo tree)",
    "correspondence harness: scripted transports / fake sockets / canonicalisers / generators; CPython 3.12",
    "hand-written Gallina model of the algorithm (tied to the code only by the correspondence run)",
]


def strip_comments(text):
    out, depth, i = [], 0, 0
    while i < len(text):
        if text.startswith("(*", i):
            depth += 1
            i += 2
        elif text.startswith("*)", i) and depth:
            depth -= 1
            i += 2
        else:
            if not depth:
                out.append(text[i])
            i += 1
    return "".join(out)


def sh(cmd, timeout=600, cwd=None, env=None):
    t0 = time.time()
    try:
        p = subprocess.run(cmd, shell=isinstance(cmd, str), cwd=cwd, env=env, timeout=timeout,
                           stdout=subprocess.PIPE, stderr=subprocess.STDOUT, text=True, errors="replace")
        return p.returncode, p.stdout, time.time() - t0
    except subprocess.TimeoutExpired as e:
        out = e.stdout if isinstance(e.stdout, str) else (e.stdout or b"").decode("utf8", "replace")
        return 124, out + "\n[timeout]", time.time() - t0


# --------------------------------------------------------------------------------------------
# Coq
# --------------------------------------------------------------------------------------------
def ensure_static():
    """(Re)build the static Coq development under flock; returns (ok, log)."""
    os.makedirs(BUILD, exist_ok=True)
    with open(os.path.join(COQ, ".build.lock"), "w") as lock:
        fcntl.flock(lock, fcntl.LOCK_EX)
        files = []
        for d in ("base", "model", "proofs"):
            for root, _, fs in os.walk(os.path.join(COQ, d)):
                files += [os.path.relpath(os.path.join(root, f), COQ) for f in fs if f.endswith(".v")]
        files.sort()
        listing = "\n".join(files) + "\n"
        lf = os.path.join(COQ, ".files")
        if not os.path.exists(lf) or open(lf).read() != listing or not os.path.exists(os.path.join(COQ, "Makefile")):
            open(lf, "w").write(listing)
            open(os.path.join(COQ, "_CoqProject"), "w").write("-Q . Verif\n" + listing)
            rc, out, _ = sh("coq_makefile -f _CoqProject -o Makefile", cwd=COQ, timeout=120)
            if rc:
                return False, out
        rc, out, _ = sh("make -j%d" % JOBS, cwd=COQ, timeout=3000)
        return rc == 0, out


def static_sources(names):
    """All obligations in the given static files (paths relative to coq/)."""
    obl = []
    for n in names:
        p = os.path.join(COQ, n)
        if os.path.exists(p):
            obl += [(n, m.group(2)) for m in OBLIGATION.finditer(strip_comments(open(p).read()))]
    return obl


def forbidden_tokens(paths):
    bad = []
    for p in paths:
        if os.path.exists(p):
            txt = strip_comments(open(p).read())
            for m in FORBIDDEN.finditer(txt):
                bad.append("%s: %s" % (p, m.group(0)))
    return bad


def dep_closure(vfile):
    """Static .v files (relative to coq/) that vfile transitively Requires (Verif.* only)."""
    seen, todo = [], [vfile]
    index = {}
    for d in ("base", "model", "proofs"):
        for root, _, fs in os.walk(os.path.join(COQ, d)):
            for f in fs:
                if f.endswith(".v"):
                    index[f[:-2]] = os.path.relpath(os.path.join(root, f), COQ)
    while todo:
        f = todo.pop()
        p = f if os.path.isabs(f) else os.path.join(COQ, f)
        if not os.path.exists(p):
            continue
        txt = strip_comments(open(p).read())
        for m in re.finditer(r"From\s+Verif\s+Require\s+(?:Import|Export)?\s*([^.]*)\.", txt):
            for name in m.group(1).split():
                rel = index.get(name)
                if rel and rel not in seen:
                    seen.append(rel)
                    todo.append(rel)
    return sorted(seen)


def coqc(vpath, workdir, timeout=900):
    """Compile one file in workdir (logical path Gen for workdir, Verif for coq/)."""
    cmd = ["coqc", "-Q", COQ, "Verif", "-Q", workdir, "Gen", vpath]
    return sh(cmd, cwd=workdir, timeout=timeout)


def coq_bytes(b):
    return "[" + ";".join(str(x) for x in b) + "]"


def coq_list(items):
    return "[" + "; ".join(items) + "]"


def coq_bool(b):
    return "true" if b else "false"


def coq_string_bytes(s):
    return coq_bytes(s.encode("latin-1") if isinstance(s, str) else s)


def parse_nat_list(out):
    """Parse the result of `Eval vm_compute in (... : list nat)`."""
    m = re.search(r"=\s*(\[[^\]]*\]|nil)", out, re.S)
    if not m:
        return None
    body = m.group(1)
    if body == "nil":
        return []
    return [int(x) for x in re.findall(r"\d+", body)]


def eval_cases(workdir, name, header, case_terms, check_fn, shard=400, timeout=900, case_type=None):
    """Evaluate `check_fn case = true` for every case inside Coq with vm_compute.

    header: Coq text (Requires, definition of check_fn : case -> bool).
    case_terms: list of Coq terms.  Returns (bad_indices, log) ; bad_indices None on failure."""
    os.makedirs(workdir, exist_ok=True)
    shards = [case_terms[i:i + shard] for i in range(0, len(case_terms), shard)] or [[]]
    procs = []
    for k, sh_cases in enumerate(shards):
        fn = os.path.join(workdir, "%s_%d.v" % (name, k))
        with open(fn, "w") as f:
            f.write(header + "\n")
            # the element type is taken from check_fn's domain (so an all-empty field such as `[]` still elaborates)
            ty = " : list (%s)" % case_type if case_type else ""
            f.write("Definition cases_of_ {A} (f : A -> bool) (l : list A) := l.\n")
            f.write("Definition cases%s := cases_of_ %s %s.\n" % (ty, check_fn, coq_list(sh_cases)) if sh_cases else "Definition cases : list nat := [].\n")
            if sh_cases:
                f.write(
                    "Fixpoint bad_ix {A} (f : A -> bool) (i : nat) (l : list A) : list nat :=\n"
                    "  match l with [] => [] | x :: r => if f x then bad_ix f (S i) r else i :: bad_ix f (S i) r end.\n"
                    "Eval vm_compute in (bad_ix %s O cases).\n" % check_fn)
            else:
                f.write("Eval vm_compute in (@nil nat).\n")
        procs.append((k, fn))
    bad, logs = [], []
    # run shards in parallel
    running = []
    for k, fn in procs:
        p = subprocess.Popen(["timeout", str(timeout), "coqc", "-Q", COQ, "Verif", "-Q", workdir, "Gen", fn],
                             cwd=workdir, stdout=subprocess.PIPE, stderr=subprocess.STDOUT, text=True)
        running.append((k, p))
        if len(running) >= JOBS:
            kk, pp = running.pop(0)
            out = pp.communicate()[0]
            logs.append((kk, pp.returncode, out))
    for kk, pp in running:
        out = pp.communicate()[0]
        logs.append((kk, pp.returncode, out))
    for kk, rc, out in sorted(logs):
        if rc != 0:
            return None, "shard %d: rc=%d\n%s" % (kk, rc, out[-3000:])
        ix = parse_nat_list(out)
        if ix is None:
            return None, "shard %d: unparsable output\n%s" % (kk, out[-2000:])
        bad += [kk * shard + i for i in ix]
    return bad, ""


def eval_term(workdir, name, header, term, timeout=300):
    """Eval vm_compute of one term; returns raw output text (for replay files)."""
    os.makedirs(workdir, exist_ok=True)
    fn = os.path.join(workdir, name + ".v")
    with open(fn, "w") as f:
        f.write(header + "\nEval vm_compute in (%s).\n" % term)
    rc, out, _ = coqc(fn, workdir, timeout=timeout)
    return out.strip()


# --------------------------------------------------------------------------------------------
# report / evidence
# --------------------------------------------------------------------------------------------
class Report:
    def __init__(self, pid, tier, seed, level="proof"):
        self.pid, self.tier, self.seed, self.level = pid, tier, seed, level
        self.t0 = time.time()
        self.obligations = []      # (file, name)
        self.discharged = []       # (file, name)
        self.assumptions_out = {}  # theorem -> Print Assumptions text
        self.samples = []
        self.coverage = {}
        self.evaluations = 0
        self.nontrivial = set()
        self.rule = ""
        self.violations = []       # dicts
        self.known_reported = []
        self.notes = []
        self.checker_cmd = ""
        self.workdir = os.path.join(BUILD, pid)
        os.makedirs(self.workdir, exist_ok=True)
        self.findings = load_known_findings(pid)
        self.rng = random.Random(seed * 1000003 + int(hashlib.sha256(pid.encode()).hexdigest()[:6], 16))
        self.extra_assumptions = []
        self.broken = []           # names of obligations / suites that no longer check

    # -- counting ---------------------------------------------------------------------------
    def case(self, key=None, nontrivial=True):
        self.evaluations += 1
        if nontrivial and key is not None:
            self.nontrivial.add(key if isinstance(key, (str, bytes, int, tuple)) else json.dumps(key, sort_keys=True, default=repr))

    def sample(self, s, limit=6):
        if len(self.samples) < limit:
            self.samples.append(s)

    # -- violations -------------------------------------------------------------------------
    def known_match(self, signature):
        for f in self.findings:
            if f.get("kind") == "known" and f.get("signature") == signature:
                return f
        return None

    def violation(self, what, replay, signature=None, no_input=False):
        """Record a violation unless it matches a listed known finding signature."""
        if signature:
            f = self.known_match(signature)
            if f is not None:
                if f["id"] not in [k["id"] for k in self.known_reported]:
                    self.known_reported.append({"id": f["id"], "what": f["what"]})
                return False
        os.makedirs(os.path.join(VERIF, "replays", self.pid), exist_ok=True)
        n = len(self.violations)
        path = os.path.join(VERIF, "replays", self.pid, "%s_%s_%d.json" % (self.tier, self.seed, n))
        replay = dict(replay)
        replay.update({"property": self.pid, "what": what, "no_failing_input_found": bool(no_input)})
        with open(path, "w") as f:
            json.dump(replay, f, indent=1, default=repr)
        self.violations.append({"what": what, "replay": path, "no_input": no_input})
        return True

    def known(self, signature):
        """Report a listed known finding that was re-confirmed by replay on this run."""
        f = self.known_match(signature)
        if f is not None and f["id"] not in [k["id"] for k in self.known_reported]:
            self.known_reported.append({"id": f["id"], "what": f["what"]})
        return f is not None

    # -- Coq ----------------------------------------------------------------------------------
    def build_static(self):
        ok, log = ensure_static()
        if not ok:
            self.notes.append("static Coq build failed:\n" + log[-4000:])
        return ok, log

    def add_static_obligations(self, props_file, built_ok):
        deps = dep_closure(props_file)
        obl = static_sources(deps)
        self.obligations += obl
        for (f, n) in obl:
            if os.path.exists(os.path.join(COQ, f[:-2] + ".vo")) and built_ok:
                self.discharged.append((f, n))
        bad = forbidden_tokens([os.path.join(COQ, d) for d in deps])
        if bad:
            self.notes.append("forbidden tokens: " + "; ".join(bad))
            self.broken.append("forbidden-token:" + bad[0])
        return deps

    def compile_props(self, vfile, src_dir=None):
        """Compile a props/ or generated-proof file in the work dir, capture Print Assumptions."""
        src = vfile if os.path.isabs(vfile) else os.path.join(COQ, vfile)
        dst = os.path.join(self.workdir, os.path.basename(src))
        if os.path.abspath(src) != os.path.abspath(dst):
            shutil.copy(src, dst)
        txt = strip_comments(open(dst).read())
        names = [(os.path.basename(src), m.group(2)) for m in OBLIGATION.finditer(txt)]
        self.obligations += names
        bad = forbidden_tokens([dst])
        if bad:
            self.broken.append("forbidden-token:" + bad[0])
            self.notes.append("forbidden tokens: " + "; ".join(bad))
            return False, "forbidden tokens"
        rc, out, _ = coqc(dst, self.workdir)
        if rc == 0:
            self.discharged += names
            # Print Assumptions output:  blocks separated by theorem order
            blocks = re.split(r"\n(?=Closed under the global context|Axioms:)", "\n" + out)
            pa = [b.strip() for b in blocks if b.strip()]
            printed = re.findall(r"Print Assumptions\s+([A-Za-z0-9_']+)", txt)
            for i, th in enumerate(printed):
                self.assumptions_out[th] = pa[i] if i < len(pa) else "?"
            for th, a in self.assumptions_out.items():
                if not a.startswith("Closed under the global context"):
                    self.notes.append("theorem %s depends on: %s" % (th, a))
        else:
            self.notes.append("coqc %s failed:\n%s" % (os.path.basename(src), out[-3000:]))
            # which obligation broke?  first one after the reported line
            m = re.search(r'line (\d+)', out)
            name = None
            if m:
                line = int(m.group(1))
                full = open(dst).read().split("\n")
                for ln in range(min(line, len(full)) - 1, -1, -1):
                    mm = OBLIGATION.match(full[ln])
                    if mm:
                        name = mm.group(2)
                        break
            self.broken.append("%s:%s" % (os.path.basename(src), name or "?"))
        return rc == 0, out

    # -- finish ------------------------------------------------------------------------------
    def finish(self):
        wall = time.time() - self.t0
        # a broken obligation with no concrete failing input is still a violation
        if self.broken and not self.violations:
            self.violation("proof obligation / correspondence no longer checks: " + ", ".join(self.broken),
                           {"broken": self.broken, "notes": self.notes[-3:]}, no_input=True)
        elif self.broken:
            for v in self.violations:
                v.setdefault("broken", self.broken)
        cov = {
            "obligations": len(self.obligations),
            "discharged": len(self.discharged),
            "checker_cmd": self.checker_cmd or "coqc -Q /verif/coq Verif (full .vo build via coq_makefile/make) ; Print Assumptions per property theorem",
            "trusted_base": TRUSTED_BASE + self.extra_assumptions,
            "evaluations": self.evaluations,
            "distinct_nontrivial": len(self.nontrivial),
            "rule": self.rule,
            "samples": self.samples or ["(none)"],
            "print_assumptions": self.assumptions_out,
            "undischarged": [list(x) for x in self.obligations if x not in self.discharged],
            "broken": self.broken,
            "known_findings_reported": self.known_reported,
            "notes": self.notes,
        }
        cov.update(self.coverage)
        ev = {
            "property_id": self.pid,
            "tier": self.tier,
            "seed": self.seed,
            "level": self.level,
            "coverage": cov,
            "assumptions": TRUSTED_BASE + self.extra_assumptions,
            "wall_s": round(wall, 2),
            "violations": len(self.violations),
        }
        os.makedirs(os.path.join(VERIF, "evidence"), exist_ok=True)
        with open(os.path.join(VERIF, "evidence", self.pid + ".json"), "w") as f:
            json.dump(ev, f, indent=1, default=repr)
        for k in self.known_reported:
            print("KNOWN-FINDING: property=%s %s" % (self.pid, k["what"]))
        for v in self.violations:
            line = "VIOLATION property=%s replay=%s" % (self.pid, v["replay"])
            if v.get("no_input"):
                line += " no-failing-input-found"
            print(line)
            print("  what: " + v["what"][:600])
        print("%s %s: obligations %d/%d, cases %d (distinct non-trivial %d), %.1fs, violations %d" % (
            self.pid, self.tier, len(self.discharged), len(self.obligations), self.evaluations,
            len(self.nontrivial), wall, len(self.violations)))
        return 1 if self.violations else 0


def load_known_findings(pid):
    """known_findings.json plus fragments known_findings.d/*.json (read-only at run time)."""
    out = []
    paths = [os.path.join(VERIF, "known_findings.json")]
    d = os.path.join(VERIF, "known_findings.d")
    if os.path.isdir(d):
        paths += sorted(os.path.join(d, f) for f in os.listdir(d) if f.endswith(".json"))
    for p in paths:
        if os.path.exists(p):
            out += [f for f in json.load(open(p)) if f.get("property") == pid]
    return out


def source_hashes(relpaths):
    out = {}
    for r in relpaths:
        p = os.path.join(REPO, r)
        if os.path.exists(p):
            out[r] = hashlib.sha256(open(p, "rb").read()).hexdigest()[:16]
    return out


def setup_env():
    """Force the import path to /repo, a private HOME and deterministic hashing."""
    if REPO not in sys.path:
        sys.path.insert(0, REPO)
    os.environ["PYTHONPATH"] = REPO
    os.environ.setdefault("PYTHONHASHSEED", "0")
    home = os.path.join(BUILD, "home")
    os.makedirs(home, exist_ok=True)
    os.environ["HOME"] = home


def all_cuts(n, k):
    """all k-subsets of cut positions 1..n-1"""
    import itertools
    return itertools.combinations(range(1, n), k)


def cut(b, positions):
    out, prev = [], 0
    for p in list(positions) + [len(b)]:
        out.append(b[prev:p])
        prev = p
    return out
