"""C07 — operations that cannot complete time out, and time out cleanly.

proof: coq/proofs/Timeout_Proofs.v over coq/model/Timeout.v (the decorator logic for the three mechanisms,
one decorated call and a channel operation nested over a decorated transport read), props/C07.v.
tie: Gen_Timeout.v regenerated from the source on every run + correspondence `timeout-fault`: the REAL
decorator, real Channel/AsyncChannel operations and the real transports' read() over scripted transports
that go silent at an enumerated point; the model's prediction (outcome, message, transport state, handler,
timer, threads, asyncio tasks, lock, whether a following operation on a connection left open completes) is
recomputed by vm_compute and must agree; an independent oracle decides the property on the observations
(asyncio: tasks / blocked reads left behind, and that the following operation receives its own output).
Histories (`timeout-history`): 2-5 decorated calls one after the other on ONE transport + channel object, each from the
main thread or a fresh non-main thread (both orders), judged call by call as if each were the only one; the model's
run_hist (mechanism of call n = select_mech of call n's context) is recomputed on every history.
Nested limits: a read that stalls inside a channel operation must end with ScrapliTimeout no later than
min(timeout_transport counted from the start of that read, what is left of timeout_ops) (+ SLACK); `limit pair` cases
run every mechanism under every pair (transport < ops, = ops, > ops, either one 0, both 0).  When model and
implementation differ on a case the oracle accepted, the search first re-runs that case and its neighbours over the
pairs of limits (far apart) under the oracle and reports what fails with its replay.
Peer EOF (`eof` step): the device ends its side of the session, reads answer EOF at once, the socket stays open and
isalive() turns False - during the telnet login (cannot complete: timeout_ops must end it AND close the transport, `res_open`
observes the close on the fake socket / stream), during other operations (connection error at once).
Re-opened sessions (`prelude`): sessions cut half-way through a channel operation (drop / cancel / timeout) on the same
objects, a re-open, then a silent device: the stalled call is judged by the configured limits."""
import json
import os
import random

from . import common
from . import c07_impl as impl
from .common import coq_bool, coq_bytes, coq_list

LEVEL = "proof"
SOURCES = ["scrapli/decorators.py", "scrapli/settings.py", "scrapli/channel/sync_channel.py",
           "scrapli/channel/async_channel.py", "scrapli/transport/plugins/system/transport.py",
           "scrapli/transport/plugins/telnet/transport.py", "scrapli/transport/plugins/asynctelnet/transport.py",
           "scrapli/transport/plugins/asyncssh/transport.py", "scrapli/transport/base/base_socket.py"]
SLACK = 1.0
THREAD_CLASSES = ("SystemTransport", "TelnetTransport")     # the oracle's own reading of the property text

# the operation that follows a timeout on a connection left open, and what it must hand back (the oracle's own reading)
FOLLOW_EXPECT = {"get_prompt": "router#", "get_prompt-2": "router#", "send_input": "12:00:01.001 UTC"}

SIG_JOIN = "c07-thread-noterm-join"
SIG_OVERSHOOT = "c07-signal-nested-overshoot"
SIG_ATELNET0 = "c07-asynctelnet-auth-timeout0"


# --------------------------------------------------------------------------------------------
# case helpers
# --------------------------------------------------------------------------------------------
def mk(**kw):
    c = dict(stack="sync", level="tleaf", cls="ScriptedTransport", wrapped=True, t_ops=0.0, t_tr=0.0,
             no_term=False, lock=False, steps=[], prev_handler="default", prev_timer=None,
             main_thread=True, windows=False, watchdog=None, label="")
    c.update(kw)
    return c


def mech_of(case):
    """which mechanism the property text says applies (independent of the model)"""
    if case["stack"] == "async":
        return "asyncio"
    if case["level"] == "real":
        cls = {"system": "SystemTransport", "telnet": "TelnetTransport"}[case["real"]]
    else:
        cls = case["cls"]
    if cls in THREAD_CLASSES or case.get("windows") or not case.get("main_thread", True):
        return "thread"
    return "signal"


def last_kind(case):
    """kind of the step the call ends in; a script of data only that does not complete the operation leaves
    the device silent afterwards (the scripted transport stalls once the script is exhausted)"""
    if case.get("dribble"):
        return "stall"
    return case["steps"][-1][0] if case["steps"] else None


def eof_login(case):
    """the device ended its side of the session (every read: EOF at once, the socket stays open) during the in-channel
    telnet login: the login answers EOF with a return and tries again, so it cannot complete - only timeout_ops ends it"""
    return last_kind(case) == "eof" and case["level"] == "op" and case.get("op") == "channel_authenticate_telnet"


def cannot_complete(case):
    return last_kind(case) in ("stall", "stall_closed") or eof_login(case)


def still_open(obs):
    """has the transport been closed?  What it holds (socket / stream / the scripted transport itself), not isalive():
    after an EOF a transport reports not-alive with everything still open"""
    return obs.get("res_open", obs["alive"])


def poll_ms(case):
    if case["stack"] == "async" and case["level"] == "op":
        if case["op"] == "channel_authenticate_ssh":
            return 1000
        if case["op"] == "channel_authenticate_telnet":
            return int(case["t_ops"] * 1000 / 20)
    return 0


def async_auth(case):
    """the asyncio authentication loops poll the transport and sleep 0.1 s per iteration"""
    return case["stack"] == "async" and case["level"] == "op" and case["op"].startswith("channel_authenticate")


def script_duration(case):
    d = sum([s[1] for s in case["steps"] if s[0] in ("ret", "exc", "ddata")] + [0.0])
    if async_auth(case):
        d += 0.1 * len([s for s in case["steps"] if s[0] == "data"])
    return d


def inner_limit(case):
    """timeout_transport as it applies to ONE transport read made by a channel operation (seconds, 0 = not at all):
    the read must be decorated, and the asyncio login loops give up a read after their own poll interval"""
    if case["level"] != "op" or not case["wrapped"] or not case["t_tr"]:
        return 0.0
    p = poll_ms(case)
    if p and case["t_tr"] * 1000 >= p:
        return 0.0
    return case["t_tr"]


def limit_of(case):
    """the instant (seconds after the start of the call, 0 = never) by which a call that runs into a silent device must
    be over: a transport read / a channel method by its own limit; a channel operation over a decorated transport read by
    whichever of the two limits falls due first - timeout_ops counted from the start of the operation, timeout_transport
    from the start of the read that stalls (what the script needs before it goes silent comes first), i.e. the stalled
    read lasts at most min(timeout_transport, what is left of timeout_ops)"""
    if case["level"] in ("tleaf", "real"):
        return case["t_tr"]
    if case["level"] == "cleaf":
        return case["t_ops"]
    if eof_login(case):
        return case["t_ops"]              # no read stalls: every read answers (EOF) at once
    due = []
    if case["t_ops"]:
        due.append(case["t_ops"])
    if inner_limit(case):
        due.append(script_duration(case) + inner_limit(case))
    return min(due) if due else 0.0


def limit_text(case):
    """which of the two limits of a channel operation over a decorated read it is (for the report)"""
    if case["level"] != "op" or not (case["t_ops"] and inner_limit(case)):
        return ""
    return " (a read that stalls %.2f s into the operation: min(timeout_transport %.3f s, what is left of timeout_ops %.3f s))" % (
        script_duration(case), case["t_tr"], case["t_ops"])


def may_time_out(case):
    """a script that lets the call finish: is a timeout nevertheless legitimate (the call, or one of its reads, is slower
    than the limit that applies to it)?"""
    if case["level"] != "op":
        lim = limit_of(case)
        return bool(lim and script_duration(case) >= lim)
    if case["t_ops"] and script_duration(case) >= case["t_ops"]:
        return True
    ti = inner_limit(case)
    per_read = [s[1] for s in case["steps"] if s[0] in ("ret", "exc", "ddata")]      # (the login loops sleep BETWEEN reads)
    return bool(ti and per_read and max(per_read) >= ti)


def default_watchdog(case):
    ts = [t for t in (case["t_ops"], case["t_tr"]) if t]
    lim = limit_of(case)
    if cannot_complete(case) and not lim:
        return 0.35                                  # no limit: watch that nothing fires
    return max(ts + [script_duration(case)]) + 1.6


# --------------------------------------------------------------------------------------------
# the property oracle (on the implementation's observations only)
# --------------------------------------------------------------------------------------------
def oracle(case, obs):
    """-> list of (kind, text); kind 'timing' failures must reproduce 3/3"""
    f = []
    out = obs["out"] or {}
    lk = last_kind(case)
    stall = cannot_complete(case)
    lim = limit_of(case)
    m = mech_of(case)
    is_timeout = out.get("cls") == "ScrapliTimeout"
    is_open = still_open(obs)
    if stall and lim:
        env_ok = not (m == "thread" and lk == "stall")   # closing the transport must end a blocked read
        if env_ok:
            if obs["hang"]:
                f.append(("timing", "no exception %.2f s after the %.3f s limit (surfaced only when the stalled call "
                          "was released at %.2f s: %s)" % (obs["elapsed"] - lim, lim, obs["elapsed"], out.get("cls"))))
            elif not is_timeout:
                f.append(("outcome", "stalled call ended with %s instead of ScrapliTimeout" % (out.get("cls") or out.get("kind"))))
            elif obs["elapsed"] > lim + SLACK:
                f.append(("timing", "ScrapliTimeout after %.2f s for a limit of %.3f s%s" % (obs["elapsed"], lim, limit_text(case))))
            if is_timeout and not obs["hang"] and is_open != bool(case["no_term"]):
                f.append(("state", "transport open=%s (isalive()=%s) after the timeout with NO_TERMINATE_ON_TIMEOUT=%s" % (
                    is_open, obs["alive"], case["no_term"])))
    elif stall and not lim:
        if is_timeout and not obs["hang"]:
            f.append(("outcome", "ScrapliTimeout raised although the timeout is 0 (disabled)"))
        elif not obs["hang"]:
            f.append(("outcome", "a stalled call with no limit ended on its own: %r" % (out,)))
        if not is_open:
            f.append(("state", "transport closed although no limit applies"))
    else:
        # the script lets the call finish: a timeout is legitimate only if the call is slower than the limit
        if not may_time_out(case):
            # (a session the device ended: the operation fails with the connection error, at once, nothing times out)
            want = "Boom" if lk == "exc" else "ScrapliConnectionError" if lk == "eof" else None
            if want and (out.get("cls") != want or obs["hang"]):
                f.append(("outcome", "the call's own exception became %r%s" % (out, " (only when the harness ended the session)" if obs["hang"] else "")))
            if not want and out.get("kind") != "ret":
                f.append(("outcome", "a call that completes in time ended with %r" % (out,)))
            if not is_open:
                f.append(("state", "transport closed although nothing timed out"))
        elif is_timeout and is_open != bool(case["no_term"]):
            f.append(("state", "transport open=%s (isalive()=%s) after the timeout with NO_TERMINATE_ON_TIMEOUT=%s" % (
                is_open, obs["alive"], case["no_term"])))
    # re-opened after sessions that ended half-way through an operation: the limits in force are the configured ones
    if case.get("prelude") and "limits_at_start" in obs:
        conf, got = [case["t_ops"], case["t_tr"]], list(obs["limits_at_start"])
        if got != conf:
            f.append(("state", "the session opened after %s starts with (timeout_ops, timeout_transport) = %s, configured: %s" % (
                " / ".join("%s ended by %s" % (p["op"], p["abort"]) for p in case["prelude"]), got, conf)))
    # the mechanism that applies (sync): observed from inside the wrapped call
    if case["stack"] == "sync" and obs.get("mech_seen"):
        active = {"tleaf": bool(case["t_tr"]), "real": bool(case["t_tr"]), "cleaf": bool(case["t_ops"]),
                  "op": bool(case["t_ops"]) or bool(case["wrapped"] and case["t_tr"])}[case["level"]]
        want = m if active else "none"
        if obs["mech_seen"] != want:
            f.append(("outcome", "mechanism in force is %s, the one that applies is %s" % (obs["mech_seen"], want)))
    # process-wide state, whenever the call came back by itself
    if not obs["hang"]:
        if not obs["handler_restored"]:
            f.append(("state", "SIGALRM handler not restored"))
        pt = case.get("prev_timer")
        rem, ival = obs["timer_after"]
        if not pt:
            if rem or ival or obs["fired"]:
                f.append(("state", "ITIMER_REAL armed afterwards (%s) though none was pending" % (obs["timer_after"],)))
        elif pt[0] >= 5:
            if not (pt[0] - obs["elapsed"] - SLACK <= rem <= pt[0] - obs["elapsed"] + 0.05) or abs(ival - pt[1]) > 1e-3:
                f.append(("state", "pending ITIMER_REAL %s not put back: %s afterwards" % (pt, obs["timer_after"])))
        else:
            if not obs["fired"]:
                f.append(("state", "a SIGALRM that was due during the call (timer %s) was lost" % (pt,)))
        if obs["leftover_threads"]:
            f.append(("state", "%d thread(s) left running" % obs["leftover_threads"]))
        if obs["lock_held"]:
            f.append(("state", "channel lock left held"))
        # asyncio: the counterpart of a worker thread is a task, that of a blocked worker a read nobody waits for
        if obs.get("leftover_tasks"):
            f.append(("state", "%d asyncio task(s) that did not exist before the call still running one loop iteration "
                      "after it came back" % obs["leftover_tasks"]))
        if obs.get("reads_in_flight"):
            f.append(("state", "%d transport read(s) still waiting for the device when the call came back"
                      % obs["reads_in_flight"]))
        # the connection was left open (NO_TERMINATE_ON_TIMEOUT): what the device says next belongs to the next operation
        if case.get("follow") and is_timeout and obs["alive"]:
            fo = obs.get("follow")
            if not fo:
                f.append(("outcome", "the operation following the timeout was not run"))
            else:
                fout = fo["out"] or {}
                if fo["swallowed"]:
                    f.append(("state", "device output sent after the timeout (%s) was taken by a read left over from the "
                              "timed-out operation, not by the operation that followed"
                              % bytes.fromhex(fo["swallowed"]).decode("latin-1").__repr__()))
                # nothing taken away from it and yet it ran into its own (sub-second) limit: a matter of wall-clock only
                late = fout.get("cls") == "ScrapliTimeout" and not fo["swallowed"] and not fo["tasks"]
                if fo["received"] != fo["sent"]:
                    f.append(("timing" if late else "outcome", "the following operation (%s) received %r of the %r the device sent it" % (
                        fo["op"], bytes.fromhex(fo["received"]), bytes.fromhex(fo["sent"]))))
                if fout.get("kind") != "ret" or fout.get("text") != FOLLOW_EXPECT[fo["op"]]:
                    f.append(("timing" if late else "outcome", "the following operation (%s) on the still-open connection ended with %r" % (fo["op"], fout)))
                if fo["tasks"]:
                    f.append(("state", "%d asyncio task(s) left running after the following operation" % fo["tasks"]))
                if fo["lock_held"]:
                    f.append(("state", "channel lock left held after the following operation"))
                if not fo["alive"]:
                    f.append(("state", "transport closed by the following operation although nothing timed out"))
    return f


def signature_of(case, fails):
    kinds = {k for k, _ in fails}
    lk = last_kind(case)
    if mech_of(case) == "thread" and case["no_term"] and cannot_complete(case) and limit_of(case) and kinds == {"timing"}:
        return SIG_JOIN
    if (mech_of(case) == "signal" and case["level"] == "op" and case["wrapped"] and case["t_ops"] and case["t_tr"] >= case["t_ops"]
            and not case.get("dribble") and kinds == {"timing"}):
        return SIG_OVERSHOOT
    if (case["stack"] == "async" and case["level"] == "op" and case["op"] == "channel_authenticate_telnet" and not case["t_ops"]):
        return SIG_ATELNET0
    return None


def observe(case, tries=3):
    """run the case; a failure that is only about timing must reproduce `tries` times"""
    if case.get("watchdog") is None:
        case = dict(case, watchdog=default_watchdog(case))
    obs = impl.run_case(case)
    fails = oracle(case, obs)
    n = 1
    while fails and all(k == "timing" for k, _ in fails) and n < tries:
        obs2 = impl.run_case(case)
        f2 = oracle(case, obs2)
        n += 1
        if not f2:
            return case, obs2, []
        obs, fails = obs2, f2
    return case, obs, fails


# --------------------------------------------------------------------------------------------
# histories: several decorated calls on ONE connection object, from the main thread and from other threads
# --------------------------------------------------------------------------------------------
def hist_call_case(hist, i, timer_before=None):
    """call i of a history as a case of its own: what the property says about it must not depend on what was run
    before it on the same object (the oracle below judges every call by this case alone)"""
    call = hist["calls"][i]
    c = mk(stack="sync", level=call["level"], cls=hist["cls"], wrapped=(call["level"] == "tleaf"),
           no_term=bool(call.get("no_term")), lock=bool(hist.get("lock")), steps=[tuple(call["step"])],
           prev_handler=hist.get("prev_handler", "default"), main_thread=(call["thread"] == "main"),
           windows=bool(call.get("windows")), fname=call.get("fname"))
    c["t_tr" if call["level"] == "tleaf" else "t_ops"] = call["T"]
    if timer_before and timer_before[0] > 0:
        c["prev_timer"] = list(timer_before)      # what was pending when THIS call started
    return c


def hist_in_known_region(hist):
    for i in range(len(hist["calls"])):
        c = hist_call_case(hist, i)
        if in_known_region(c):
            return in_known_region(c)
        if mech_of(c) == "thread" and last_kind(c) == "stall" and limit_of(c):
            return "env"          # a read that close() does not end: the pool's join waits (environment assumption)
        if last_kind(c) in ("stall", "stall_closed") and not limit_of(c):
            return "hang"         # no limit: waits for ever by definition, nothing can follow
    return None


def oracle_history(hist, obs):
    f = []
    got = obs["calls"]
    if len(got) != len(hist["calls"]):
        f.append(("outcome", "%d of %d calls of the history were made" % (len(got), len(hist["calls"]))))
    for i, o in enumerate(got):
        c = hist_call_case(hist, i, o.get("timer_before"))
        call = hist["calls"][i]
        before = ", ".join("%s:%s" % (x["thread"], x["step"][0]) for x in hist["calls"][:i]) or "nothing"
        for k, txt in oracle(c, o):
            f.append((k, "call %d (%s thread, %s T=%s %s; before it on the same object: %s): %s" % (
                i + 1, call["thread"], call["level"], call["T"], call["step"][0], before, txt)))
        if o.get("mech_seen") is None and (o["out"] or {}).get("cls") not in ("ScrapliTimeout",):
            # the wrapped call was never entered although the connection was open
            f.append(("outcome", "call %d (%s thread): the decorated function never ran its body: %r" % (
                i + 1, call["thread"], o["out"])))
    return f


def observe_history(hist, tries=3):
    obs = impl.run_history(hist)
    fails = oracle_history(hist, obs)
    n = 1
    while fails and all(k == "timing" for k, _ in fails) and n < tries:
        obs2 = impl.run_history(hist)
        f2 = oracle_history(hist, obs2)
        n += 1
        if not f2:
            return hist, obs2, []
        obs, fails = obs2, f2
    return hist, obs, fails


HIST_CLASSES = ["ScriptedTransport", "ParamikoTransport", "Ssh2Transport", "SystemTransport", "TelnetTransport"]


def _hcall(thread, level, T, step, no_term=False, windows=False, fname="get_prompt"):
    return dict(thread=thread, level=level, T=T, step=list(step), no_term=no_term, windows=windows,
                fname=fname if level == "cleaf" else None)


def _hist_label(h):
    return "history %s: %s" % (h["cls"], " -> ".join("%s/%s/%s%s" % (
        c["thread"], c["level"], c["step"][0], "" if c["T"] else "/T=0") for c in h["calls"]))


def corpus_histories():
    """both orders (main thread first / worker thread first) x a class name on either side of the mechanism split x
    with and without a stall, transport read and channel method; independent of the seed"""
    out = []
    for cls in ("ParamikoTransport", "SystemTransport"):
        for first, second in (("main", "worker"), ("worker", "main")):
            for lv1, lv2 in (("cleaf", "cleaf"), ("cleaf", "tleaf")):
                for last in (("stall_closed",), ("ret", 0, 6)):
                    if last[0] == "ret" and lv2 == "tleaf":
                        continue
                    out.append(dict(suite="history", cls=cls, lock=(lv2 == "cleaf" and first == "main"), prev_handler="user",
                                    prev_timer=[50.0, 0.0] if first == "main" else None,
                                    calls=[_hcall(first, lv1, 0.1, ("ret", 0, 2)), _hcall(second, lv2, 0.1, last)]))
    # there and back again, a timeout in the middle (the connection is opened again), a call without a limit first
    out.append(dict(suite="history", cls="Ssh2Transport", lock=False, prev_handler="user", prev_timer=None,
                    calls=[_hcall("main", "tleaf", 0.0, ("ret", 0, 1)), _hcall("worker", "cleaf", 0.05, ("stall_closed",)),
                           _hcall("main", "cleaf", 0.05, ("stall",), no_term=True, fname="send_input"),
                           _hcall("worker", "tleaf", 0.05, ("exc", 0, 3))]))
    out.append(dict(suite="history", cls="ScriptedTransport", lock=True, prev_handler="ign", prev_timer=[50.0, 0.0],
                    calls=[_hcall("worker", "tleaf", 0.05, ("ret", 0, 4)), _hcall("main", "tleaf", 0.05, ("stall",)),
                           _hcall("worker", "cleaf", 0.05, ("stall_closed",), fname="frobnicate"),
                           _hcall("main", "cleaf", 0.05, ("ret", 0, 5))]))
    for h in out:
        h["label"] = _hist_label(h)
    return out


def gen_history(rng):
    cls = rng.choice(HIST_CLASSES)
    windows = rng.random() < 0.08
    n = rng.randint(2, 5)
    first = rng.choice(["main", "worker"])
    calls = []
    for i in range(n):
        # mostly alternating, sometimes the same thread twice in a row
        thread = first if i == 0 else (calls[-1]["thread"] if rng.random() < 0.25 else
                                       ("worker" if calls[-1]["thread"] == "main" else "main"))
        level = rng.choice(["tleaf", "cleaf"])
        T = rng.choice([0.05, 0.05, 0.1, 0.075, 0.0])
        r = rng.random()
        thread_mech = cls in THREAD_CLASSES or windows or thread != "main"
        no_term = rng.random() < 0.3
        if r < 0.4 and T:
            step = ("stall_closed",) if thread_mech else (rng.choice(["stall", "stall_closed"]),)
            if thread_mech:
                no_term = False           # (the known finding's region)
        elif r < 0.5:
            step = ("exc", 0, rng.randint(1, 9))
        else:
            step = ("ret", 0, rng.randint(0, 9))
        calls.append(_hcall(thread, level, T, step, no_term=no_term, windows=windows, fname=rng.choice(impl.LEAF_NAMES)))
    h = dict(suite="history", cls=cls, lock=rng.random() < 0.5, calls=calls)
    h.update(prev_state(rng, allow_short=False, T=0.1))
    h["label"] = _hist_label(h)
    return h


# --------------------------------------------------------------------------------------------
# model side
# --------------------------------------------------------------------------------------------
HEADER_COMMON = """From Verif Require Import Bytes Timeout.
From Gen Require Import Gen_Timeout.
Inductive iout := IRet (v : option N) | IExc (code : N) (msg : bytes) (val : N) | IHang.
Definition hnd_same (a b : hnd) : bool :=
  match a, b with
  | HDefault, HDefault | HIgnore, HIgnore => true
  | HUser x, HUser y => x =? y
  | HScrapli x, HScrapli y => beq x y
  | _, _ => false
  end.
Definition exc_match (e : exc) (code : N) (msg : bytes) (val : N) : bool :=
  match e with
  | ETimeout m => (code =? 1) && beq m msg
  | ENotOpened => code =? 2
  | EConn => code =? 3
  | EOther x => (code =? 4) && (x =? val)
  end.
Definition tclass (s : pstate) : N :=
  if deadline s =? 0 then 0 else if deadline s <=? now s + 1 then 2 else 1.
"""

# histories: the model's run_hist over the calls of the history (mechanism of every call from its own context), compared
# call by call with what the one transport / channel object did; ho_mech = the mechanism seen in force from inside the
# wrapped call (0 none, 1 signal, 2 worker thread, 9 the body never ran)
HEADER_HIST = HEADER_COMMON + """
Record hobs := mkO { ho_out : iout; ho_elapsed : N; ho_alive : bool; ho_restored : bool; ho_tclass : N;
                     ho_left : nat; ho_lock : bool; ho_mech : N }.
Record hcase := mkHC { hc_cls : bytes; hc_hnd : hnd; hc_delay : N; hc_ival : N; hc_calls : list (hcall * hobs) }.
Definition msg_of (fname : bytes) : bytes := timeout_message gen_msg_map gen_msg_default fname.
Definition mech_code (T : N) (m : mech) : N :=
  if T =? 0 then 0 else match m with MSignal => 1 | MThread => 2 | MAsync => 3 end.
Fixpoint chk_calls (h0 : hnd) (t : N) (rs : list (mech * result)) (cs : list (hcall * hobs)) : bool :=
  match rs, cs with
  | [], [] => true
  | (m, r) :: rs', (c, o) :: cs' =>
      let s' := rst r in
      let rest :=
        (ho_elapsed o <=? (now s' - t) + 1000) && Bool.eqb (topen s') (ho_alive o)
        && Bool.eqb (hnd_same (handler s') h0) (ho_restored o) && (tclass s' =? ho_tclass o)
        && Nat.eqb (workers s') (ho_left o) && Bool.eqb (lock s') (ho_lock o)
        && (mech_code (h_T c) m =? ho_mech o) in
      (match out r, ho_out o with
       | Hang, IHang => true
       | Returned v, IRet ov => (match ov with Some x => x =? v | None => true end) && rest
       | Raised e, IExc code msg val => exc_match e code msg val && rest
       | _, _ => false
       end) && chk_calls h0 (now s') rs' cs'
  | _, _ => false
  end.
Definition chk_hist (c : hcase) : bool :=
  let s := mkP 1000 (hc_hnd c) (if hc_delay c =? 0 then 0 else 1000 + hc_delay c) (hc_ival c) 0 true false 0 in
  chk_calls (hc_hnd c) (now s) (run_hist gen_thread_classes false (hc_cls c) (map fst (hc_calls c)) s) (hc_calls c).
"""

HEADER = HEADER_COMMON + """
Record icase := mkI {
  i_coro : bool; i_cls : bytes; i_windows : bool; i_main : bool; i_chan : bool;
  i_tops : N; i_ttr : N; i_fo : bytes; i_wrapped : bool; i_poll : N; i_locked : bool; i_nt : bool;
  i_reads : list leaf; i_hnd : hnd; i_delay : N; i_ival : N;
  o_out : iout; o_elapsed : N; o_alive : bool; o_restored : bool; o_tclass : N; o_rem : N; o_ival : N;
  o_left : nat; o_lock : bool; o_tasks : nat; i_fol : list leaf; o_fol : N }.
Definition model (c : icase) : result :=
  let m := select_mech gen_thread_classes (i_coro c) (i_cls c) (i_windows c) (i_main c) in
  let s := mkP 1000 (i_hnd c) (if i_delay c =? 0 then 0 else 1000 + i_delay c) (i_ival c) 0 true false 0 in
  let To := get_timeout (i_chan c) (i_tops c) (i_ttr c) in
  let cfg := mkC true (i_nt c) To (timeout_message gen_msg_map gen_msg_default (i_fo c))
                 (i_chan c && i_wrapped c) (i_ttr c) (timeout_message gen_msg_map gen_msg_default [114;101;97;100])
                 (i_poll c) (i_locked c) true in
  run_op m cfg (i_reads c) s.
(* the operation that follows on the connection the timeout left open (same limits, the device answers at once):
   0 = none follows, 1 = it returns and leaves the state as it found it, 2 = anything else *)
Definition model_follow (c : icase) (r : result) : N :=
  match i_fol c, out r with
  | [], _ => 0
  | fol, Raised (ETimeout _) =>
      if topen (rst r) then
        let m := select_mech gen_thread_classes (i_coro c) (i_cls c) (i_windows c) (i_main c) in
        let cfg := mkC true (i_nt c) (i_tops c) [] (i_chan c && i_wrapped c) (i_ttr c) [] 0 (i_locked c) true in
        let r2 := run_op m cfg fol (rst r) in
        match out r2 with
        | Returned _ => if Nat.eqb (tasks (rst r2)) 0 && Bool.eqb (lock (rst r2)) false && topen (rst r2) then 1 else 2
        | _ => 2
        end
      else 0
  | _, _ => 0
  end.
Definition chk (c : icase) : bool :=
  let r := model c in
  let s' := rst r in
  let rest :=
    (o_elapsed c <=? (now s' - 1000) + 1000) && Bool.eqb (topen s') (o_alive c)
    && Bool.eqb (hnd_same (handler s') (i_hnd c)) (o_restored c)
    && (tclass s' =? o_tclass c)
    && (if tclass s' =? 1 then (o_rem c <=? (deadline s' - now s') + 100) && ((deadline s' - now s') <=? o_rem c + 1500)
                               && (interval s' =? o_ival c) else true)
    && Nat.eqb (workers s') (o_left c) && Bool.eqb (lock s') (o_lock c)
    && Nat.eqb (tasks s') (o_tasks c) && (model_follow c r =? o_fol c) in
  match out r, o_out c with
  | Hang, IHang => true
  | Returned v, IRet ov => (match ov with Some x => x =? v | None => true end) && rest
  | Raised e, IExc code msg val => exc_match e code msg val && rest
  | _, _ => false
  end.
"""

EXC_CODE = {"ScrapliTimeout": 1, "ScrapliConnectionNotOpened": 2, "ScrapliConnectionError": 3, "Boom": 4}


def ms(x):
    return int(round(x * 1000))


def leaf_terms(case):
    out = []
    slow_read = async_auth(case)
    for s in case["steps"]:
        k = s[0]
        if k == "data":
            out.append("Ret %d 0" % (100 if slow_read else 0))     # the asyncio auth loops sleep 0.1 s per iteration
        elif k == "ret":
            out.append("Ret %d %d" % (ms(s[1]), s[2]))
        elif k == "exc":
            out.append("Exc %d %d" % (ms(s[1]), s[2]))
        elif k == "ddata":
            out.append("Ret %d 0" % ms(s[1]))
        elif k == "stall":
            out.append("Stall")
        else:
            # (also "eof" during the telnet login: a body that cannot complete and that closing the transport ends)
            out.append("StallClosed")
    if case.get("dribble"):
        out.append("Stall")
    return out


def follow_code(obs):
    fo = obs.get("follow")
    if not fo:
        return 0
    good = ((fo["out"] or {}).get("kind") == "ret" and not fo["swallowed"] and not fo["tasks"] and not fo["lock_held"]
            and fo["alive"])
    return 1 if good else 2


def case_term(case, obs):
    level = case["level"]
    if level == "real":
        cls = {"system": "SystemTransport", "telnet": "TelnetTransport", "asynctelnet": "AsynctelnetTransport",
               "asyncssh": "AsyncsshTransport"}[case["real"]]
    else:
        cls = case["cls"]
    chan = level in ("cleaf", "op")
    fo = {"tleaf": "read", "real": "read", "cleaf": case.get("fname"), "op": case.get("op")}[level]
    hnd = {"default": "HDefault", "ign": "HIgnore", "user": "(HUser 7)"}[case.get("prev_handler", "default")]
    pt = case.get("prev_timer") or [0, 0]
    out = obs["out"] or {}
    if obs["hang"]:
        io = "IHang"
    elif out.get("kind") == "ret":
        io = "(IRet %s)" % ("(Some %d)" % out["val"] if "val" in out else "None")
    else:
        code = EXC_CODE.get(out.get("cls"), 9)
        io = "(IExc %d %s %d)" % (code, coq_bytes(out.get("msg", "").encode("latin-1", "replace")), out.get("val", 0) or 0)
    rem, ival = obs["timer_after"]
    if obs["fired"]:
        tclass = 2
    elif rem > 0:
        tclass = 1
    else:
        tclass = 0
    fields = [
        coq_bool(case["stack"] == "async"), coq_bytes(cls.encode()), coq_bool(case.get("windows", False)),
        coq_bool(case.get("main_thread", True)), coq_bool(chan), str(ms(case["t_ops"])), str(ms(case["t_tr"])),
        coq_bytes(fo.encode()), coq_bool(bool(case["wrapped"]) and level == "op" and not eof_login(case)), str(poll_ms(case)),
        coq_bool(bool(case["lock"]) and chan), coq_bool(case["no_term"]),
        coq_list(leaf_terms(case)), hnd, str(ms(pt[0])), str(ms(pt[1])),
        io, str(ms(obs["elapsed"])), coq_bool(still_open(obs)), coq_bool(obs["handler_restored"]), str(tclass),
        str(ms(rem)), str(ms(ival)), "%d%%nat" % obs["leftover_threads"], coq_bool(obs["lock_held"]),
        "%d%%nat" % max(obs.get("leftover_tasks", 0), obs.get("reads_in_flight", 0)),
        coq_list(["Ret 0 0"] * (len(impl.FOLLOW_OPS[case["follow"]][1]) if case.get("follow") else 0)),
        str(follow_code(obs)),
    ]
    return "(mkI " + " ".join(f if f[0] in "([" or f.isalnum() or f.endswith("%nat") else "(%s)" % f for f in fields) + ")"


MECH_CODE = {"none": 0, "signal": 1, "thread": 2, None: 9}
HND = {"default": "HDefault", "ign": "HIgnore", "user": "(HUser 7)"}


def _iout(o):
    out = o["out"] or {}
    if o["hang"]:
        return "IHang"
    if out.get("kind") == "ret":
        return "(IRet %s)" % ("(Some %d)" % out["val"] if "val" in out else "None")
    return "(IExc %d %s %d)" % (EXC_CODE.get(out.get("cls"), 9), coq_bytes(out.get("msg", "").encode("latin-1", "replace")),
                                out.get("val", 0) or 0)


def hist_term(hist, obs):
    pairs = []
    for call, o in zip(hist["calls"], obs["calls"]):
        fo = "read" if call["level"] == "tleaf" else call["fname"]
        leaf = leaf_terms({"steps": [tuple(call["step"])], "stack": "sync", "level": call["level"]})[0]
        hc = "(mkH %s %s %s %d (msg_of %s) (%s))" % (
            coq_bool(bool(call.get("windows"))), coq_bool(call["thread"] == "main"), coq_bool(bool(call.get("no_term"))),
            ms(call["T"]), coq_bytes(fo.encode()), leaf)
        rem = o["timer_after"][0]
        tcl = 2 if o["fired"] else 1 if rem > 0 else 0
        ho = "(mkO %s %d %s %s %d %d%%nat %s %d)" % (
            _iout(o), ms(o["elapsed"]), coq_bool(o["alive"]), coq_bool(o["handler_restored"]), tcl, o["leftover_threads"],
            coq_bool(o["lock_held"]), MECH_CODE.get(o.get("mech_seen"), 9))
        pairs.append("(%s, %s)" % (hc, ho))
    pt = hist.get("prev_timer") or [0, 0]
    return "(mkHC %s %s %d %d %s)" % (coq_bytes(hist["cls"].encode()), HND[hist.get("prev_handler", "default")],
                                      ms(pt[0]), ms(pt[1]), coq_list(pairs))


# --------------------------------------------------------------------------------------------
# generators
# --------------------------------------------------------------------------------------------
SYNC_MECHS = [
    ("signal", dict(cls="ScriptedTransport")),
    ("signal-named-paramiko", dict(cls="ParamikoTransport")),
    ("signal-named-netconf-system", dict(cls="NetconfSystemTransport")),
    ("thread-class-system", dict(cls="SystemTransport")),
    ("thread-class-telnet", dict(cls="TelnetTransport")),
    ("thread-non-main", dict(cls="ScriptedTransport", main_thread=False)),
    ("thread-windows", dict(cls="ScriptedTransport", windows=True)),
]
ASYNC_MECHS = [("asyncio", dict(cls="ScriptedAsyncTransport")), ("asyncio-named-telnet", dict(cls="TelnetTransport"))]
TIMEOUTS = [0.05, 0.1, 0.125, 0.2, 0.3]


def prev_state(rng, allow_short, T):
    r = rng.random()
    if r < 0.30:
        return dict(prev_handler=rng.choice(["default", "user", "ign"]), prev_timer=None)
    if r < 0.65:
        return dict(prev_handler=rng.choice(["user", "ign"]), prev_timer=[50.0, 0.0])
    if r < 0.85 or not allow_short:
        return dict(prev_handler="user", prev_timer=[rng.choice([30.0, 50.0]), rng.choice([7.0, 2.5])])
    return dict(prev_handler="user", prev_timer=[round(T / 4, 3), 0.0])     # due while the call runs


def in_known_region(case):
    lk = last_kind(case)
    if mech_of(case) == "thread" and case["no_term"] and cannot_complete(case) and limit_of(case):
        return SIG_JOIN
    if (mech_of(case) == "signal" and case["level"] == "op" and case["wrapped"] and case["t_ops"] and case["t_tr"]
            and case["t_tr"] >= case["t_ops"] and lk in ("stall", "stall_closed") and not case.get("dribble")):
        return SIG_OVERSHOOT
    if case["stack"] == "async" and case["level"] == "op" and case["op"] == "channel_authenticate_telnet" and not case["t_ops"]:
        return SIG_ATELNET0
    return None


def gen_leaf_case(rng, boundary=None):
    is_async = rng.random() < 0.35
    mname, mkw = rng.choice(ASYNC_MECHS if is_async else SYNC_MECHS)
    level = rng.choice(["tleaf", "cleaf"])
    T = rng.choice(TIMEOUTS + [0.0]) if boundary is None else boundary
    kind = rng.choice(["stall", "stall_closed", "stall_closed", "ret", "exc", "stall"])
    nt = rng.random() < 0.4
    c = mk(stack="async" if is_async else "sync", level=level, no_term=nt, mech=mname, **mkw)
    if level == "tleaf":
        c["t_tr"], c["t_ops"] = T, rng.choice([0.0, 7.0])      # timeout_ops must be ignored by a transport call
    else:
        c["t_ops"], c["t_tr"] = T, rng.choice([0.0, 7.0])
        c["wrapped"] = False
        c["fname"] = rng.choice(impl.LEAF_NAMES)
        c["lock"] = rng.random() < 0.5
    if kind == "ret":
        c["steps"] = [("ret", 0, rng.randint(0, 9))]
    elif kind == "exc":
        c["steps"] = [("exc", 0, rng.randint(1, 9))]
    else:
        c["steps"] = [(kind,)]
        if mech_of(c) == "thread" and T:
            # keep out of the known region / the environment-assumption region in the main exploration
            c["no_term"] = False
            c["steps"] = [("stall_closed",)]
    c.update(prev_state(rng, allow_short=(T >= 0.2 and kind in ("stall", "stall_closed")), T=T))
    c["label"] = "%s %s T=%s %s" % (level, mname, T, c["steps"][-1][0])
    return c


def slow_cases():
    """a call that does finish, slower / faster than the limit, under each mechanism (>= 1 s margins)"""
    out = []
    for stack, (mname, mkw) in [("sync", SYNC_MECHS[0]), ("sync", SYNC_MECHS[3]), ("async", ASYNC_MECHS[0])]:
        out.append(mk(stack=stack, level="tleaf", t_tr=0.1, steps=[("ret", 1.3, 4)], mech=mname,
                      label="late finisher %s" % mname, prev_handler="user", prev_timer=[50.0, 0.0], **mkw))
        out.append(mk(stack=stack, level="tleaf", t_tr=1.5, steps=[("ret", 0.15, 5)], mech=mname,
                      label="finishes in time %s" % mname, prev_handler="user", prev_timer=[50.0, 0.0], **mkw))
    return out


REAL_ASYNC = {"asynctelnet": "AsynctelnetTransport", "asyncssh": "AsyncsshTransport"}


def over_real_transport(c, kind):
    """the channel operation runs over the REAL asyncio transport (its read() carries the decorator), fakes underneath"""
    c.update(real=kind, cls=REAL_ASYNC[kind], wrapped=True, mech="asyncio-real-" + kind)
    return c


def gen_op_case(rng, op=None, k=None, combo=None, is_async=None, transport=None):
    is_async = (rng.random() < 0.4) if is_async is None else is_async
    mname, mkw = rng.choice(ASYNC_MECHS if is_async else SYNC_MECHS)
    op = op or rng.choice(sorted(impl.OPS))
    chunks = impl.STREAMS[op]
    k = rng.randint(0, len(chunks)) if k is None else k
    combo = combo or rng.choice(["outer", "outer", "outer-unwrapped", "inner-first", "outer-first", "inner-only", "none"])
    T = rng.choice(TIMEOUTS)
    aauth = is_async and op.startswith("channel_authenticate")
    if aauth:
        # these loops take 0.1 s per read: keep >= 1 s between the limit and the time a complete script needs, and the
        # transport timeout away from the 0.1 s sleep
        if k >= len(chunks):
            combo = rng.choice(["inner-first", "none"])
        if combo in ("inner-first", "inner-only"):
            T = 0.3
        elif k >= 1:
            T = 0.05
    to, ti, wrapped = {"outer": (T, 0.0, True), "outer-unwrapped": (T, 0.0, False), "inner-first": (1.5, T, True),
                       "outer-first": (T, 1.5, True), "inner-only": (0.0, T, True), "none": (0.0, 0.0, True)}[combo]
    c = mk(stack="async" if is_async else "sync", level="op", op=op, t_ops=to, t_tr=ti, wrapped=wrapped,
           no_term=rng.random() < 0.4, lock=rng.random() < 0.5, mech=mname, **mkw)
    c["steps"] = [("data", x.hex()) for x in chunks[:k]]
    if k < len(chunks):
        c["steps"].append((rng.choice(["stall", "stall_closed"]),))
        c["stall_point"] = impl.STALL_LABELS[op][k]
        if mech_of(c) == "thread" and (to or (ti and wrapped)):
            c["no_term"] = False
            c["steps"][-1] = ("stall_closed",)
    else:
        c["stall_point"] = "none (completes)"
    c.update(prev_state(rng, allow_short=False, T=T))
    if is_async:
        tk = transport or rng.choice(["scripted", "scripted", "asynctelnet", "asyncssh"])
        if tk != "scripted" and wrapped:
            over_real_transport(c, tk)
        if k < len(chunks):
            # should the connection be left open by the timeout: another operation follows on it
            c["follow"] = rng.choice(sorted(FOLLOW_EXPECT))
    c["label"] = "%s %s k=%d %s %s" % (op, c["mech"], k, combo, c["steps"][-1][0] if c["steps"] else "")
    if c.get("follow"):
        c["label"] += " then %s" % c["follow"]
    return c


def gen_nested_async_case(rng):
    """asyncio, a channel operation over a decorated transport read, both limits on and the channel's falls due first
    (in the middle of a transport read that is itself under a timeout), every stall point, NO_TERMINATE on and off"""
    op = rng.choice(sorted(impl.OPS))
    c = gen_op_case(rng, op=op, k=rng.randrange(len(impl.STREAMS[op])), combo="outer-first", is_async=True)
    c["no_term"] = rng.random() < 0.6
    return c


# pairs of limits of a channel operation over a decorated transport read: (name, timeout_ops, timeout_transport).  The two
# limits are either >= 1.9 s apart or equal; "tr=ops" is the shipped default (both 30 s there)
LIMIT_PAIRS = [("tr<ops", 2.0, 0.1), ("tr=ops", 0.1, 0.1), ("tr>ops", 0.1, 2.0), ("tr=0", 0.1, 0.0), ("ops=0", 0.0, 0.1),
               ("both=0", 0.0, 0.0)]
# the mechanism of the operation (and with it that of the read made inside it)
PAIR_MECHS = [("sync", ("signal", dict(cls="ScriptedTransport")), None),
              ("sync", ("thread-class-system", dict(cls="SystemTransport")), None),
              ("sync", ("thread-non-main", dict(cls="ScriptedTransport", main_thread=False)), None),
              ("async", ("asyncio", dict(cls="ScriptedAsyncTransport")), "scripted"),
              ("async", ("asyncio", dict(cls="ScriptedAsyncTransport")), "asynctelnet"),
              ("async", ("asyncio", dict(cls="ScriptedAsyncTransport")), "asyncssh")]


def pair_case(stack, mech, transport, pair, op, k, kind="stall_closed", no_term=False, lock=False, follow=None):
    """a channel operation that runs into a silent device at stall point k with the given pair of limits"""
    pname, to, ti = pair
    mname, mkw = mech
    c = mk(stack=stack, level="op", op=op, t_ops=to, t_tr=ti, wrapped=True, no_term=no_term, lock=lock, mech=mname,
           prev_handler="user", prev_timer=[50.0, 0.0], pair=pname, **mkw)
    if stack == "async" and op == "channel_authenticate_telnet" and to and ti and ti < to:
        c["t_tr"] = ti = to / 40          # this login loop gives a read up after timeout_ops / 20: stay below that
    c["steps"] = [("data", x.hex()) for x in impl.STREAMS[op][:k]] + [(kind,)]
    c["stall_point"] = impl.STALL_LABELS[op][k]
    if mech_of(c) == "thread" and limit_of(c):
        c["no_term"] = False              # (known region / environment assumption, as in the other generators)
        c["steps"][-1] = ("stall_closed",)
    if transport and transport != "scripted":
        over_real_transport(c, transport)
    if stack == "async" and follow:
        c["follow"] = follow
    if mech_of(c) == "thread" and to and ti == to:
        c["oracle_only"] = "both limits fall due at the same instant in two threads: which message wins is a race"
    c["label"] = "limit pair %s (ops=%s tr=%s) %s %s k=%d %s nt=%s" % (pname, to, c["t_tr"], c["mech"], op, k, c["steps"][-1][0], c["no_term"])
    if c.get("follow"):
        c["label"] += " then %s" % c["follow"]
    return c


def limit_pair_cases(rng, full=False):
    """every mechanism x every pair of limits (transport < ops, = ops, > ops, either one 0, both 0), the device going
    silent inside the operation; quick: operation kind, stall point, stall kind, NO_TERMINATE and the lock rotate over the
    grid (where the rotation starts depends on the seed), thorough: x every operation kind"""
    ops = sorted(impl.OPS)
    off = rng.randrange(1000)
    out = []
    for mi, (stack, mech, transport) in enumerate(PAIR_MECHS):
        for pi, pair in enumerate(LIMIT_PAIRS):
            if pair[0] == "both=0" and not full and (mi + off) % 3:
                continue                  # (quick: no limit at all under two of the six, the random operations have more)
            for oi in (range(len(ops)) if full else [0]):
                n = off + mi * 7 + pi * 3 + oi
                for shift in range(len(ops)):
                    op = ops[(oi if full else n) % len(ops) - shift]
                    k = (n // 2) % len(impl.STREAMS[op])
                    c = pair_case(stack, mech, transport, pair, op, k, kind=("stall", "stall_closed")[n % 2],
                                  no_term=bool((n // 3) % 2), lock=bool((n // 5) % 2), follow=sorted(FOLLOW_EXPECT)[n % 3])
                    if in_known_region(c) != SIG_ATELNET0:      # (left to C06: take the neighbouring operation kind)
                        break
                if full and shift:
                    continue
                out.append(c)
    return out


def slow_read_cases():
    """reads that take a while (each well within timeout_transport), then silence: the stalled read is limited from ITS
    start by timeout_transport, the operation by timeout_ops - whichever is due first (the inner limit per read)"""
    out = []
    for stack, mech, transport in (PAIR_MECHS[0], PAIR_MECHS[1], PAIR_MECHS[3]):
        c = mk(stack=stack, level="op", op="get_prompt", t_ops=2.5, t_tr=0.25, wrapped=True, mech=mech[0], pair="tr<ops",
               steps=[("ddata", 0.1, b"x".hex())] * 3 + [("stall_closed",)], stall_point="before prompt (after slow reads)",
               label="limit pair tr<ops after 3 slow reads %s" % mech[0], **mech[1])
        out.append(c)
    return out


def gen_real_case(rng, real=None):
    real = real or rng.choice(["system", "telnet", "asynctelnet", "asyncssh"])
    T = rng.choice(TIMEOUTS + [0.0])
    kind = rng.choice(["stall_closed", "stall_closed", "data"])
    c = mk(stack="async" if real.startswith("async") else "sync", level="real", real=real, t_tr=T, t_ops=0.0,
           no_term=False if real in ("system", "telnet") and T else rng.random() < 0.4,
           steps=[("stall_closed",)] if kind != "data" else [("data", b"abc".hex())], mech="real-" + real, cls="")
    c.update(prev_state(rng, allow_short=False, T=T))
    c["label"] = "real %s T=%s %s" % (real, T, kind)
    return c


# --------------------------------------------------------------------------------------------
# peers that end their side of the session (EOF on every read, the socket / stream stays open)
# --------------------------------------------------------------------------------------------
EOF_MECHS = [("sync", "thread-real-telnet", dict(cls="TelnetTransport"), "telnet"),
             ("sync", "signal", dict(cls="ScriptedTransport"), None),
             ("sync", "thread-class-system", dict(cls="SystemTransport"), None),
             ("sync", "thread-non-main", dict(cls="ScriptedTransport", main_thread=False), None),
             ("sync", "thread-windows", dict(cls="ScriptedTransport", windows=True), None),
             ("async", "asyncio", dict(cls="ScriptedAsyncTransport"), None),
             ("async", "asyncio-real-asynctelnet", dict(cls="AsynctelnetTransport"), "asynctelnet"),
             ("async", "asyncio-real-asyncssh", dict(cls="AsyncsshTransport"), "asyncssh")]
EOF_ONLY = ("the operation ends with the transport's connection error (the model's reads return, raise the harness's "
            "exception or stall): judged by the oracle only")


def eof_case(mech, op, k, T, t_tr, no_term=False, lock=False):
    """a channel operation during which the device ends the session after k reads: the telnet login answers EOF with a
    return and tries again (cannot complete: timeout_ops ends it), any other operation fails with the connection error"""
    stack, mname, mkw, real = mech
    c = mk(stack=stack, level="op", op=op, t_ops=T, t_tr=t_tr, wrapped=True, no_term=no_term, lock=lock, mech=mname,
           prev_handler="user", prev_timer=[50.0, 0.0], **mkw)
    if real:
        c["real"] = real
    c["steps"] = [("data", x.hex()) for x in impl.STREAMS[op][:k]] + [("eof",)]
    c["stall_point"] = "peer ended the session, %s" % impl.STALL_LABELS[op][k]
    if in_known_region(c) == SIG_JOIN:
        c["no_term"] = False              # (the known region, as in the other generators)
    if not eof_login(c):
        c["oracle_only"] = EOF_ONLY
    elif mname == "signal" and t_tr:
        # the login loop spins through thousands of decorated reads, each arming and disarming its own (transport) alarm: when
        # the outer alarm falls due between "timer restored" and "handler restored" the INNER handler words the message
        # ("timed out reading from transport"); class, instant and clean-up are the same and are judged by the oracle
        c["oracle_only"] = ("signal mechanism, nested transport limit armed, spinning reads: which of the two handlers words the "
                            "ScrapliTimeout is a race inside scrapli's signal decorator (message only): judged by the oracle only")
    c["label"] = "peer EOF %s %s k=%d ops=%s tr=%s nt=%s" % (mname, op, k, T, t_tr, c["no_term"])
    return c


def eof_cases(rng, full=False):
    out = []
    off = rng.randrange(1000)
    login = "channel_authenticate_telnet"
    # (1) during the in-channel telnet login, every mechanism (the real sync / asyncio telnet transports among them)
    for mi, mech in enumerate(EOF_MECHS[:7]):
        for j in (range(12) if full else [0]):
            n = off + mi * 5 + j
            is_async = mech[0] == "async"
            k = n % (2 if is_async else 3)
            T = (0.2, 0.3)[n % 2] if is_async else (0.1, 0.2)[n % 2]
            out.append(eof_case(mech, login, k, T, (0.0, 1.5)[(n // 2) % 2], no_term=bool((n // 3) % 2), lock=bool((n // 4) % 2)))
    # no limit at all: the login goes on until somebody ends it (sync; asyncio with timeout_ops = 0 is left to C06)
    out.append(eof_case(EOF_MECHS[0], login, 0, 0.0, 0.0))
    # (2) during the other operations: they end with the connection error at once, nothing is closed, nothing left behind
    others = [o for o in sorted(impl.OPS) if o != login]
    for mi, mech in enumerate(EOF_MECHS):
        for j in (range(6) if full else [0]):
            n = off + mi * 3 + j
            op = others[n % len(others)]
            # (timeout_ops far away: the asyncio login loops sleep 0.1 s per read before they get to the EOF)
            out.append(eof_case(mech, op, (n // 2) % len(impl.STREAMS[op]), 2.0, (0.0, 0.2, 1.5)[n % 3],
                                no_term=bool((n // 3) % 2), lock=bool(n % 2)))
    # (3) one decorated transport read / channel method
    for stack, mname, mkw, real in (EOF_MECHS[1], EOF_MECHS[2], EOF_MECHS[5]):
        for level in ("tleaf", "cleaf"):
            c = mk(stack=stack, level=level, steps=[("eof",)], mech=mname, wrapped=(level == "tleaf"), fname="get_prompt",
                   oracle_only=EOF_ONLY, label="peer EOF %s %s" % (level, mname), **mkw)
            c["t_tr" if level == "tleaf" else "t_ops"] = 0.2
            out.append(c)
    for real in ("telnet", "asynctelnet"):
        out.append(mk(stack="async" if real.startswith("async") else "sync", level="real", real=real, t_tr=0.2, cls="",
                      steps=[("eof",)], mech="real-" + real, oracle_only=EOF_ONLY, label="peer EOF real %s read()" % real))
    return out


# --------------------------------------------------------------------------------------------
# sessions that end half-way through an operation, a re-open on the SAME objects, then a silent device
# --------------------------------------------------------------------------------------------
REOPEN_MECHS = [("async", "asyncio", dict(cls="ScriptedAsyncTransport"), None),
                ("async", "asyncio-real-asynctelnet", dict(cls="AsynctelnetTransport"), "asynctelnet"),
                ("async", "asyncio-real-asyncssh", dict(cls="AsyncsshTransport"), "asyncssh"),
                ("sync", "signal", dict(cls="ScriptedTransport"), None),
                ("sync", "thread-class-system", dict(cls="SystemTransport"), None),
                ("sync", "thread-non-main", dict(cls="ScriptedTransport", main_thread=False), None)]


def reopen_case(rng, mech, aborts, ops=None, rds=None, final=None):
    """configured limits; 1-2 sessions each ending half-way through a real channel operation (`aborts`: the device drops
    the session / the caller cancels the operation / its timeout_ops fires), every one followed by a re-open on the same
    transport + channel objects; then the device of the last session stays silent.  The call under test is the stalled
    call of the last session: it is judged by the CONFIGURED limits, as if it were the first call on fresh objects"""
    stack, mname, mkw, real = mech
    timed = "timeout" in aborts
    if timed:
        t_ops, t_tr = 0.1, 0.2            # (the operation's own limit has to end the earlier session: a short one)
    else:
        t_ops, t_tr = rng.choice([(0.0, 0.1), (0.0, 0.2), (2.0, 0.1)])
    level = final or rng.choice(["tleaf", "op"])
    c = mk(stack=stack, level=level, t_ops=t_ops, t_tr=t_tr, wrapped=True, mech=mname + "-reopened",
           no_term=rng.random() < 0.4, lock=rng.random() < 0.5, **mkw)
    if real:
        c["real"] = real
    if level == "op":
        c["op"] = "get_prompt"
        k = rng.randrange(2)
        c["steps"] = [("data", x.hex()) for x in impl.STREAMS["get_prompt"][:k]]
        c["stall_point"] = impl.STALL_LABELS["get_prompt"][k] + " (re-opened)"
    c["steps"] = list(c["steps"]) + [(rng.choice(["stall", "stall_closed"]),)]
    if mech_of(c) == "thread":
        c["no_term"] = False
        c["steps"][-1] = ("stall_closed",)
    if in_known_region(c) == SIG_OVERSHOOT:
        c.update(level="tleaf", steps=[c["steps"][-1]])      # (signal over signal: the known region)
        c.pop("op", None)
    pre = []
    for i, a in enumerate(aborts):
        op = (ops[i] if ops else None) or rng.choice(["send_input_and_read"] * 3 + ["send_input", "get_prompt"])
        s = dict(op=op, abort=a, reopen=rng.random() < 0.7,
                 k=rng.choice([1, 1, 2, 3, 0]) if op != "get_prompt" else rng.randrange(3),
                 stall="stall_closed" if mech_of(c) == "thread" else rng.choice(["stall", "stall_closed"]))
        if op == "send_input_and_read":
            s["read_duration"] = (rds[i] if rds else None) or rng.choice([0.4, 0.9, 1.5])
            if mech_of(c) == "signal" and a == "timeout":
                s["read_duration"] = rng.choice([0.4, 0.9])  # (>= 1: a decorated read under the operation, the known region)
        pre.append(s)
    if mech_of(c) == "signal" and any(s["op"] == "send_input_and_read" and s["abort"] == "timeout" for s in pre):
        # (the ScrapliTimeout raised by the signal handler inside send_input_and_read's read loop is swallowed by that loop's
        # suppress(ScrapliTimeout) - C14's ground; with the transport closed the next read ends the operation all the same)
        c["no_term"] = False
    c["prelude"] = pre
    c.update(prev_state(rng, allow_short=False, T=0.1))
    c["label"] = "re-opened %s after %s; then %s %s (ops=%s tr=%s nt=%s)" % (
        mname, " + ".join("%s%s cut by %s at read %d" % (s["op"], "(read_duration=%s)" % s["read_duration"] if "read_duration" in s else "",
                                                       s["abort"], s["k"]) for s in pre),
        "transport.read()" if c["level"] == "tleaf" else "get_prompt", c["steps"][-1][0], t_ops, t_tr, c["no_term"])
    return c


def reopen_cases(rng, n_random):
    out = []
    sar = "send_input_and_read"
    # every way a session can end half-way x the asyncio transports, the temporary read_duration below and above 1 s
    for mech in REOPEN_MECHS[:3]:
        for i, a in enumerate(("drop", "cancel", "timeout")):
            if mech[3] == "asyncssh" and a != "drop":
                continue
            out.append(reopen_case(rng, mech, [a], ops=[sar], rds=[(0.9, 0.4, 1.5)[i]], final=("tleaf", "op", "tleaf")[i]))
    for mech in REOPEN_MECHS[3:]:
        out.append(reopen_case(rng, mech, [rng.choice(["drop", "timeout"])], ops=[sar], rds=[0.9]))
    for _ in range(n_random):
        mech = rng.choice(REOPEN_MECHS)
        kinds = ["drop", "timeout"] + (["cancel"] if mech[0] == "async" else [])
        out.append(reopen_case(rng, mech, [rng.choice(kinds) for _ in range(rng.choice([1, 1, 2]))]))
    return out


def corpus():
    """boundary shapes and every mechanism x stall kind once, independent of the seed"""
    out = []
    for stack, mechs in (("sync", SYNC_MECHS), ("async", ASYNC_MECHS)):
        for mname, mkw in mechs:
            for T in (0.1, 0.0):
                for nt in (False, True):
                    c = mk(stack=stack, level="tleaf", t_tr=T, no_term=nt, steps=[("stall_closed",)], mech=mname,
                           prev_handler="user", prev_timer=[50.0, 0.0], label="corpus %s T=%s nt=%s" % (mname, T, nt), **mkw)
                    if not in_known_region(c):
                        out.append(c)
    # a previous timer with an interval, and one that falls due while scrapli has borrowed SIGALRM
    out.append(mk(level="tleaf", t_tr=0.2, steps=[("stall",)], prev_handler="user", prev_timer=[50.0, 7.0], label="corpus signal interval"))
    out.append(mk(level="tleaf", t_tr=0.2, steps=[("stall",)], prev_handler="user", prev_timer=[0.05, 0.0], label="corpus signal due-timer"))
    out.append(mk(level="tleaf", t_tr=0.2, steps=[("ret", 0, 3)], prev_handler="user", prev_timer=[50.0, 0.0], label="corpus signal completes"))
    # nested signal-over-signal: the inner call must hand the outer timer back
    out.append(mk(level="op", op="send_input", t_ops=0.2, t_tr=0.0, wrapped=True,
                  steps=[("data", impl.STREAMS["send_input"][0].hex()), ("stall",)], label="corpus nested signal inner disabled"))
    out.append(mk(level="op", op="get_prompt", t_ops=0.3, t_tr=7.0, wrapped=True,
                  steps=[("data", b"\n".hex())] + [("data", b"x".hex())] * 3 + [("data", b"\nrouter#".hex())],
                  prev_handler="user", prev_timer=[50.0, 0.0], label="corpus nested signal completes, timers handed back"))
    # the device dribbles output slower than timeout_ops but faster than timeout_transport and never completes the operation:
    # the channel timeout must fire between two transport reads (signal over signal: the inner call hands the timer back)
    for stack, (mname, mkw) in (("sync", SYNC_MECHS[0]), ("sync", SYNC_MECHS[3]), ("async", ASYNC_MECHS[0])):
        out.append(mk(stack=stack, level="op", op="get_prompt", t_ops=0.2, t_tr=1.5, wrapped=True, dribble=True, mech=mname,
                      steps=[("ddata", 0.15, b"x".hex())] * 14, label="corpus dribble %s" % mname, **mkw))
    # asyncio, nested: the channel limit falls due while a decorated transport read (its own limit still far away) waits
    # for the device; nothing of the timed-out operation may stay behind, and on a connection left open the next
    # operation gets all of its own output
    for nt in (False, True):
        for kind, tk, op, k, fol in (("stall", "scripted", "get_prompt", 0, "get_prompt"),
                                     ("stall_closed", "scripted", "send_input", 1, "send_input"),
                                     ("stall", "asyncssh", "send_input", 3, "get_prompt-2"),
                                     ("stall_closed", "asynctelnet", "send_inputs_interact", 2, "get_prompt")):
            c = mk(stack="async", level="op", op=op, t_ops=0.1, t_tr=1.5, wrapped=True, no_term=nt, lock=(k % 2 == 1),
                   cls="ScriptedAsyncTransport", mech="asyncio", follow=fol,
                   steps=[("data", x.hex()) for x in impl.STREAMS[op][:k]] + [(kind,)], stall_point=impl.STALL_LABELS[op][k],
                   label="corpus asyncio nested outer-first %s %s nt=%s %s then %s" % (op, tk, nt, kind, fol))
            if tk != "scripted":
                over_real_transport(c, tk)
            out.append(c)
    # one environment-assumption case: thread mechanism, close() does not end the blocked read => the join waits
    out.append(mk(level="tleaf", cls="SystemTransport", t_tr=0.1, steps=[("stall",)], watchdog=1.2,
                  label="corpus thread, read not ended by close (model: Hang)"))
    return out


KNOWN_CASES = {
    SIG_JOIN: mk(level="tleaf", cls="SystemTransport", t_tr=0.2, no_term=True, steps=[("stall_closed",)], watchdog=1.4,
                 prev_handler="user", prev_timer=[50.0, 0.0], label="thread mechanism + NO_TERMINATE_ON_TIMEOUT"),
    SIG_OVERSHOOT: mk(level="op", op="get_prompt", t_ops=0.2, t_tr=1.6, wrapped=True, steps=[("data", b"\n".hex()), ("stall",)],
                      watchdog=3.4, label="signal mechanism, channel timeout shorter than the transport timeout"),
}


# --------------------------------------------------------------------------------------------
# run
# --------------------------------------------------------------------------------------------
def _replay_dict(case, obs, fails):
    return {"suite": "timeout-fault", "case": case, "observed": obs, "failures": [t for _, t in fails],
            "rerun": "VERIF_REPO=%s ./check C07 --replay <this file>" % common.REPO}


def _replay_hist(hist, obs, fails):
    return {"suite": "timeout-history", "case": hist, "observed": obs, "failures": [t for _, t in fails],
            "rerun": "VERIF_REPO=%s ./check C07 --replay <this file>" % common.REPO}


def _hist_stats(dist, hist, obs):
    d = dist["histories"]
    d["count"] += 1
    n = len(hist["calls"])
    d["by_length"][str(n)] = d["by_length"].get(str(n), 0) + 1
    d["by_class"][hist["cls"]] = d["by_class"].get(hist["cls"], 0) + 1
    d["first_thread"][hist["calls"][0]["thread"]] += 1
    for i, call in enumerate(hist["calls"]):
        d["calls"] += 1
        c = hist_call_case(hist, i)
        m = mech_of(c) if call["T"] else "none"
        d["calls_by_mechanism"][m] = d["calls_by_mechanism"].get(m, 0) + 1
        stall = call["step"][0] in ("stall", "stall_closed")
        d["stalls"] += 1 if stall else 0
        if i and call["thread"] != hist["calls"][i - 1]["thread"]:
            k = "%s->%s" % (hist["calls"][i - 1]["thread"], call["thread"])
            d["thread_switches"][k] = d["thread_switches"].get(k, 0) + 1
            if stall:
                d["stall_right_after_switch"][k] = d["stall_right_after_switch"].get(k, 0) + 1
        if i and m != "none":
            prev = [mech_of(hist_call_case(hist, j)) for j in range(i) if hist["calls"][j]["T"]]
            if prev and prev[-1] != m:
                d["mechanism_changes_on_one_object"] += 1
    d["reopened_after_timeout"] += sum(1 for o in obs["calls"] if o.get("reopened"))


def _run_histories(rep, rng, dist, hists):
    """-> (done, terms, indices failing the oracle)"""
    done, terms, failing = [], [], []
    for h in hists:
        if hist_in_known_region(h):
            continue
        hist, obs, fails = observe_history(h)
        done.append((hist, obs, fails))
        if len(obs["calls"]) == len(hist["calls"]):
            terms.append(hist_term(hist, obs))
        else:
            terms.append(None)
        switches = sum(1 for i in range(1, len(hist["calls"])) if hist["calls"][i]["thread"] != hist["calls"][i - 1]["thread"])
        rep.case(("h", json.dumps({k: v for k, v in hist.items() if k != "label"}, sort_keys=True)), nontrivial=switches > 0)
        _hist_stats(dist, hist, obs)
        if fails:
            failing.append(len(done) - 1)
    return done, terms, failing


def _runtime_suite(rep, dist):
    """real Telnet transport over a loopback socket / real system transport over a pty, peer silent"""
    for kind in ("telnet-loopback", "system-pty"):
        T = 0.2
        try:
            obs = impl.run_runtime(kind, T)
            bad = None
            for _ in range(2):
                out = obs["out"] or {}
                if out.get("cls") == "ScrapliTimeout" and obs["elapsed"] <= T + SLACK and not obs["alive"] and not obs["leftover_threads"]:
                    bad = None
                    break
                bad = "real %s, peer silent, timeout_transport=%.1f s: %s after %.2f s, alive=%s, %d thread(s) left" % (
                    kind, T, out.get("cls") or out.get("kind"), obs["elapsed"], obs["alive"], obs["leftover_threads"])
                obs = impl.run_runtime(kind, T)
            rep.case(("runtime", kind))
            dist["runtime"][kind] = {"elapsed": obs["elapsed"], "out": (obs["out"] or {}).get("cls")}
            if bad:
                rep.violation(bad, {"suite": "timeout-runtime", "runtime": kind, "timeout_transport": T, "observed": obs,
                                    "rerun": "VERIF_REPO=%s ./check C07 --replay <this file>" % common.REPO})
        except OSError as e:      # no loopback / no pty in this sandbox: observed-only part skipped, say so
            rep.notes.append("runtime sub-suite %s skipped: %r" % (kind, e))
            dist["runtime"][kind] = "skipped"


def _known_replays(rep, dist):
    """the regions of the listed known findings: replayed on every run (KNOWN-FINDING while they still fail that way,
    a VIOLATION if the entry is not listed or the region fails differently)"""
    for sig, case in KNOWN_CASES.items():
        case, obs, fails = observe(dict(case))
        rep.case(("known", sig))
        dist["known_replayed"][sig] = "fails" if fails else "holds"
        if fails:
            got = signature_of(case, fails)
            rep.violation("%s: %s" % (case["label"], "; ".join(t for _, t in fails)), _replay_dict(case, obs, fails),
                          signature=got if got == sig else None)
        elif rep.known_match(sig):
            rep.notes.append("known finding %s no longer reproduces" % sig)


def neighbours(case):
    """the cases next to one on which model and implementation differ: the same call (mechanism, operation, stall point,
    settings) under every pair of limits, the limits far apart - where a limit that is not honoured shows on the clock"""
    out = []
    if case["level"] == "op" and last_kind(case) in ("stall", "stall_closed"):
        for pname, to, ti in LIMIT_PAIRS:
            c = dict(case, t_ops=to, t_tr=ti if case["wrapped"] else 0.0, pair=pname, watchdog=None,
                     label="%s [limits changed to pair %s: ops=%s tr=%s]" % (case["label"], pname, to, ti))
            if c["stack"] == "async" and c["op"] == "channel_authenticate_telnet" and to and ti and ti < to:
                c["t_tr"] = to / 40
            if mech_of(c) == "thread" and limit_of(c):
                c["no_term"] = False
                c["steps"] = list(c["steps"][:-1]) + [("stall_closed",)]
            out.append(c)
    elif case["level"] in ("tleaf", "cleaf", "real"):
        key = "t_ops" if case["level"] == "cleaf" else "t_tr"
        for T in (0.1, 0.0):
            if case[key] != T:
                out.append(dict(case, watchdog=None, label="%s [limit changed to %s]" % (case["label"], T), **{key: T}))
    return [c for c in out if not in_known_region(c) and not (mech_of(c) == "thread" and last_kind(c) == "stall" and limit_of(c))]


def _search(rep, rng, dist, n, near=()):
    """an obligation or the correspondence broke: look for a failing input of the property itself - first on the cases
    on which model and implementation differ (run again under the oracle, then their neighbours over the pairs of limits),
    then over the enumerated pool"""
    found = 0
    seen = set()
    for c0 in list(near)[:6]:
        for c in [dict(c0, watchdog=None)] + neighbours(c0):
            key = json.dumps({k: v for k, v in c.items() if k not in ("label", "watchdog")}, sort_keys=True)
            if key in seen:
                continue
            seen.add(key)
            case, obs, fails = observe(c)
            rep.case(("search-near", key), nontrivial=False)
            dist["search_cases"] += 1
            dist["search_near_disagreement"] = dist.get("search_near_disagreement", 0) + 1
            if fails:
                rep.violation("search next to a model disagreement: %s: %s" % (case["label"], "; ".join(t for _, t in fails)),
                              _replay_dict(case, obs, fails), signature=signature_of(case, fails))
                found += 1
                if found >= 3:
                    return found
    if found:
        return found
    pool = []
    for stack, mechs in (("sync", SYNC_MECHS), ("async", ASYNC_MECHS)):
        for mname, mkw in mechs:
            for T in (0.1, 0.0):
                for nt in (False, True):
                    for kind in (("stall",), ("stall_closed",), ("ret", 0, 1), ("exc", 0, 2)):
                        for lvl in ("tleaf", "cleaf"):
                            c = mk(stack=stack, level=lvl, no_term=nt, steps=[kind], mech=mname, prev_handler="user",
                                   prev_timer=[50.0, 0.0], fname="get_prompt", label="search %s" % mname, **mkw)
                            c["t_tr" if lvl == "tleaf" else "t_ops"] = T
                            if lvl == "cleaf":
                                c["wrapped"] = False
                            if not in_known_region(c) and not (mech_of(c) == "thread" and kind == ("stall",) and T):
                                pool.append(c)
    for op in sorted(impl.OPS):
        for k in range(len(impl.STREAMS[op]) + 1):
            pool.append(gen_op_case(rng, op=op, k=k, combo="outer"))
    for _ in range(12):
        pool.append(gen_nested_async_case(rng))
    rng.shuffle(pool)
    hists = [gen_history(rng) for _ in range(max(8, n // 6))]
    for h in hists:
        if hist_in_known_region(h):
            continue
        hist, obs, fails = observe_history(h)
        rep.case(("search-h", json.dumps(hist, sort_keys=True)), nontrivial=False)
        dist["search_cases"] += 1
        if fails:
            rep.violation("search after a broken obligation: %s: %s" % (hist["label"], "; ".join(t for _, t in fails)),
                          _replay_hist(hist, obs, fails))
            found += 1
            if found >= 3:
                return found
    for c in pool[:n]:
        if in_known_region(c):
            continue
        case, obs, fails = observe(c)
        rep.case(("search", json.dumps(case, sort_keys=True)), nontrivial=False)
        dist["search_cases"] += 1
        if fails:
            rep.violation("search after a broken obligation: %s: %s" % (case["label"], "; ".join(t for _, t in fails)),
                          _replay_dict(case, obs, fails), signature=signature_of(case, fails))
            found += 1
            if found >= 3:
                break
    return found


def run(rep):
    from gen import gen_timeout

    rng = rep.rng
    thorough = rep.tier == "thorough"
    info = {}
    try:
        _, info = gen_timeout.generate(rep.workdir, common.REPO)
        rc, out, _ = common.coqc(os.path.join(rep.workdir, "Gen_Timeout.v"), rep.workdir)
        if rc:
            rep.broken.append("Gen_Timeout.v")
            rep.notes.append(out[-2000:])
    except Exception as e:  # translator aborted: broken tie
        rep.broken.append("gen_timeout:%s" % e)
    ok, _ = rep.build_static()
    rep.add_static_obligations("props/C07.v", ok)
    if not ok:
        rep.broken.append("static-build")
    if ok and not [b for b in rep.broken if b.startswith(("Gen_", "gen_", "static"))]:
        rep.compile_props("props/C07.v")

    dist = {"by_mechanism": {}, "by_level": {}, "by_last_step": {}, "by_timeout": {}, "no_terminate": {"on": 0, "off": 0},
            "prev_timer": {"none": 0, "pending": 0, "pending+interval": 0, "due-during-call": 0}, "stall_points": {},
            "nesting": {}, "hang_cases": 0, "known_replayed": {}, "runtime": {}, "search_cases": 0, "lock_on": 0,
            "asyncio_nested_outer_first": {"no_terminate on": 0, "no_terminate off": 0}, "asyncio_over_real_transport": {},
            "asyncio_follow_up_run": {}, "asyncio_task_observed": 0, "limit_pairs_stalled_op": {}, "oracle_only": 0,
            "peer_eof": {"during_login": {}, "during_operation": {}, "single_call": {}},
            "reopened_after_cut_session": {"by_mechanism": {}, "cut_by": {}, "cut_operation": {}, "sessions_before": {},
                                           "final_call": {}, "earlier_session_outcomes": {}},
            "histories": {"count": 0, "calls": 0, "by_length": {}, "by_class": {}, "first_thread": {"main": 0, "worker": 0},
                          "calls_by_mechanism": {}, "stalls": 0, "thread_switches": {}, "stall_right_after_switch": {},
                          "mechanism_changes_on_one_object": 0, "reopened_after_timeout": 0}}
    _known_replays(rep, dist)
    _runtime_suite(rep, dist)

    # every mechanism x every pair of limits of a channel operation over a decorated read (transport < ops, = ops, > ops,
    # either one 0), and a stall after reads that took a while
    cases = corpus() + slow_cases() + limit_pair_cases(rng, full=thorough) + slow_read_cases()
    # peers that end the session (EOF, socket still open) during the login / during operations; sessions cut half-way,
    # re-opened on the same objects, then a silent device
    extra_rng = random.Random("c07-eof-reopen-%s" % rep.seed)      # (its own stream: the cases above stay what they were)
    extra = eof_cases(extra_rng, full=thorough) + reopen_cases(extra_rng, 40 if thorough else 5)
    n_leaf, n_op, n_real, n_nested = (420, 420, 80, 120) if thorough else (52, 56, 10, 12)
    for T in (0.0, 0.0, 0.05, 0.3):
        cases.append(gen_leaf_case(rng, boundary=T))
    for _ in range(n_leaf):
        cases.append(gen_leaf_case(rng))
    # every stall point of every operation at least once (sync and asyncio), then random ones
    for op in sorted(impl.OPS):
        for k in range(len(impl.STREAMS[op]) + 1):
            if thorough or k in (0, len(impl.STREAMS[op]) - 1, len(impl.STREAMS[op])) or rng.random() < 0.5:
                cases.append(gen_op_case(rng, op=op, k=k, combo="outer"))
    for _ in range(n_op):
        cases.append(gen_op_case(rng))
    for _ in range(n_nested):
        cases.append(gen_nested_async_case(rng))
    for real in ("system", "telnet", "asynctelnet", "asyncssh"):
        cases.append(gen_real_case(rng, real=real))
    for _ in range(n_real):
        cases.append(gen_real_case(rng))
    cases += extra

    done, terms, oracle_fail = [], [], []
    for c in cases:
        sig = in_known_region(c)
        if sig and rep.known_match(sig):
            continue                  # listed known finding: replayed above, kept out of the main exploration
        if sig == SIG_ATELNET0:
            continue
        case, obs, fails = observe(c)
        done.append((case, obs, fails))
        # (a tie of the two limits in two threads: judged by the oracle only, the model has no race)
        terms.append(None if case.get("oracle_only") else case_term(case, obs))
        m = mech_of(case)
        lk = last_kind(case) or "empty"
        nontrivial = lk in ("stall", "stall_closed", "eof") or any(s[0] in ("ret", "exc") and s[1] for s in case["steps"])
        rep.case(("c", json.dumps({k: v for k, v in case.items() if k not in ("label", "watchdog")}, sort_keys=True)), nontrivial=nontrivial)
        dist["by_mechanism"][case.get("mech", m)] = dist["by_mechanism"].get(case.get("mech", m), 0) + 1
        dist["by_level"][case["level"]] = dist["by_level"].get(case["level"], 0) + 1
        dist["by_last_step"][lk] = dist["by_last_step"].get(lk, 0) + 1
        tk = "%s/%s" % (case["t_ops"], case["t_tr"])
        dist["by_timeout"][tk] = dist["by_timeout"].get(tk, 0) + 1
        dist["no_terminate"]["on" if case["no_term"] else "off"] += 1
        pt = case.get("prev_timer")
        dist["prev_timer"]["none" if not pt else "due-during-call" if pt[0] < 5 else "pending+interval" if pt[1] else "pending"] += 1
        if case["level"] == "op":
            sp = "%s: %s" % (case["op"], case.get("stall_point"))
            dist["stall_points"][sp] = dist["stall_points"].get(sp, 0) + 1
            nk = "%s outer=%s inner=%s" % (m, "on" if case["t_ops"] else "off", ("on" if case["t_tr"] else "off") if case["wrapped"] else "undecorated")
            dist["nesting"][nk] = dist["nesting"].get(nk, 0) + 1
        dist["hang_cases"] += 1 if obs["hang"] else 0
        if m == "asyncio":
            dist["asyncio_task_observed"] += 0 if obs["hang"] else 1
            if (case["level"] == "op" and case["wrapped"] and case["t_ops"] and case["t_tr"] > case["t_ops"]
                    and lk in ("stall", "stall_closed")):
                dist["asyncio_nested_outer_first"]["no_terminate %s" % ("on" if case["no_term"] else "off")] += 1
            if case.get("real") and case["level"] == "op":
                dist["asyncio_over_real_transport"][case["real"]] = dist["asyncio_over_real_transport"].get(case["real"], 0) + 1
            if obs.get("follow"):
                fk = obs["follow"]["op"]
                dist["asyncio_follow_up_run"][fk] = dist["asyncio_follow_up_run"].get(fk, 0) + 1
        dist["lock_on"] += 1 if case["lock"] else 0
        if case["level"] == "op" and case["wrapped"] and lk in ("stall", "stall_closed"):
            rel = ("both=0" if not (case["t_ops"] or case["t_tr"]) else "tr=0" if not case["t_tr"] else "ops=0" if not case["t_ops"]
                   else "tr<ops" if case["t_tr"] < case["t_ops"] else "tr=ops" if case["t_tr"] == case["t_ops"] else "tr>ops")
            d = dist["limit_pairs_stalled_op"].setdefault(rel, {})
            d[m] = d.get(m, 0) + 1
        dist["oracle_only"] += 1 if case.get("oracle_only") else 0
        if lk == "eof":
            d = dist["peer_eof"]["during_login" if eof_login(case) else "during_operation" if case["level"] == "op" else "single_call"]
            d[case.get("mech", m)] = d.get(case.get("mech", m), 0) + 1
        if case.get("prelude"):
            d = dist["reopened_after_cut_session"]
            for key, val in [("by_mechanism", case["mech"]), ("sessions_before", str(len(case["prelude"]))),
                             ("final_call", "%s/%s" % (case["level"], lk))]:
                d[key][val] = d[key].get(val, 0) + 1
            for p, po in zip(case["prelude"], obs.get("prelude") or []):
                d["cut_by"][p["abort"]] = d["cut_by"].get(p["abort"], 0) + 1
                d["cut_operation"][p["op"]] = d["cut_operation"].get(p["op"], 0) + 1
                ok = "%s: %s" % (p["abort"], (po["out"] or {}).get("cls") or (po["out"] or {}).get("kind"))
                d["earlier_session_outcomes"][ok] = d["earlier_session_outcomes"].get(ok, 0) + 1
        if fails:
            oracle_fail.append(len(done) - 1)
    for ix in (0, len(done) // 2, len(done) - 1):
        if 0 <= ix < len(done):
            c, o, _ = done[ix]
            rep.sample({"case": c["label"], "steps": c["steps"][-2:], "t_ops": c["t_ops"], "t_tr": c["t_tr"], "no_term": c["no_term"],
                        "prev_timer": c["prev_timer"], "observed": o})

    # histories: several calls on ONE transport / channel object, main thread and other threads in both orders
    hists = corpus_histories() + [gen_history(rng) for _ in range(160 if thorough else 18)]
    hdone, hterms, hfail = _run_histories(rep, rng, dist, hists)
    for ix in (0, len(hdone) - 1):
        if 0 <= ix < len(hdone):
            rep.sample({"case": hdone[ix][0]["label"], "calls": hdone[ix][0]["calls"], "observed": hdone[ix][1]})

    import threading
    hres = {}
    hidx = [i for i, x in enumerate(hterms) if x is not None]

    def _eval_hist():
        hres["r"] = common.eval_cases(rep.workdir, "cases_c07h", HEADER_HIST, [hterms[i] for i in hidx], "chk_hist", shard=400)

    th = threading.Thread(target=_eval_hist)
    th.start()
    tidx = [i for i, x in enumerate(terms) if x is not None]
    bad, log = common.eval_cases(rep.workdir, "cases_c07", HEADER, [terms[i] for i in tidx], "chk", shard=150)
    if bad is not None:
        bad = [tidx[i] for i in bad]
    th.join()
    hbad, hlog = hres.get("r", (None, "history evaluation did not run"))
    rep.coverage["correspondence"] = {"suite": "timeout-fault", "cases": len(tidx), "oracle_only_cases": len(terms) - len(tidx), "distribution": dist,
                                      "model_disagreements": None if bad is None else len(bad),
                                      "oracle_failures": len(oracle_fail),
                                      "histories": {"suite": "timeout-history", "cases": len(hdone),
                                                    "model_disagreements": None if hbad is None else len(hbad),
                                                    "oracle_failures": len(hfail)}}
    rep.coverage["generated_from"] = common.source_hashes(SOURCES)
    rep.coverage["generated"] = info
    rep.rule = ("cases = (stack sync|asyncio) x (how the mechanism is selected: class name, non-main thread, windows flag, main thread) x "
                "(one decorated transport read | one decorated channel method | a real channel operation over a scripted transport cut at "
                "every stall point | the real transports' read() over fakes) x (timeout 0, 0.05-0.3 s, fractional; outer/inner/both/none) x "
                "NO_TERMINATE on/off x channel lock on/off x previous SIGALRM handler/timer (none, pending, pending with interval, due during "
                "the call); asyncio: channel operation over a decorated read of a scripted or of the real asynctelnet/asyncssh transport "
                "with the channel limit due first, tasks and blocked reads counted when the call comes back, and on a connection left open "
                "a following operation (get_prompt / send_input) whose device output must reach it whole; "
                "limit pairs = every mechanism (signal, thread by class, thread by non-main thread, asyncio over a scripted / the real "
                "asynctelnet / asyncssh transport) x (timeout_transport < / = / > timeout_ops, >= 1.9 s apart, either one 0, both 0) x "
                "operation kind and stall point (rotating with the seed; thorough: every operation kind), plus a stall after reads "
                "that each took 0.1 s: the stalled read must end by min(timeout_transport from ITS start, rest of timeout_ops); "
                "histories = 2-5 decorated calls (transport read / channel method, own limit incl. 0, own NO_TERMINATE) one after "
                "the other on ONE transport + channel object, each from the main thread or a fresh non-main thread, both orders, class "
                "names on both sides of the mechanism split, the device answering / raising / going silent, the connection reopened "
                "after a timeout closed it; every call judged as if it were the only one; "
                "non-trivial = the call stalls or runs for a while (history: the thread changes between two calls); distinct = the whole case")

    near = []                  # cases on which model and implementation differ although the oracle is content
    reported = 0
    for ix in oracle_fail:
        case, obs, fails = done[ix]
        if reported >= 6:
            break
        if rep.violation("%s: %s" % (case["label"], "; ".join(t for _, t in fails)), _replay_dict(case, obs, fails),
                         signature=signature_of(case, fails)):
            reported += 1
    reported = 0
    for ix in hfail:
        hist, obs, fails = hdone[ix]
        if reported >= 6:
            break
        if rep.violation("%s: %s" % (hist["label"], "; ".join(t for _, t in fails)), _replay_hist(hist, obs, fails)):
            reported += 1
    if hbad is None:
        rep.broken.append("correspondence timeout-history (model evaluation failed)")
        rep.notes.append(hlog)
    else:
        wrong = [hidx[i] for i in hbad] + [i for i, x in enumerate(hterms) if x is None]
        for ix in wrong[:6]:
            hist, obs, fails = hdone[ix]
            if fails:
                continue          # already a violation of the property with a concrete replay
            rep.broken.append("correspondence timeout-history: model differs from implementation on: %s" % hist["label"])
            rep.notes.append("disagreement: history=%r observed=%r" % (hist, obs))
    if bad is None:
        rep.broken.append("correspondence timeout-fault (model evaluation failed)")
        rep.notes.append(log)
    elif bad:
        for ix in bad[:6]:
            case, obs, fails = done[ix]
            if fails:
                continue          # already a violation of the property with a concrete replay
            near.append(case)
            rep.broken.append("correspondence timeout-fault: model differs from implementation on: %s" % case["label"])
            rep.notes.append("disagreement: case=%r observed=%r model=%s" % (
                case, obs, common.eval_term(rep.workdir, "dis_%d" % ix, HEADER, "let r := model %s in (out r, rst r)" % terms[ix])[-600:]))
    if rep.broken and not rep.violations:
        _search(rep, rng, dist, 400 if thorough else 90, near=near)


def replay(path):
    r = json.load(open(path))
    if r.get("runtime"):
        ok = True
        for _ in range(3):
            obs = impl.run_runtime(r["runtime"], r["timeout_transport"])
            print("observed:", obs)
            out = obs["out"] or {}
            ok = out.get("cls") == "ScrapliTimeout" and obs["elapsed"] <= r["timeout_transport"] + SLACK and not obs["alive"]
            if ok:
                break
        print("property holds on this input" if ok else "property FAILS on this input")
        return 0 if ok else 1
    c = r.get("case")
    if not c:
        print("nothing to replay (no concrete input): %s" % r.get("what"))
        return 1
    if c.get("suite") == "history" or "calls" in c:
        hist, obs, fails = observe_history(c)
        print("history :", json.dumps(hist))
        for i, o in enumerate(obs["calls"]):
            print("call %d  :" % (i + 1), json.dumps(o))
        for _, t in fails:
            print("FAIL    :", t)
        print("property holds on this input" if not fails else "property FAILS on this input")
        return 1 if fails else 0
    c["steps"] = [tuple(s) for s in c["steps"]]
    case, obs, fails = observe(c)
    print("case    :", json.dumps(case))
    print("observed:", json.dumps(obs))
    for _, t in fails:
        print("FAIL    :", t)
    print("property holds on this input" if not fails else "property FAILS on this input")
    return 1 if fails else 0


MANIFEST = {
    "text": "Coq theorems over model/Timeout.v, the decorator logic of scrapli/decorators.py for the three mechanisms (signal, worker thread, "
            "asyncio) with an explicit clock, SIGALRM handler, interval timer, worker count, asyncio task count (wrapped calls still running "
            "behind a decorated call that is over), transport and lock state, one decorated call and a "
            "channel operation nested over a decorated transport read (props/C07.v, all axiom-free): timeout_zero_disables (a timeout of 0: the "
            "operation IS its body, never ScrapliTimeout, a silent device means waiting for ever); timeout_fires (for EVERY mechanism, pair of "
            "timeouts, number of reads answered before the device goes silent, kind of stall, NO_TERMINATE setting and previous handler/timer: "
            "ScrapliTimeout with the message of the limit that fires first, no later than timeout_ops, transport closed iff NO_TERMINATE is off, "
            "handler / timer / workers / lock / asyncio tasks as before) - PARTIAL: under the two hypotheses that are the known findings' regions; the full "
            "statement is refuted (thread mechanism + NO_TERMINATE, or a read that close() does not end, hangs in the pool's join; signal over a "
            "decorated read overshoots to timeout_transport); completes_in_time and own_exception_propagates (no interference when the device "
            "answers); the pinned commit's zeroing of ITIMER_REAL is refuted (fixed in ab1ccc2); async_transport_limit_alone_fires (asyncio, timeout_ops = 0: a read "
            "that stalls inside the operation is ended by timeout_transport counted from the start of THAT read, with the read's message, "
            "transport closed iff NO_TERMINATE is off, state restored); async_uncancelled_read_left_running (a decorator "
            "that does not hand its own cancellation on to the wrapped call - the model's c_cancel = false - leaves the decorated transport read "
            "running whenever the channel limit falls due first: tasks + 1, state NOT restored; the code as it is, asyncio.wait_for, is "
            "c_cancel = true); history_independent (run_hist: any number of decorated calls one after the other on ONE connection object, "
            "each with its own thread context, limit and NO_TERMINATE setting - the mechanism of call n is select_mech of call n's own "
            "context, outcome / duration / transport state after call n are what the call alone prescribes (ScrapliTimeout exactly at "
            "its own limit for a call that cannot complete), handler / timer interval / workers / lock / tasks after every call as "
            "before the first; under call_ok, which carries the thread + NO_TERMINATE known region) and "
            "history_cached_selection_refuted (a selection worked out at the first timed call and kept on the object - run_hist_cached, "
            "NOT the code as it is - uses the signal mechanism for a call from a non-main thread). Tie: Gen_Timeout.v (message map, thread class "
            "names, the 16 decorated functions, defaults, ast shape of the decorator incl. that the asyncio decorate() awaits the wrapped coroutine "
            "only on the spot or through asyncio.wait_for; that the sync decorate() itself evaluates, on every call, `<class name of this call's "
            "transport> in (...) or _IS_WINDOWS or current_thread() is not main_thread()` in front of the worker-thread branch; that no "
            "function of decorators.py reachable from timeout_wrapper stores into an attribute / subscript / global, calls setattr-like "
            "or container-mutating methods or is memoised = no state kept between calls) regenerated on every run with vm_compute obligations; the "
            "model is recomputed by vm_compute on every generated case and must agree with the REAL decorator / real channel operations / real "
            "transports' read() over scripted transports (sync and asyncio; asyncio channel operations also over the real asynctelnet / asyncssh "
            "transports with fakes underneath); an independent oracle decides the property on the observations, for asyncio including "
            "asyncio.all_tasks() minus the tasks that existed before (one loop iteration after the call came back), the scripted reads still "
            "blocked at that instant, and - nested limits with the channel limit due first, NO_TERMINATE on - a following get_prompt / "
            "send_input on the connection left open, which must receive every byte the device sends it (none taken by a read issued "
            "before it) and return its own result. Nested limits (oracle): a read that stalls inside a channel operation ends with ScrapliTimeout no later "
            "than min(timeout_transport counted from the start of THAT read, what is left of timeout_ops) + 1 s - for the signal, "
            "worker-thread (by class name and by non-main thread) and asyncio mechanisms (scripted and real asynctelnet / asyncssh "
            "transports), pairs timeout_transport < / = / > timeout_ops (>= 1.9 s apart), either one 0, both 0 (then: waits for "
            "ever), every operation kind, stall points rotating, and after reads that took a while; a model / implementation "
            "disagreement is followed up by running the disagreeing cases and their neighbours over these pairs under the "
            "oracle (failing ones are reported with their replay). Histories: the REAL decorator on ONE scripted transport object + ONE channel object, "
            "2-5 calls (transport.read / decorated channel method, limit 0 / 0.05-0.1 s, device answers / raises / goes silent) issued "
            "alternately from the main thread and from fresh non-main threads in both orders, class names on both sides of the "
            "mechanism split, the connection reopened after a timeout closed it; every call is judged by the oracle as if it were the "
            "only one (ScrapliTimeout within its limit, transport closed iff NO_TERMINATE off, handler / timer / threads / lock back, "
            "and the mechanism seen in force from inside the wrapped call - scrapli's SIGALRM handler installed / body running in a "
            "thread other than the caller's - is the one that applies to THAT call's thread) and compared with run_hist by vm_compute. "
            "Peers that END the session (every read answers EOF at once, the socket / stream stays open, isalive() turns False): during the "
            "in-channel telnet login - which answers an EOF with a return and tries again, so only timeout_ops ends it - after 0-2 reads, "
            "under every mechanism (real TelnetTransport / AsynctelnetTransport over fakes, scripted transports named on both sides of "
            "the split, non-main thread, windows flag, asyncio), timeout_transport off / far away, NO_TERMINATE on and off, also with no "
            "limit at all: ScrapliTimeout within timeout_ops, and the transport CLOSED afterwards iff NO_TERMINATE is off, where closed is "
            "observed on what the transport holds (the fake socket's / stream's close, the scripted transport's own flag), not on isalive(); "
            "during the other operations and single decorated calls: the connection error at once, nothing closed, nothing left behind. "
            "Re-opened sessions: on ONE transport + channel object 1-2 sessions end half-way through a real channel operation "
            "(send_input_and_read with read_duration below / above 1 s, send_input, get_prompt; the device drops the session, the caller "
            "cancels the operation - asyncio -, its timeout_ops fires), each followed by a re-open (asynctelnet: the real open() with "
            "only the dialling replaced), then the device stays silent: the stalled transport.read() / get_prompt of the last session is "
            "judged by the CONFIGURED limits exactly like a first call on fresh objects (oracle + model), and the limits found on the "
            "objects when that session starts must be the configured pair; asyncio over scripted / real asynctelnet / asyncssh "
            "transports, sync under the signal and both worker-thread selections. A harness thread ends a call that stops giving the event "
            "loop a turn, and every scripted write refuses once the case is released, so a login that spins is reported, not waited for. "
            "OBSERVED ONLY (partial): wall-clock latency (<= limit + 1 s), real signal delivery, real thread scheduling, and that closing a real "
            "transport ends a blocked read (real Telnet over a loopback socket - fixed in 9660fae - and the real system transport over a pty).",
    "note": "Trusted: Coq kernel + vm_compute; the hand model coq/model/Timeout.v (tied by the correspondence run only: ~235 cases + ~30 "
            "histories (~100 calls) quick, ~1260 + ~170 histories "
            "thorough, all stall points of 5 channel operations, timeouts 0 / 0.05-0.3 s / fractional, the mechanism induced by class name, "
            "non-main thread, windows flag); gen/gen_timeout.py (ast reading of decorators.py is syntactic); scripted transports and fakes under "
            "the real transports; CPython signal/threading/asyncio are modelled, not verified. Model assumptions stated as hypotheses, not axioms: "
            "reads answered before the stall return in less than timeout_transport; the previous SIGALRM handler is the user's. Ties between the "
            "two limits are resolved as the outer one firing (the random generators keep >= 1 s between them; the limit-pair cases "
            "with timeout_transport = timeout_ops are compared with the model under asyncio, where the outer timer is armed first, "
            "are the known signal region under the signal mechanism, and are ORACLE-ONLY under the thread mechanism, where the "
            "two waits expire in two threads and which message wins is a race - outcome class, time, transport and thread state are "
            "still judged). The bound min(timeout_transport from the stalled read, rest of timeout_ops) is what C07_timeout_fires "
            "proves (fire_at) for timeout_ops > 0; for timeout_ops = 0 with only timeout_transport on, C07_async_transport_limit_alone_fires "
            "proves it for asyncio, the signal and thread mechanisms have no general theorem there: model by correspondence + oracle only. The model's asyncio task count is the number of wrapped reads left behind when the call comes back (compared with "
            "the larger of the two observations: new tasks after one loop iteration, scripted reads still blocked at return); of the "
            "following operation the model only predicts that it runs, returns and leaves tasks / lock / transport as they were - WHICH read "
            "receives WHICH device bytes (the swallowed-output observation) and the value the following operation returns are oracle-only. "
            "Histories: the model's calls are single decorated calls whose body is one read (run_wrapped); real channel operations "
            "inside a history, the channel lock inside a history (the model's lock flag only changes on Hang) and a history on the asyncio "
            "stack (no thread context there) are not generated; _IS_WINDOWS is constant within a history; 'no state kept between calls' "
            "is a syntactic ast fact about decorators.py (state kept by the transports / channels themselves is not looked at), backed "
            "by the history scenarios. What signal.signal raises outside the main thread is not modelled (select_mech never gives "
            "MSignal there; the oracle sees the ValueError). "
            "Peer-EOF scenarios: the telnet login that retries on EOF is compared with the model as a body that cannot complete and "
            "that closing the transport ends (StallClosed at operation level, no inner limit: its reads answer at once); the retry loop "
            "itself is not modelled. EOF during the other operations / single calls is ORACLE-ONLY (the model's reads return, raise "
            "the harness's exception or stall; it has no read that raises the transport's connection error). Re-opened sessions: the "
            "earlier, cut sessions (send_input_and_read's temporary transport timeout, cancellation from outside, the re-open) are NOT "
            "modelled and their outcomes are recorded, not judged; the model predicts the last session's stalled call from the configured "
            "limits alone (history independence), which is what the oracle demands. Sync signal mechanism + send_input_and_read cut by "
            "timeout_ops is generated with NO_TERMINATE off only: the handler's ScrapliTimeout is swallowed by that loop's "
            "suppress(ScrapliTimeout) (C14's ground). "
            "Not modelled: send_input_and_read's "
            "suppress(ScrapliTimeout) / temporary transport timeout (C14's ground), paramiko/ssh2 internal socket timeouts, a coroutine that "
            "swallows CancelledError. Known findings: thread mechanism + NO_TERMINATE_ON_TIMEOUT joins the stalled worker; signal-over-signal "
            "nesting (third-party sync transports only) honours timeout_transport before timeout_ops. asyncio Telnet login with timeout_ops=0 "
            "(DESIGN sec. 6 no. 15) is left to C06 and kept out of the generators.",
    "technique": "Coq proofs by induction over the reads answered before the stall, per mechanism, with a state invariant (installed handler, "
                 "absolute timer deadline); refutations by vm_compute witnesses; vm_compute correspondence against the real decorator under "
                 "enumerated stall points and fault histories; runtime observers (getsignal/getitimer, threading.enumerate, asyncio.all_tasks, reads "
                 "in flight, per-read attribution of the device bytes across two consecutive operations, lock, isalive); call histories on "
                 "one connection object across threads with a per-call mechanism observer; induction over the history with the "
                 "state invariant 'the handler is the user's'",
}
