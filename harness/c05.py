"""C05 — every device prompt maps to exactly one privilege level.

proof: for every core platform, every mode's prompt GRAMMAR (spec/prompts.py; a regular language) is
decided against the privilege-level patterns / not_contains lists / combined channel pattern of drivers
CONSTRUCTED from the current source tree (Gen_Prompts_<platform>.v, regenerated on every run), by a
derivative-based emptiness checker whose soundness is proved in Coq (Regex_Proofs.decide_empty_sound,
Prompt_Proofs.obligations_sound): each fact `every string of grammar G is / is not matched by level L`
and `the combined pattern finds a prompt in every string of \\n G trail` is one vm_compute lemma, and
the generated theorem C05_<platform> lifts them to  classify = expected class  on the WHOLE language.
tie: patterns by CPython's own regex parser (gen/regex.py); regex-conformance of the engine with
CPython re; correspondence of Prompt.classify with the real _determine_current_priv (sync and asyncio
drivers), of detection with the real channel.get_prompt, and of the lru_cache model with the real
driver over query / register-session / update histories, including in-place edits of existing level
objects (harness/c05_hist.py); detection after commandeer (oracle only)."""
import concurrent.futures as cf
import json
import os
import re
import sys
import time

from . import c05_hist, c05_objs, common, regexconf
from .common import coq_bytes, coq_list

LEVEL = "proof"
PLATFORMS = ["cisco_iosxe", "cisco_iosxr", "cisco_nxos", "arista_eos", "juniper_junos"]
SOURCES = ["scrapli/driver/core/%s/base_driver.py" % p for p in PLATFORMS] + [
    "scrapli/driver/network/base_driver.py", "scrapli/channel/base_channel.py", "scrapli/channel/sync_channel.py"]

FACT_HEAD = ("From Coq Require Import String List.\n"
             "From Verif Require Import Bytes Regex RegexDeriv RegexDecide Prompt.\n"
             "From Gen Require Import Gen_Prompts_%s Facts_%s.\n")
DFLT = "(FDetect [] [] Eps)"


def _coqc(path, workdir, timeout=1500):
    return common.coqc(path, workdir, timeout=timeout)


def _parse_bytes(out):
    m = re.search(r"Some\s*\[([0-9;\s]*)\]", out)
    if not m:
        return None
    return bytes(int(x) for x in re.findall(r"\d+", m.group(1)))


# ---------------------------------------------------------------------------------------------
# real code
# ---------------------------------------------------------------------------------------------
def make_real_driver(platform, variant, stack="sync"):
    import scrapli.driver.core as core
    sync = {"cisco_iosxe": core.IOSXEDriver, "cisco_iosxr": core.IOSXRDriver, "cisco_nxos": core.NXOSDriver,
            "arista_eos": core.EOSDriver, "juniper_junos": core.JunosDriver}
    asy = {"cisco_iosxe": core.AsyncIOSXEDriver, "cisco_iosxr": core.AsyncIOSXRDriver, "cisco_nxos": core.AsyncNXOSDriver,
           "arista_eos": core.AsyncEOSDriver, "juniper_junos": core.AsyncJunosDriver}
    if stack == "sync":
        d = sync[platform](host="h", transport="telnet", auth_bypass=True, timeout_ops=0, timeout_transport=0)
    else:
        d = asy[platform](host="h", transport="asynctelnet", auth_bypass=True, timeout_ops=0, timeout_transport=0)
    if variant.startswith("session:"):
        d.register_configuration_session(session_name=variant.split(":", 1)[1])
    return d


def real_classify(drv, prompt):
    from scrapli.exceptions import ScrapliPrivilegeError
    try:
        return list(drv._determine_current_priv(prompt))
    except ScrapliPrivilegeError:
        return []


class _PromptDevice:
    """prints `\\n<prompt><trail>` whenever a return arrives (nothing else): what get_prompt sees"""

    def __init__(self, prompt, trail):
        self.out = bytearray()
        self.closed = False
        self.text = b"\n" + prompt + trail

    def feed(self, b):
        if b"\n" in b:
            self.out += self.text


def real_get_prompt(drv, prompt, trail, stack="sync"):
    from .simdevice import AsyncScriptedTransport, Runner, ScriptedTransport, Starved
    dev = _PromptDevice(prompt, trail)
    t = (ScriptedTransport if stack == "sync" else AsyncScriptedTransport)(dev, ("whole",), None, base_transport_args=drv._base_transport_args)
    t.opened = True
    drv.transport = t
    drv.channel.transport = t
    r = Runner(stack)
    try:
        return r.call(drv.channel.get_prompt)
    except Starved:
        return None
    finally:
        r.close()


def in_grammar(ob, s):
    """python-side membership in the obligation's grammar (independent of the Coq engine)"""
    if not re.fullmatch(ob["line"], s):
        return False
    if any(not re.fullmatch(x, s) for x in ob["len"]):
        return False
    return not any(re.search(c, s) for c in ob["carves"])


def expected_class(ob):
    return [n for n in ob["levels"] if n in ob["class"]]


# ---------------------------------------------------------------------------------------------
def run(rep):
    from gen import gen_prompts
    from gen import regex as rx

    rng = rep.rng
    thorough = rep.tier == "thorough"
    wd = rep.workdir
    from spec import prompts as spec
    session_names = None
    additive = False     # the full host grammar in both tiers (the one-pass search made the additive quick form unnecessary)
    info_all = {}

    # 1. generated facts about the cache, general theorems
    try:
        path, cinfo = gen_prompts.generate_cache_facts(wd)
        rc, out, _ = _coqc(path, wd)
        if rc:
            rep.broken.append("Gen_PromptCache.v")
            rep.notes.append(out[-1500:])
        info_all["cache"] = cinfo
    except Exception as e:  # translator aborted: broken tie
        rep.broken.append("gen_prompts.generate_cache_facts: %s" % e)
    ok, _ = rep.build_static()
    rep.add_static_obligations("props/C05.v", ok)
    if not ok:
        rep.broken.append("static-build")
        return
    if not any(b.startswith(("Gen_PromptCache", "gen_prompts.generate_cache")) for b in rep.broken):
        rep.compile_props("props/C05.v")

    # 2. per platform: generate, collect facts
    plats = {}
    for p in PLATFORMS:
        try:
            session_names = None if thorough else spec.SESSION_NAMES_QUICK.get(p, ["s1"])
            path, obs, info = gen_prompts.generate_platform(p, wd, session_names, additive, extra_tables=("s2",))
        except Exception as e:
            rep.broken.append("gen_prompts(%s): %s" % (p, e))
            continue
        rc, out, _ = _coqc(path, wd)
        if rc:
            rep.broken.append("Gen_Prompts_%s.v" % p)
            rep.notes.append(out[-1500:])
            continue
        ff = os.path.join(wd, "Facts_%s.v" % p)
        open(ff, "w").write(
            "From Coq Require Import String List.\n"
            "From Verif Require Import Bytes Regex RegexDeriv RegexDecide Prompt.\n"
            "From Gen Require Import Gen_Prompts_%s.\n"
            "Fixpoint dedup (l : list fact) (acc : list fact) : list fact :=\n"
            "  match l with [] => rev acc | f :: r => if existsb (fact_eqb f) acc then dedup r acc else dedup r (f :: acc) end.\n"
            "Definition FACTS : list fact := Eval vm_compute in dedup (flat_map ob_facts OBS) [].\n"
            "Lemma covered : forallb (ob_covered FACTS) OBS = true.\nProof. vm_compute. reflexivity. Qed.\n"
            "Eval vm_compute in (length FACTS).\n" % p)
        rc, out, _ = _coqc(ff, wd)
        m = re.search(r"=\s*(\d+)%nat", out)
        if rc or not m:
            rep.broken.append("Facts_%s.v" % p)
            rep.notes.append(out[-1500:])
            continue
        rep.obligations.append(("Facts_%s.v" % p, "covered"))
        rep.discharged.append(("Facts_%s.v" % p, "covered"))
        plats[p] = {"obs": obs, "info": info, "nfacts": int(m.group(1))}
        info_all[p] = {"obligations": info["obligations"], "facts": int(m.group(1)), "atoms": info["atoms"]}

    # 3. decide every fact (one coqc each, in parallel)
    def one(job):
        p, i = job
        fn = os.path.join(wd, "F_%s_%d.v" % (p, i))
        open(fn, "w").write(FACT_HEAD % (p, p) +
                            "Lemma fact_%d_ok : fact_check_auto FUEL (nth %d FACTS %s) = true.\nProof. vm_compute. reflexivity. Qed.\n" % (i, i, DFLT))
        t0 = time.time()
        rc, out, _ = _coqc(fn, wd, timeout=2400)
        return p, i, rc, out, time.time() - t0

    jobs = [(p, i) for p in plats for i in range(plats[p]["nfacts"])]
    # heaviest platforms first so that the pool drains evenly
    order = {"cisco_nxos": 0, "arista_eos": 1, "juniper_junos": 2, "cisco_iosxe": 3, "cisco_iosxr": 4}
    hints = {}
    hp = os.path.join(common.VERIF, "harness", "c05_hints.json")
    if os.path.exists(hp):       # seconds seen on an earlier run: used ONLY to start the long facts first
        hints = json.load(open(hp)).get("thorough" if thorough else "quick", {})
    jobs.sort(key=lambda j: (-hints.get("%s:%d" % j, 0), order[j[0]], j[1]))
    failed = []
    times = []
    slow = []
    with cf.ThreadPoolExecutor(common.JOBS) as ex:
        for p, i, rc, out, dt in ex.map(one, jobs):
            rep.obligations.append(("F_%s_%d.v" % (p, i), "fact_%d_ok" % i))
            times.append(dt)
            slow.append((round(dt, 1), "%s:%d" % (p, i)))
            if rc == 0:
                rep.discharged.append(("F_%s_%d.v" % (p, i), "fact_%d_ok" % i))
            else:
                failed.append((p, i, out))
    info_all["fact_seconds"] = {"n": len(times), "cpu_total": round(sum(times)), "max": round(max(times or [0]), 1),
                                "slowest": sorted(slow, reverse=True)[:10]}

    # 4. the theorem of each platform whose facts all hold
    bad_plats = {p for p, _, _ in failed}
    for p in plats:
        if p in bad_plats:
            continue
        n = plats[p]["nfacts"]
        tf = os.path.join(wd, "C05_%s.v" % p)
        lines = ["From Coq Require Import String List Lia.",
                 "From Verif Require Import Bytes Regex RegexDeriv RegexDecide Prompt Prompt_Proofs.",
                 "From Gen Require Import Gen_Prompts_%s Facts_%s %s." % (p, p, " ".join("F_%s_%d" % (p, i) for i in range(n))),
                 "Lemma all_facts_ok : forallb (fact_check_auto FUEL) FACTS = true.",
                 "Proof.",
                 "  apply (forallb_nth _ %s). intros i Hi." % DFLT]
        for i in range(n):
            lines.append("  destruct i as [|i]; [exact fact_%d_ok|]." % i)
        lines += ["  exfalso. vm_compute in Hi. lia.",
                  "Qed.",
                  "(* every string of every mode's prompt grammar, for this platform's tables (base and with the registered",
                  "   configuration sessions): classified as exactly the expected level(s), and detected by the combined pattern *)",
                  "Theorem C05_%s : forall o, In o OBS -> forall s, all_bytes s = true ->" % p,
                  "  (accepts (gtop (o_G o)) s = true -> classify (o_tbl o) s = expected (o_tbl o) (o_cls o)) /\\",
                  "  (accepts (gtop (o_D o)) s = true -> search_b (o_combined o) s = true).",
                  "Proof. exact (obligations_sound FUEL FACTS OBS all_facts_ok covered). Qed.",
                  "Print Assumptions C05_%s." % p]
        # non-vacuity: one concrete prompt per obligation, accepted by its grammar and classified as expected
        for ob in plats[p]["info"]["obs"]:
            s = sample_member(rx, ob, rng)
            if s is None:
                rep.notes.append("no sample found for %s/%s/%s" % (p, ob["variant"], ob["mode"]))
                continue
            lines.append("Example ex_%s : accepts (gtop (o_G %s)) %s = true /\\ classify (o_tbl %s) %s = [%s].\nProof. vm_compute. split; reflexivity. Qed." % (
                ob["oid"], ob["oid"], coq_bytes(s), ob["oid"], coq_bytes(s),
                "; ".join('"%s"%%string' % n for n in expected_class(ob))))
        lines += bridge_examples(p, plats[p])
        open(tf, "w").write("\n".join(lines) + "\n")
        rep.compile_props(tf)

    # 5. a fact that no longer holds: ask the engine for a witness and replay it on the real driver
    for p, i, out in failed[:12]:
        diagnose(rep, wd, p, i, plats[p], out)

    # 6. regex conformance + correspondence with the real drivers + oracle + cache histories
    correspondence(rep, rx, plats, rng, thorough, info_all)
    known_findings(rep)

    rep.coverage["generated"] = info_all
    rep.coverage["generated_from"] = common.source_hashes(SOURCES)
    rep.coverage["grammar_tier"] = ("thorough: host names = every string of the host grammar up to the patterns' limit; all 9 session names"
                                    if thorough else
                                    "quick: the same host grammar; session names s1 (NX-OS) / s1, abcde-x (EOS)")
    rep.rule = ("obligation = (platform, table variant, mode); fact = (grammar, level, expected) or (grammar, combined pattern), decided on the whole "
                "regular language by a validated closed certificate; correspondence cases = (table, prompt string): members of each grammar "
                "(boundary lengths favoured), one- and two-edit near-misses, carved-out strings; non-trivial = the prompt is matched by at least one level; "
                "distinct = (platform, variant, string)")


def bridge_examples(p, plat):
    """The prompts the simulated device of the upper-layer checks (C01 / C03 / C04 / C13 run the real drivers over
    harness/simdevice.py) prints in each mode ARE strings of this platform's C05 grammars, hence covered by C05_<platform>;
    and they are classified as the share class those checks assume.  One Example per (mode, sub-mode decoration, banner)."""
    from . import simdevice as sd
    out = ["(* bridge to the simulated device of the upper-layer checks: its prompts are members of the grammars above *)"]
    t = sd.PLATFORMS[p]()
    modes = sorted({m for m in t["trans"] if m != "session"} | {m for acts in t["trans"].values() for a in acts.values() for m in [a[1]]})
    obs = plat["info"]["obs"]
    have_s1 = any(o["variant"] == "session:s1" for o in obs)
    if "session" in t["trans"] and have_s1:
        modes.append("session:s1")
    k = 0
    for m in modes:
        for sub in t["submodes"]:
            for banner in (["", "{master}"] if p == "juniper_junos" else [""]):
                d = sd.SimDevice(platform=p, host="router1", user="admin", banner=banner, submode=sub)
                try:
                    text = t["prompt"](d, m)
                except KeyError:
                    continue
                if sub and sub not in text:
                    continue            # this mode carries no sub-mode decoration
                text = text.rstrip(" ")  # get_prompt strips the trailing blank before classification
                if m.startswith("session:"):
                    variant, smode = "session:s1", "s1"
                else:
                    variant = "base"
                    smode = "configuration" if m.startswith("configuration") else m
                ob = [o for o in obs if o["variant"] == variant and o["mode"] == smode]
                if not ob:
                    continue
                ob = ob[0]
                k += 1
                out.append("Example sim_%d : accepts (gtop (o_G %s)) %s = true /\\ classify (o_tbl %s) %s = [%s].\nProof. vm_compute. split; reflexivity. Qed." % (
                    k, ob["oid"], coq_bytes(text.encode()), ob["oid"], coq_bytes(text.encode()),
                    "; ".join('"%s"%%string' % n for n in expected_class(ob))))
    return out


def sample_member(rx, ob, rng, tries=60):
    _, node = rx.translate(ob["line"], 0)
    for _ in range(tries):
        s = rx.sample(node, rng)
        try:
            t = s.decode("latin-1")
        except Exception:
            continue
        if s and in_grammar(ob, t):
            return s
    return None


def diagnose(rep, wd, p, i, plat, out):
    """fact i of platform p failed: witness from the engine, replay on the real driver"""
    fn = os.path.join(wd, "W_%s_%d.v" % (p, i))
    open(fn, "w").write(FACT_HEAD % (p, p) +
                        "Definition f := nth %d FACTS %s.\n"
                        "Eval vm_compute in (fact_witness_auto FUEL f).\n"
                        "Eval vm_compute in (match f with FLevel _ _ l pos => (l_name l, pos) | FDetect _ _ _ => (\"\"%%string, true) end).\n"
                        "Eval vm_compute in (map o_label (filter (fun o => existsb (fact_eqb f) (ob_facts o)) OBS)).\n" % (i, DFLT))
    rc, o2, _ = _coqc(fn, wd, timeout=1200)
    w = _parse_bytes(o2)
    lvl = re.search(r'\("([^"]*)"%string,\s*(true|false)\)', o2)
    labels = re.findall(r'"([a-z_]+/[^"]+/[^"]+)"%string', o2)
    name = "F_%s_%d.v:fact_%d_ok" % (p, i, i)
    if w is None or not labels:
        rep.broken.append(name + " (no witness extracted)")
        rep.notes.append((out + o2)[-1500:])
        return
    label = labels[0]
    _, variant, mode = label.split("/", 2)
    ob = [x for x in plat["info"]["obs"] if x["variant"] == variant and x["mode"] == mode][0]
    drv = make_real_driver(p, variant)
    if lvl and lvl.group(1):        # classification fact
        s = w.decode("latin-1")
        got = real_classify(drv, s)
        want = expected_class(ob)
        replay = {"kind": "classify", "platform": p, "variant": variant, "mode": mode, "prompt_hex": w.hex(), "prompt": s,
                  "expected": want, "observed": got, "fact": name}
        if got != want:
            rep.violation("prompt %r of the %s %s grammar (%s) is classified %s by the real driver, expected %s" % (s, p, mode, variant, got, want), replay)
            rep.broken.append(name)
        else:
            rep.broken.append(name + " (engine witness %r not confirmed by the real driver)" % s)
    else:
        pat = re.compile(drv.comms_prompt_pattern.encode(), re.M | re.I)
        found = pat.search(w)
        replay = {"kind": "detect", "platform": p, "variant": variant, "mode": mode, "stream_hex": w.hex(), "fact": name,
                  "observed": bool(found)}
        if not found:
            rep.violation("the %s prompt in stream %r (%s, %s) is not found by the combined channel pattern" % (p, w, variant, mode), replay)
            rep.broken.append(name)
        else:
            rep.broken.append(name + " (engine witness %r not confirmed by the real channel pattern)" % w)


# ---------------------------------------------------------------------------------------------
def correspondence(rep, rx, plats, rng, thorough, info_all):
    wd = rep.workdir
    n_per = 60 if thorough else 14
    # (a) regex conformance on every level pattern and combined pattern
    pats = []
    seen = set()
    for p, pl in plats.items():
        for tname, t in pl["info"]["tables"].items():
            for name, pat, _ in t["levels"]:
                if pat not in seen:
                    seen.add(pat)
                    pats.append(("%s/%s/%s" % (p, t["variant"], name), pat, re.M | re.I))
            if ("c", t["combined"]) not in seen and t["variant"] in ("base", "session:s1"):
                seen.add(("c", t["combined"]))
                pats.append(("%s/%s/combined" % (p, t["variant"]), t["combined"].encode(), re.M | re.I))
    okc, stats = regexconf.run(rep, pats, 60 if thorough else 25, name="rxconf_c05", with_sub=False)
    info_all["regex_conformance"] = stats

    # (b) classification: model vs real driver (sync and asyncio), oracle on grammar members
    dist = {"members": 0, "near_misses": 0, "carved": 0, "matched_some_level": 0, "len_hist": {}}
    oracle_fail = []
    drivers = {}
    for p, pl in plats.items():
        terms, meta = [], []
        for ob in pl["info"]["obs"]:
            key = (p, ob["variant"])
            if key not in drivers:
                drivers[key] = (make_real_driver(p, ob["variant"], "sync"), make_real_driver(p, ob["variant"], "async"))
            ds, da = drivers[key]
            _, node = rx.translate(ob["line"], 0)
            alphabet = [35, 62, 40, 41, 45, 95, 46, 64, 58, 47, 32, 10, 97, 115, 116, 99, 108, 48, 65, 37, 36, 126]
            strings = []
            for _ in range(n_per):
                s = rx.sample(node, rng)
                r = rng.random()
                if r < 0.55:
                    pass
                elif r < 0.85:
                    s = rx.mutate(s, rng, alphabet)
                else:
                    s = rx.mutate(rx.mutate(s, rng, alphabet), rng, alphabet)
                if 0 < len(s) <= 140 and b"\r" not in s:
                    strings.append(s)
            # carved-out / finding regions on purpose (model must still agree with the implementation there)
            for c in ob["carves"]:
                lit = re.sub(r"\\(.)", r"\1", c).replace(".*", "x")
                base = sample_member(rx, ob, rng, 10) or b"r1#"
                strings.append(lit.encode("latin-1", "replace") + base)
                strings.append(base[:1] + lit.encode("latin-1", "replace") + base[1:])
            # case variants of every not_contains entry of the table, planted in the host part of a member: scrapli compares
            # them case-sensitively, so the upper-case ones are ordinary members of the grammar (oracle applies)
            ncs = sorted({nc for lv in pl["info"]["tables"][ob["table"]]["levels"] for nc in lv[2]})
            for nc in ncs:
                base = sample_member(rx, ob, rng, 10)
                if not base:
                    continue
                for var in (nc.upper(), nc.title(), nc):
                    core = "".join(ch for ch in var if ch.isalnum() or ch in "-_.")
                    if core:
                        strings.append(base[:1] + core.encode("latin-1", "replace") + base[1:])
            for s in strings:
                t = s.decode("latin-1")
                got = real_classify(ds, t)
                got_a = real_classify(da, t)
                member = in_grammar(ob, t)
                if member:
                    dist["members"] += 1
                elif any(re.search(c, t) for c in ob["carves"]):
                    dist["carved"] += 1
                else:
                    dist["near_misses"] += 1
                dist["matched_some_level"] += bool(got)
                lb = min(len(s) // 8 * 8, 72)
                dist["len_hist"][lb] = dist["len_hist"].get(lb, 0) + 1
                rep.case((p, ob["variant"], s), nontrivial=bool(got))
                terms.append("(%s, %s, [%s])" % (ob["table"], coq_bytes(s), "; ".join('"%s"%%string' % n for n in got)))
                meta.append((p, ob, s, got))
                if got_a != got:
                    rep.violation("sync and asyncio %s drivers classify %r differently: %s vs %s" % (p, t, got, got_a),
                                  {"kind": "classify-twin", "platform": p, "variant": ob["variant"], "prompt_hex": s.hex(), "sync": got, "async": got_a})
                if member and got != expected_class(ob):
                    oracle_fail.append((p, ob, s, got))
                # detection through the real channel.get_prompt on a sample of members
                if member and rng.random() < (0.5 if thorough else 0.25):
                    for stack, drv in (("sync", ds), ("async", da)):
                        trail = b" " if ob["trail"] and rng.random() < 0.5 else b""
                        gp = real_get_prompt(drv, s, trail, stack)
                        rep.case(("gp", p, ob["variant"], s, stack))
                        if gp != t:
                            oracle_fail.append((p, ob, s, "get_prompt(%s) -> %r" % (stack, gp)))
        header = ("From Coq Require Import String List.\nFrom Verif Require Import Bytes Regex RegexDeriv Prompt.\n"
                  "From Gen Require Import Gen_Prompts_%s.\n"
                  "Fixpoint seqb (a b : list string) : bool := match a, b with [] , [] => true | x :: a', y :: b' => String.eqb x y && seqb a' b' | _, _ => false end.\n"
                  "Definition chk (c : list level * bytes * list string) : bool := let '(t, s, want) := c in seqb (classify t s) want.\n" % p)
        bad, log = common.eval_cases(wd, "cls_%s" % p, header, terms, "chk", shard=150)
        if bad is None:
            rep.broken.append("correspondence prompt-classify %s (model evaluation failed)" % p)
            rep.notes.append(log[-1500:])
        elif bad:
            for ix in bad[:3]:
                pp, ob, s, got = meta[ix]
                rep.notes.append("model and real driver disagree: %s %s %r real=%s" % (pp, ob["variant"], s, got))
            rep.broken.append("correspondence prompt-classify %s: %d disagreements (first %r)" % (p, len(bad), meta[bad[0]][2]))
    for p, ob, s, got in oracle_fail[:6]:
        rep.violation("prompt %r of the %s %s grammar (%s): real driver gives %s, expected %s" % (
            s.decode("latin-1"), p, ob["mode"], ob["variant"], got, expected_class(ob)),
            {"kind": "classify", "platform": p, "variant": ob["variant"], "mode": ob["mode"], "prompt_hex": s.hex(),
             "prompt": s.decode("latin-1"), "expected": expected_class(ob), "observed": got})
    info_all["classify_correspondence"] = dist

    # (c) cache histories on NX-OS / EOS: queries, register session s1, queries again
    hist_stats = {"histories": 0, "ops": 0, "stale_detected": 0}
    for p in ("cisco_nxos", "arista_eos"):
        if p not in plats:
            continue
        obs = plats[p]["info"]["obs"]
        base_obs = [o for o in obs if o["variant"] == "base"]
        sess_obs = [o for o in obs if o["variant"] == "session:s1"]
        if not sess_obs:
            continue
        terms, meta = [], []
        for h in range(40 if thorough else 12):
            pool = []
            for o in base_obs + [x for x in sess_obs if x["mode"] == "s1"] * 2:
                m = sample_member(rx, o, rng, 10)
                if m:
                    pool.append(m)
            pool = pool or [b"r1#"]
            # history: queries, register s1, queries, then the user retires s1 and registers s2 (on NX-OS the two session
            # levels have the SAME pattern text: only the level name changes), queries again
            def qs(n):
                return [("Q", rng.choice(pool)) for _ in range(n)]
            ops = qs(rng.randint(1, 4)) + [("R",)] + qs(rng.randint(2, 5)) + [("Q", x) for x in pool[-2:]]
            if rng.random() < 0.7:
                ops += [("S",)] + qs(rng.randint(2, 4)) + [("Q", x) for x in pool[-2:]]
            for stack in ("sync", "async"):
                drv = make_real_driver(p, "base", stack)
                # the uncached classifier: lru_cache's own __wrapped__, or (no lru_cache in this tree) python re over the object's table
                _w = getattr(type(drv)._determine_current_priv, "__wrapped__", None)
                raw = _w if _w is not None else (lambda d, t: c05_objs.table_classify(d, t))
                outs, coq_ops = [], []
                for op in ops:
                    if op[0] == "Q":
                        t = op[1].decode("latin-1")
                        got = real_classify(drv, t)
                        from scrapli.exceptions import ScrapliPrivilegeError
                        try:
                            want = list(raw(drv, t))
                        except ScrapliPrivilegeError:
                            want = []
                        if got != want:
                            hist_stats["stale_detected"] += 1
                        if got != want and hist_stats["stale_detected"] <= 3:
                            rep.violation("stale classification of %r after the privilege table changed: cached %s, current table gives %s" % (t, got, want),
                                          {"kind": "cache", "platform": p, "stack": stack, "ops": [[o[0]] + [x.hex() for x in o[1:]] for o in ops]})
                        outs.append("Some (%s)" % ("None" if not got else "Some [%s]" % "; ".join('"%s"%%string' % n for n in got)))
                        coq_ops.append("Query %s" % coq_bytes(op[1]))
                    elif op[0] == "R":
                        drv.register_configuration_session(session_name="s1")
                        outs.append("None")
                        coq_ops.append("Update tbl_session_s1")
                    else:
                        drv.privilege_levels.pop("s1")
                        drv.register_configuration_session(session_name="s2")
                        outs.append("None")
                        coq_ops.append("Update tbl_session_s2")
                terms.append("(%s, %s)" % (coq_list(coq_ops), coq_list(outs)))
                meta.append((p, stack, ops))
                hist_stats["histories"] += 1
                hist_stats["ops"] += len(ops)
                rep.case(("hist", p, stack, tuple(ops)))
        header = ("From Coq Require Import String List.\nFrom Verif Require Import Bytes Regex RegexDeriv Prompt PromptCache.\n"
                  "From Gen Require Import Gen_Prompts_%s Gen_PromptCache.\n"
                  "Fixpoint seqb (a b : list string) : bool := match a, b with [] , [] => true | x :: a', y :: b' => String.eqb x y && seqb a' b' | _, _ => false end.\n"
                  "Definition oeqb (a b : option (option (list string))) : bool := match a, b with None, None => true | Some None, Some None => true\n"
                  "  | Some (Some x), Some (Some y) => seqb x y | _, _ => false end.\n"
                  "Fixpoint leqb (a b : list (option (option (list string)))) : bool := match a, b with [], [] => true | x :: a', y :: b' => oeqb x y && leqb a' b' | _, _ => false end.\n"
                  "Definition chk (c : list (cop (list level)) * list (option (option (list string)))) : bool :=\n"
                  "  let '(ops, outs) := c in leqb (snd (crun classify_opt gen_cap gen_update_clears_cache (mkC tbl_base []) ops)) outs.\n" % p)
        bad, log = common.eval_cases(wd, "hist_%s" % p, header, terms, "chk", shard=40)
        if bad is None:
            rep.broken.append("correspondence prompt-cache %s (model evaluation failed)" % p)
            rep.notes.append(log[-1500:])
        elif bad:
            rep.broken.append("correspondence prompt-cache %s: %d disagreements" % (p, len(bad)))
            rep.notes.append("cache history disagreement: %r" % (meta[bad[0]],))
    info_all["cache_histories"] = hist_stats

    # (c') several driver objects alive at once: the class-wide cache must not hand one object another one's answer
    c05_objs.objects_suite(sys.modules[__name__], rep, rx, plats, rng, thorough, info_all, coq_bytes, coq_list, common, wd)
    c05_objs.session_name_suite(sys.modules[__name__], rep, rx, plats, rng, thorough, info_all)

    # (d) histories with IN-PLACE edits of existing level objects + update_privilege_levels (all platforms), and
    # (e) prompt detection after commandeer (oracle only).  Last: they edit level objects of their own drivers.
    me = sys.modules[__name__]
    if c05_hist.edit_histories(me, rep, rx, plats, rng, thorough, info_all, coq_bytes, coq_list, common, _coqc):
        c05_hist.commandeer_suite(me, rep, rx, plats, rng, thorough, info_all)
    rep.coverage["correspondence"] = {"suites": ["regex-conformance", "prompt-classify", "get_prompt-detect", "prompt-cache", "prompt-cache-objects", "session-name-is-a-level",
                                                 "prompt-cache-in-place-edits", "get_prompt-after-commandeer"]}
    rep.sample({"platform": "cisco_nxos", "example": "switch(maint-mode)(config-subif)# -> ['configuration']"})


KNOWN = [
    ("c05-nxos-host-containing-tcl", "cisco_nxos", "base", "lab-tcl-sw1#", ["privilege_exec"]),
    ("c05-nxos-host-containing-config-s", "cisco_nxos", "base", "myconfig-s-1(config)#", ["configuration"]),
    ("c05-junos-user-ending-in-root-in-configuration", "juniper_junos", "base", "netroot@r1#",
     ["configuration", "configuration_exclusive", "configuration_private"]),
    ("c05-junos-root-inside-non-root-shell-prompt", "juniper_junos", "base", "admin@root-sw:~ %", ["shell"]),
]


def known_findings(rep):
    for sig, p, variant, prompt, want in KNOWN:
        try:
            got = real_classify(make_real_driver(p, variant), prompt)
        except Exception as e:  # noqa
            got = "exception %s" % type(e).__name__
        rep.case(("known", sig))
        if got != want:
            if not rep.known(sig):
                rep.violation("prompt %r (%s) classified %s, expected %s" % (prompt, p, got, want),
                              {"kind": "classify", "platform": p, "variant": variant, "prompt_hex": prompt.encode().hex(), "prompt": prompt,
                               "expected": want, "observed": got}, signature=sig)


def replay(path):
    r = json.load(open(path))
    kind = r.get("kind")
    if kind in ("classify", "classify-twin"):
        p, variant = r["platform"], r["variant"]
        s = bytes.fromhex(r["prompt_hex"]).decode("latin-1")
        got = real_classify(make_real_driver(p, variant), s)
        print("prompt %r on %s (%s): classified %s, expected %s" % (s, p, variant, got, r.get("expected")))
        okk = got == r.get("expected")
        print("property holds on this input" if okk else "property FAILS on this input")
        return 0 if okk else 1
    if kind == "detect":
        drv = make_real_driver(r["platform"], r["variant"])
        w = bytes.fromhex(r["stream_hex"])
        found = re.search(drv.comms_prompt_pattern.encode(), w, re.M | re.I)
        print("stream %r: combined pattern %s" % (w, "finds a prompt" if found else "finds NO prompt"))
        return 0 if found else 1
    if kind == "edit-history":
        return c05_hist.replay_history(sys.modules[__name__], r)
    if kind == "cache":     # the register / retire histories of (c), in the op format of the edit histories
        conv = {"R": ["T", [["register", "s1"]]], "S": ["T", [["retire", "s1"], ["register", "s2"]]]}
        ops = [["Q", o[1]] if o[0] == "Q" else conv[o[0]] for o in r["ops"]]
        return c05_hist.replay_history(sys.modules[__name__], {"platform": r["platform"], "stack": r.get("stack", "sync"), "ops": ops})
    if kind == "session-name":
        return c05_objs.replay_session_name(sys.modules[__name__], r)
    if kind == "cache-objects":
        return c05_objs.replay(sys.modules[__name__], r)
    if kind == "edit-isolation":
        return c05_hist.replay_isolation(sys.modules[__name__], r)
    if kind == "commandeer":
        return c05_hist.replay_commandeer(sys.modules[__name__], r)
    print("nothing to replay (no concrete input): %s" % r.get("what"))
    return 1


MANIFEST = {
    "text": "Coq, whole regular languages, per platform and on every run: theorem C05_<platform> (generated, compiled against the patterns of drivers CONSTRUCTED "
            "from the current tree): for every mode's prompt grammar (spec/prompts.py: host-name alphabet x lengths up to the patterns' own limits x mode decorations x "
            "(maint-mode) / RP prefix / Junos banner line / trailing blank) and for the base table and the tables after register_configuration_session (EOS, NX-OS), EVERY "
            "byte string of the grammar is classified by the model of _determine_current_priv as exactly the expected level(s) (levels that share a prompt together), and "
            "the combined channel pattern finds a prompt in newline+prompt+trailing blank. Each fact is decided by a derivative-based emptiness checker over all 256 bytes "
            "(atoms validated), whose soundness is proved once: C05_decision_sound, C05_fact_sound, C05_obligations_sound (props/C05.v, Closed under the global context). "
            "C05_cache_transparent: for EVERY history of classification queries and table updates the lru_cache in front of the classifier is invisible, given that "
            "update_privilege_levels clears it and register_configuration_session calls it (facts read from the source by ast on every run); refuted without the clear. "
            "C05_cache_transparent_objects: the same for SEVERAL driver objects alive in one process (lru_cache on a method is one cache for the class: shared capacity, "
            "cache_clear() of any object empties it for all) on every interleaved history of any number of objects, given that the key contains the object (read from the source: "
            "the decorated function is the plain method, and its body touches nothing but self.privilege_levels, self.logger and its argument — any hand-made memo makes the translator "
            "refuse); refuted for a key without the object (C05_cache_shared_key_refuted). Confronted with 2-3 real driver objects of one platform (model-compared, NX-OS / EOS session "
            "tables) and of different platforms (oracle-only: python re over each object's own table). "
            "C05_cache_bounded / C05_cache_bounded_objects (proofs/PromptCacheBound_Proofs.v): on EVERY history of one object or of any number of interleaved objects the memo "
            "stays a well-formed LRU store — never more entries than the capacity read from the source, never two entries for one key — whatever the classifier and the key discipline. "
            "Session names that are names of existing levels (a core level, a session registered before; oracle-only): whatever register_configuration_session does — the tree refuses — "
            "every prompt of the base grammars still maps to its own level(s). "
            "Edit-locality (oracle-only): an in-place edit of ONE level object (not_contains appended to / entry removed, pattern text changed) leaves every other level's "
            "pattern and not_contains as they were — fixed histories on every level with an empty not_contains plus the random edit histories. "
            "The same theorem covers IN-PLACE edits of existing level objects (Update t with the edited table): histories on the real drivers of all five platforms classify "
            "prompts, then edit .pattern / .not_contains of the existing PrivilegeLevel objects (host class widened, length bound narrowed, not_contains entry added / removed; "
            "controls: object replaced, level added, undo), call update_privilege_levels(), and classify / get_prompt the prompts that tell the old table from the new one; "
            "the model is given the table of a FRESH driver after the same steps (Gen_PromptEdits_<platform>.v); a connection constructed after another connection's levels were "
            "edited must still have the platform's own table (isolation observer). After commandeer (core driver takes over a GenericDriver or another "
            "platform's connection, also followed by register_configuration_session / an in-place edit; and a GenericDriver taking over a core connection) get_prompt must return "
            "grammar members of 49 and more characters and prompts with blanks. "
            "Known findings are carved out of the grammars by explicit regexes (NX-OS host names containing -tcl or config-s-, Junos user names ending in root in configuration "
            "mode, the word root in a non-root shell prompt) and replayed on every run. quick tier: session names s1 (NX-OS) / s1, abcde-x (EOS); thorough: 9 session names. Both tiers decide the full host grammar.",
    "note": "Trusted: Coq kernel + vm_compute; the prompt grammars and their carve-outs (hand-written specification, spec/prompts.py); gen/regex.py (CPython's own regex parser and "
            "per-byte class membership) and gen/gen_prompts.py; the derivative engine IS the regex semantics of the theorems and is confronted with CPython re on every run "
            "(regex-conformance on all level and combined patterns); Prompt.classify is confronted with the real _determine_current_priv of sync and asyncio drivers on grammar "
            "members, near-misses and carved strings; detection with the real channel.get_prompt over a scripted transport; the cache model with real query/register histories. "
            "In-place-edit histories: oracle = the uncached classifier AND python re over the CURRENT .pattern / .not_contains attributes of the level objects, model = PromptCache.crun "
            "(C05_cache_transparent) over generated edited tables; the edits are a generated family (one extra host character, bounds 2..30, substrings of prompts), not all edits. "
            "Detection after commandeer is ORACLE-ONLY (no Coq model of commandeer: the scenario checks on the real channel that the pattern in use is still the combined pattern "
            "the theorems are about; get_prompt == prompt). "
            "Universal over session NAMES is not proved: a generated family of names. Unicode prompts beyond latin-1 are outside the model (patterns are translated over bytes 0..255).",
    "technique": "Coq: reflection — derivative automaton emptiness certificates validated by a checker proved sound (closed_sound), lifted by obligations_sound; invariant proof for the cache; "
                 "vm_compute correspondence of the classifier and cache models against the real drivers; regex-conformance against CPython re",
}
