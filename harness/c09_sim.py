"""C09 helper — a causal login server, scripted transports with a scripted clock, and runners for
the REAL in-channel login (channel_authenticate_telnet / _ssh of Channel and AsyncChannel, and
driver.open()), without source hooks:

  * the server is a generator: it prints a segment, waits for a line, prints the next one; what was
    typed in which state is its log (the device-side observation of the property);
  * the transport serves the server's output according to a schedule of reads — (n, t): at most n
    bytes at clock time t ms; n = 0: an empty read (sync: read() returns b""; asyncio: the poll
    expires); "err": read() raises ScrapliConnectionError — and raises Starved (a BaseException:
    "would block until the timeout") when a read finds nothing pending;
  * the clock the Telnet kick test reads (`datetime.now().timestamp()` in the three channel
    modules) is replaced for the duration of a run by the time of the current read;
  * the asyncio loops sleep 0.1 s per iteration: `asyncio` inside scrapli.channel.async_channel is
    replaced by a proxy whose sleep() yields to the event loop without waiting.  Nothing else of
    asyncio is touched (wait_for is the real one)."""
import asyncio
import contextlib
import os
import re

from scrapli.channel import AsyncChannel, Channel
from scrapli.channel.base_channel import BaseChannelArgs
from scrapli.exceptions import ScrapliConnectionError
from scrapli.transport.base import AsyncTransport, Transport
from scrapli.transport.base.base_transport import BaseTransportArgs


class Starved(BaseException):
    """nothing pending and the server is waiting for the client"""


# independent list of ssh client messages that end a login attempt (OpenSSH wording, any case)
SSH_FATAL = [b"host key verification failed", b"operation timed out", b"connection timed out", b"no route to host",
             b"no matching host key", b"no matching key exchange", b"no matching cipher", b"bad configuration",
             b"warning: unprotected private key file!", b"could not resolve hostname", b"permission denied"]


def fatal_end(text):
    """offset just after the first fatal ssh message in text (CR-free), or None"""
    low = text.lower()
    best = None
    for f in SSH_FATAL:
        i = low.find(f)
        if i >= 0 and (best is None or i + len(f) < best):
            best = i + len(f)
    return best


# --------------------------------------------------------------------------------------------
# the login server
# --------------------------------------------------------------------------------------------
def telnet_script(sp):
    """options: needs_kick (silent until a return arrives), no_user_prompt (a line that asks for the password
    only), reject_first = n (the first n complete attempts are rejected whatever was typed: a re-prompt)"""
    nl = sp["nl"]
    out = sp["banner"]
    rounds = 0
    if sp.get("needs_kick"):
        # a console / terminal server: prints nothing until it receives a return
        line = yield ("idle", b"")
        while line != b"":
            line = yield ("idle", b"")
    while True:
        if sp.get("no_user_prompt"):
            user = sp["valid"]["user"]
            pw = yield ("password", out + sp["pass_prompt"])
        else:
            user = yield ("login", out + sp["user_prompt"])
            if user == b"":
                out = nl                      # an empty line at the login prompt: prompt again
                continue
            pw = yield ("password", (user if sp["echo"] else b"") + nl + sp["pass_prompt"])
        rounds += 1
        if (user, pw) == (sp["valid"]["user"], sp["valid"]["pass"]) and rounds > sp.get("reject_first", 0):
            break
        if sp["rounds"] is not None and rounds >= sp["rounds"]:
            if sp["after"] == "close":
                yield ("closed", nl + sp["reject"] + nl)
            while True:
                yield ("dead", b"" if rounds > sp["rounds"] else nl + sp["reject"] + nl)
                rounds += 1
        out = nl + sp["reject"] + nl
    out = nl + sp["motd"]
    while True:
        line = yield ("shell", out + sp["shell"])
        out = line + nl


def ssh_script(sp):
    """options: fatal_start, phrase_prompt (an encrypted identity is tried first), phrase_tries, empty_skips_key
    (OpenSSH: an empty passphrase gives up on the key at once), reject_first = n (the first n passphrases are
    refused whatever was typed: a re-prompt), pass_tries, key_accepted (public-key login: the server accepts the
    -- unencrypted, or just decrypted -- identity, no password is asked for; without it the key is REJECTED and the
    server falls back to its password prompt)"""
    nl = sp["nl"]
    out = sp["banner"]
    if sp.get("fatal_start"):
        yield ("closed", out + sp["fatal_start"] + nl)
    ok = bool(sp.get("key_accepted")) and not sp.get("phrase_prompt")
    if sp.get("phrase_prompt"):
        tries = 0
        while True:
            ph = yield ("passphrase", out + sp["phrase_prompt"])
            tries += 1
            if ph == sp["valid"]["phrase"] and tries > sp.get("reject_first", 0):
                ok = True
                break
            out = nl
            if tries >= sp.get("phrase_tries", 3) or (ph == b"" and sp.get("empty_skips_key")):
                break
    if not ok:
        tries = 0
        while True:
            pw = yield ("password", out + sp["pass_prompt"])
            tries += 1
            if pw == sp["valid"]["pass"]:
                break
            if tries >= sp.get("pass_tries", 3):
                yield ("closed", nl + sp["reject_final"] + nl)
            out = nl + sp["reject"] + nl
    out = nl + sp["motd"]
    while True:
        line = yield ("shell", out + sp["shell"])
        out = line + nl


class LoginServer:
    def __init__(self, spec):
        self.spec = spec
        self.gen = (telnet_script if spec["kind"] == "telnet" else ssh_script)(spec)
        self.out = bytearray()
        self.segments = []      # (state the server is in after printing, text)
        self.log = []           # (state, line typed, bytes delivered to the client when it arrived)
        self.raw = []           # [state, every byte received while the server was waiting in it] per visit of a state
        self.line = bytearray()
        self.closed = False
        self.state = None
        self._emit(next(self.gen))

    def _emit(self, st):
        self.state, text = st
        self.raw.append([self.state, bytearray()])
        self.segments.append((self.state, bytes(text)))
        self.out += text
        if self.state == "closed":
            self.closed = True

    def feed(self, data, delivered):
        for c in data:
            self.raw[-1][1].append(c)       # the byte belongs to the state it arrives in (a return included)
            if c == 10:
                line = bytes(self.line)
                self.line = bytearray()
                self.log.append((self.state, line, delivered))
                if self.state in ("dead", "closed"):
                    continue
                self._emit(self.gen.send(line))
            elif c != 13:
                self.line.append(c)


def ideal(spec, creds, fatal_applies):
    """what a correct client obtains from this server: (outcome, [(state, line)], segments, prompt ends).
    Written from the property: answer each prompt with its credential, at most twice, stop at the third
    sighting, at a fatal ssh message, at the shell prompt; independent of the Coq model."""
    return ideal_full(spec, creds, fatal_applies)[:4]


def ideal_full(spec, creds, fatal_applies):
    """ideal() + the server the correct client talked to (its byte-level record `raw`: what the device receives,
    state by state, from a client that types the configured credential, as bytes, and ONE return at each prompt)"""
    srv = LoginServer(spec)
    cred_of = {"login": creds["user"], "password": creds["pass"], "passphrase": creds["phrase"]}
    counts = {}
    log = []
    pos = 0
    while True:
        state, text = srv.segments[-1]
        clean = text.replace(b"\r", b"")
        if fatal_applies and fatal_end(clean) is not None:
            return "ScrapliAuthenticationFailed", log, srv.segments, "fatal", srv
        if state == "shell":
            return "ok", log, srv.segments, "done", srv
        if state in ("dead", "closed"):
            return ("Starved" if state == "dead" else "closed"), log, srv.segments, state, srv
        if state == "idle":
            log.append((state, b""))
            srv.feed(b"\n", 0)
            continue
        if counts.get(state, 0) >= 2:
            return "ScrapliAuthenticationFailed", log, srv.segments, "third", srv
        counts[state] = counts.get(state, 0) + 1
        log.append((state, cred_of[state]))
        srv.feed(cred_of[state] + b"\n", 0)
        pos += 1


# --------------------------------------------------------------------------------------------
# transports
# --------------------------------------------------------------------------------------------
def _bta(port=23):
    return BaseTransportArgs(transport_options={}, host="sim", port=port, timeout_socket=0, timeout_transport=0)


class Policy:
    """how the pending output is cut into reads, and when.  desc (JSON-able):
      {"type": "whole"} | {"type": "bytes", "n": k} | {"type": "cuts", "at": [absolute raw offsets]} |
      {"type": "sizes", "sizes": [..], "then": k}
      optional "inject": {"<read index>": ["empty", t] | ["err"]}   an empty read / a connection error
      optional "times": [t0, t1, ...] (ms, per read index; last one repeats) — default 0
      optional "idle": [t, ...]  clock readings of empty reads delivered while nothing is pending (a server that
                                 is silent); when they are used up a read with nothing pending blocks
      optional "quiet": [n, dt]  a device that thinks before it reacts (AAA round trip, slow console): after every
                                 write of the client the next n reads find nothing (sync: read() returns b"", asyncio:
                                 the read poll expires), the clock moving on by dt ms each time -- what the device has
                                 printed in reaction to the line is only delivered after that quiet gap (a gap begins with
                                 a completed line and is not prolonged by what arrives during it; <= 12 quiet reads a run)"""

    def __init__(self, desc):
        self.d = desc
        self.inject = {int(k): v for k, v in (desc.get("inject") or {}).items()}
        self.times = desc.get("times") or [0]
        self.idle = list(desc.get("idle") or [])
        self.quiet = list(desc.get("quiet") or [0, 0])

    def time(self, k):
        return self.times[k] if k < len(self.times) else self.times[-1]

    def next(self, delivered, pending, k):
        if k in self.inject:
            e = self.inject[k]
            return ("err",) if e[0] == "err" else ("empty", e[1])
        t = self.time(k)
        ty = self.d["type"]
        if ty == "whole":
            n = 65535
        elif ty == "bytes":
            n = self.d["n"]
        elif ty == "cuts":
            n = 65535
            for c in sorted(self.d["at"]):
                if delivered < c:
                    n = c - delivered
                    break
        elif ty == "sizes":
            sz = self.d["sizes"]
            j = k - sum(1 for i in self.inject if i < k)
            n = sz[j] if j < len(sz) else self.d.get("then", 65535)
        else:
            raise ValueError(ty)
        return ("data", max(1, n), t)


class _Common:
    def _init(self, server, policy, eof="raise", max_reads=5000):
        self.server = server
        self.policy = policy if isinstance(policy, Policy) else Policy(policy)
        self.k = 0
        self.delivered = 0
        self.hist = []        # ("r", processed bytes) | ("w", bytes) | ("e",) error
        self.reads = []       # (kind, raw bytes, t)
        self.now = 0.0
        self.eof = eof        # what a read does when the server has hung up: "raise" | "empty"
        self.opened = True
        self.writes = []
        self.wlog = []        # (state the server is in when the write call begins, bytes of the call)
        self.max_reads = max_reads
        self.quiet_left = 0   # empty reads still to serve before the reaction to the last write is delivered
        self.quiet_clock = 0  # ms elapsed in quiet gaps so far
        self.quiet_used = 0

    def _next(self):
        """-> ("data", bytes) | ("expire",) | ("err",)"""
        if self.k >= self.max_reads:
            raise Starved()
        if self.quiet_left > 0:
            self.quiet_left -= 1
            self.quiet_used += 1
            self.quiet_clock += self.policy.quiet[1]
            self.now = self.quiet_clock / 1000.0
            self.reads.append(("empty", b"", self.quiet_clock))
            return ("expire",)
        pending = len(self.server.out) - self.delivered
        e = self.policy.next(self.delivered, pending, self.k)
        self.k += 1
        if e[0] == "err":
            self.reads.append(("err", b"", 0))
            self.hist.append(("e",))
            return ("err",)
        if e[0] == "empty":
            self.now = e[1] / 1000.0
            self.reads.append(("empty", b"", e[1]))
            return ("expire",)
        n, t = e[1], e[2]
        self.now = t / 1000.0
        if pending <= 0 and not self.server.closed and self.policy.idle:
            t = self.policy.idle.pop(0)
            self.now = t / 1000.0
            self.reads.append(("empty", b"", t))
            return ("expire",)
        if pending <= 0:
            if self.server.closed:
                self.reads.append(("eof", b"", t))
                if self.eof == "raise":
                    self.hist.append(("e",))
                    return ("err",)
                return ("data", b"")
            self.reads.append(("blocked", b"", t))
            raise Starved()
        k = min(n, pending)
        b = bytes(self.server.out[self.delivered:self.delivered + k])
        self.delivered += k
        self.reads.append(("data", b, t))
        return ("data", b)

    def _write(self, b):
        b = bytes(b)
        self.writes.append(b)
        self.hist.append(("w", b))
        self.wlog.append((getattr(self.server, "state", None), b))
        if self.quiet_left == 0 and b.endswith(b"\n") and self.quiet_used < 12:
            # the device has a line to think about (not re-armed by what arrives while it is quiet; at most 12 quiet
            # reads per run, so that a client that sends returns into the silence cannot keep the device quiet for ever)
            self.quiet_left = min(self.policy.quiet[0], 12 - self.quiet_used)
        self.server.feed(b, self.delivered)

    def close(self):
        self.opened = False

    def isalive(self):
        return self.opened


class SyncT(_Common, Transport):
    def __init__(self, server, policy, bta=None, **kw):
        Transport.__init__(self, bta or _bta())
        self._init(server, policy, **kw)

    def open(self):
        self.opened = True

    def read(self):
        r = self._next()
        if r[0] == "err":
            raise ScrapliConnectionError("scripted")
        b = r[1] if r[0] == "data" else b""
        self.hist.append(("r", b.replace(b"\r", b"")))
        return b

    def write(self, channel_input):
        self._write(channel_input)


class AsyncT(_Common, AsyncTransport):
    def __init__(self, server, policy, bta=None, real_expiry=False, **kw):
        AsyncTransport.__init__(self, bta or _bta())
        self._init(server, policy, **kw)
        self.real_expiry = real_expiry

    async def open(self):
        self.opened = True

    async def read(self):
        r = self._next()
        if r[0] == "err":
            raise ScrapliConnectionError("scripted")
        if r[0] == "expire":
            self.hist.append(("r", b""))
            if self.real_expiry:
                await asyncio.Event().wait()      # never completes: the real wait_for must expire
            raise asyncio.TimeoutError()          # what wait_for raises when the poll expires
        self.hist.append(("r", r[1].replace(b"\r", b"")))
        return r[1]

    def write(self, channel_input):
        self._write(channel_input)


class _Hist:
    """ONE transport object that is opened several times: every open() connects to the next server session
    (a fresh login server and chunking policy), as a driver that is opened, closed and opened again does"""
    def _init_hist(self, sessions, kw):
        self.sessions = list(sessions)
        self.kw = kw
        self.si = -1
        self._init(NullServer(), {"type": "whole"}, **kw)
        self.opened = False

    def _connect(self):
        self.si += 1
        spec, pol = self.sessions[self.si]
        self._init(LoginServer(spec), pol, **self.kw)


class HistSyncT(_Hist, SyncT):
    def __init__(self, sessions, bta=None, **kw):
        Transport.__init__(self, bta or _bta())
        self._init_hist(sessions, kw)

    def open(self):
        self._connect()


class HistAsyncT(_Hist, AsyncT):
    def __init__(self, sessions, bta=None, **kw):
        AsyncTransport.__init__(self, bta or _bta())
        self.real_expiry = False
        self._init_hist(sessions, kw)

    async def open(self):
        self._connect()


# --------------------------------------------------------------------------------------------
# clock and asyncio proxy
# --------------------------------------------------------------------------------------------
class _Stamp:
    def __init__(self, v):
        self.v = v

    def timestamp(self):
        return self.v


class _Clock:
    transport = None

    def now(self):
        t = _Clock.transport
        return _Stamp(0.0 if t is None else t.now)


class _AsyncioProxy:
    def __getattr__(self, name):
        return getattr(asyncio, name)

    @staticmethod
    async def sleep(delay, result=None):
        await asyncio.sleep(0)
        return result


@contextlib.contextmanager
def scripted_world():
    import scrapli.channel.async_channel as ac
    import scrapli.channel.base_channel as bc
    import scrapli.channel.sync_channel as sc
    saved = [(m, m.datetime) for m in (ac, bc, sc)]
    saved_asyncio = ac.asyncio
    clock = _Clock()
    for m, _ in saved:
        m.datetime = clock
    ac.asyncio = _AsyncioProxy()
    try:
        yield
    finally:
        for m, d in saved:
            m.datetime = d
        ac.asyncio = saved_asyncio
        _Clock.transport = None


# --------------------------------------------------------------------------------------------
# running the real code
# --------------------------------------------------------------------------------------------
def channel_args(prompt, timeout_ops=30.0, overrides=None):
    a = BaseChannelArgs(timeout_ops=timeout_ops) if prompt is None else BaseChannelArgs(comms_prompt_pattern=prompt, timeout_ops=timeout_ops)
    for k, v in (overrides or {}).items():
        setattr(a, k, v)
    return a


def _classify(e):
    if isinstance(e, Starved):
        return "Starved"
    return type(e).__name__


def _result(out, t):
    return {"outcome": out, "hist": list(t.hist), "reads": list(t.reads), "log": list(t.server.log) if t.server else [],
            "cut_short": t.k >= t.max_reads, "wlog": list(t.wlog),
            "raw": [(st, bytes(b)) for st, b in getattr(t.server, "raw", [])] if t.server else [],
            "segments": list(t.server.segments) if t.server else [], "delivered": t.delivered, "writes": list(t.writes)}


class NullServer:
    """for the open-loop event scripts: a queue of chunks, writes go nowhere"""
    def __init__(self):
        self.out = bytearray()
        self.closed = False
        self.log = []
        self.segments = []

    def feed(self, data, delivered):
        pass


class EvSyncT(SyncT):
    """events: ("data", bytes, t) | ("expire", t) | ("err",)"""
    def __init__(self, events):
        SyncT.__init__(self, NullServer(), {"type": "whole"})
        self.events = [e for e in events]

    def read(self):
        if not self.events:
            raise Starved()
        e = self.events.pop(0)
        if e[0] == "err":
            self.hist.append(("e",))
            raise ScrapliConnectionError("scripted")
        if e[0] == "expire":
            self.now = e[1] / 1000.0
            self.hist.append(("r", b""))
            return b""
        self.now = e[2] / 1000.0
        self.hist.append(("r", e[1].replace(b"\r", b"")))
        return e[1]


class EvAsyncT(AsyncT):
    def __init__(self, events):
        AsyncT.__init__(self, NullServer(), {"type": "whole"})
        self.events = [e for e in events]

    async def read(self):
        if not self.events:
            raise Starved()
        e = self.events.pop(0)
        if e[0] == "err":
            self.hist.append(("e",))
            raise ScrapliConnectionError("scripted")
        if e[0] == "expire":
            self.now = e[1] / 1000.0
            self.hist.append(("r", b""))
            raise asyncio.TimeoutError()
        self.now = e[2] / 1000.0
        self.hist.append(("r", e[1].replace(b"\r", b"")))
        return e[1]


def _call_sync(kind, ch, creds):
    if kind == "telnet":
        ch.channel_authenticate_telnet(auth_username=creds["user"].decode(), auth_password=creds["pass"].decode())
    else:
        ch.channel_authenticate_ssh(auth_password=creds["pass"].decode(), auth_private_key_passphrase=creds["phrase"].decode())


async def _call_async(kind, ch, creds):
    if kind == "telnet":
        await ch.channel_authenticate_telnet(auth_username=creds["user"].decode(), auth_password=creds["pass"].decode())
    else:
        await ch.channel_authenticate_ssh(auth_password=creds["pass"].decode(), auth_private_key_passphrase=creds["phrase"].decode())


def run_channel(stack, kind, transport, creds, args):
    """run the real (decorated) login of one stack over `transport`; scripted_world() must be active"""
    _Clock.transport = transport
    try:
        if stack == "sync":
            ch = Channel(transport=transport, base_channel_args=args)
            try:
                _call_sync(kind, ch, creds)
                out = "ok"
            except BaseException as e:  # noqa
                if isinstance(e, (KeyboardInterrupt, SystemExit)):
                    raise
                out = _classify(e)
        else:
            ch = AsyncChannel(transport=transport, base_channel_args=args)

            async def go():
                try:
                    await _call_async(kind, ch, creds)
                    return "ok"
                except BaseException as e:  # noqa
                    if isinstance(e, (KeyboardInterrupt, SystemExit, asyncio.CancelledError)):
                        raise
                    return _classify(e)

            loop = asyncio.new_event_loop()
            try:
                out = loop.run_until_complete(go())
            finally:
                loop.close()
    finally:
        _Clock.transport = None
    return _result(out, transport)


def run_login(stack, kind, spec, policy, creds, prompt=None, timeout_ops=30.0, overrides=None, real_expiry=False,
              eof="raise", max_reads=5000):
    srv = LoginServer(spec)
    if stack == "sync":
        t = SyncT(srv, policy, eof=eof, max_reads=max_reads)
    else:
        t = AsyncT(srv, policy, real_expiry=real_expiry, eof=eof, max_reads=max_reads)
    return run_channel(stack, kind, t, creds, channel_args(prompt, timeout_ops, overrides))


def run_events(stack, kind, events, creds, prompt=None, timeout_ops=30.0):
    t = EvSyncT(events) if stack == "sync" else EvAsyncT(events)
    return run_channel(stack, kind, t, creds, channel_args(prompt, timeout_ops))


def _make_driver(stack, kind, creds, driver, timeout_ops, private_key=False):
    from scrapli.driver import AsyncDriver, AsyncGenericDriver, Driver, GenericDriver
    sync = stack == "sync"
    cls = {("generic", True): GenericDriver, ("generic", False): AsyncGenericDriver,
           ("base", True): Driver, ("base", False): AsyncDriver}[(driver, sync)]
    tname = ("telnet" if sync else "asynctelnet") if kind == "telnet" else "system"

    def _noop(conn):
        return None

    async def _anoop(conn):
        return None

    # private_key: a public-key login (auth_private_key names an identity file; the file only has to exist -- ssh is
    # never started, the transport object is replaced by the scripted one -- so this module stands in for it)
    extra = {"auth_private_key": os.path.abspath(__file__)} if private_key else {}
    # on_open: GenericDriver's default drains the login with a get_prompt (a return); the observation ends with the login
    return cls(**extra, host="sim", transport=tname, auth_username=creds["user"].decode(), auth_password=creds["pass"].decode(),
               auth_private_key_passphrase=creds["phrase"].decode(), auth_strict_key=False, timeout_ops=timeout_ops,
               timeout_transport=0, timeout_socket=0, on_open=_noop if sync else _anoop)


def run_driver(stack, kind, spec, policy, creds, driver="generic", timeout_ops=30.0, depth=None, private_key=False):
    """the whole driver.open() over the scripted transport (GenericDriver / Driver of the stack); depth: a non-default
    comms_prompt_search_depth, set through the driver's public setter"""
    sync = stack == "sync"
    d = _make_driver(stack, kind, creds, driver, timeout_ops, private_key=private_key)
    if depth:
        d.comms_prompt_search_depth = depth
    srv = LoginServer(spec)
    t = (SyncT if sync else AsyncT)(srv, policy, bta=d._base_transport_args)
    d.transport = t
    d.channel.transport = t
    _Clock.transport = t
    try:
        if sync:
            try:
                d.open()
                out = "ok"
            except BaseException as e:  # noqa
                if isinstance(e, (KeyboardInterrupt, SystemExit)):
                    raise
                out = _classify(e)
        else:
            async def go():
                try:
                    await d.open()
                    return "ok"
                except BaseException as e:  # noqa
                    if isinstance(e, (KeyboardInterrupt, SystemExit, asyncio.CancelledError)):
                        raise
                    return _classify(e)
            loop = asyncio.new_event_loop()
            try:
                out = loop.run_until_complete(go())
            finally:
                loop.close()
    finally:
        _Clock.transport = None
    r = _result(out, t)
    r["prompt_pattern"] = d.channel._base_channel_args.comms_prompt_pattern
    return r


def run_history(stack, kind, sessions, creds, level="channel", driver="base", prompt=None, timeout_ops=30.0):
    """several logins on ONE object: level "channel": one Channel / AsyncChannel, channel_authenticate_* called once per
    session; level "driver": one driver, open() ... close() once per session.  The transport object is the same all
    along; each open() of it connects to the next session (spec, policy).  -> one result per login"""
    sync = stack == "sync"
    d = ch = None
    if level == "driver":
        d = _make_driver(stack, kind, creds, driver, timeout_ops)
        t = (HistSyncT if sync else HistAsyncT)(sessions, bta=d._base_transport_args)
        d.transport = t
        d.channel.transport = t
    else:
        t = (HistSyncT if sync else HistAsyncT)(sessions)
        ch = (Channel if sync else AsyncChannel)(transport=t, base_channel_args=channel_args(prompt, timeout_ops))
    results = []

    def classify(e):
        if isinstance(e, (KeyboardInterrupt, SystemExit, asyncio.CancelledError)):
            raise e
        return _classify(e)

    def snap(out):
        r = _result(out, t)
        results.append(r)

    _Clock.transport = t
    try:
        if sync:
            for _ in sessions:
                try:
                    if d is not None:
                        d.open()
                    else:
                        t.open()
                        ch.open()
                        _call_sync(kind, ch, creds)
                    out = "ok"
                except BaseException as e:  # noqa
                    out = classify(e)
                snap(out)
                try:
                    if d is not None:
                        d.close()
                    else:
                        t.close()
                        ch.close()
                except Exception:  # noqa
                    pass
        else:
            async def go():
                for _ in sessions:
                    try:
                        if d is not None:
                            await d.open()
                        else:
                            await t.open()
                            ch.open()
                            await _call_async(kind, ch, creds)
                        out = "ok"
                    except BaseException as e:  # noqa
                        out = classify(e)
                    snap(out)
                    try:
                        if d is not None:
                            await d.close()
                        else:
                            t.close()
                            ch.close()
                    except Exception:  # noqa
                        pass
            loop = asyncio.new_event_loop()
            try:
                loop.run_until_complete(go())
            finally:
                loop.close()
    finally:
        _Clock.transport = None
    return results


# --------------------------------------------------------------------------------------------
# independent oracles (python `re` on the observations; no Coq model involved)
# --------------------------------------------------------------------------------------------
# what "looks like a login / password / passphrase prompt" and "looks like a shell prompt" mean for the oracles: the
# documented default patterns, written down here (a hand-written specification, NOT read from the code under test, so
# that a pattern weakened in the source cannot talk a failure into the region of a known finding)
REF_PATTERNS = {"user": rb"^(.*username:)|(.*login:)\s?$", "pass": rb"(.*@.*)?password:\s?$",
                "phrase": rb"enter passphrase for key"}
REF_PROMPTS = {"channel": rb"^[a-z0-9.\-@()/:]{1,32}[#>$]$", "driver": rb"^[a-z0-9.\-@()/:]{1,48}[#>$]\s*$",
               "generic": rb"^\S{0,48}[#>$~@:\]]\s*$"}


class RefCfg:
    def __init__(self, kind, style):
        self.kind = kind
        names = ["user", "pass"] if kind == "telnet" else ["pass", "phrase"]
        self.pats = [(n, re.compile(REF_PATTERNS[n], re.I | re.M)) for n in names]
        self.prompt = re.compile(REF_PROMPTS[style], re.I | re.M)

    def react(self, b):
        """b: lower-cased, CR-free buffer"""
        if self.kind == "ssh" and fatal_end(b) is not None:
            return "fatal"
        for name, p in self.pats:
            if re.search(p, b):
                return name
        if re.search(self.prompt, b):
            return "shell"
        return None


STATE_REACT = {"login": "user", "password": "pass", "passphrase": "phrase", "shell": "shell"}


def expectation(kind, state, text):
    if kind == "ssh" and fatal_end(text.replace(b"\r", b"")) is not None:
        return "fatal"
    return STATE_REACT.get(state)


def dlg_ok_all(pc, segments):
    """the side condition of the completion theorems (dlg_ok) for EVERY chunking: no read boundary
    leaves a buffer that provokes a reaction other than the one the server is waiting for"""
    segs = [(expectation(pc.kind, st, tx), tx.replace(b"\r", b"").lower()) for st, tx in segments]
    memo = {}

    def quiet(rem):
        return all(pc.react(rem[:i]) is None for i in range(len(rem) + 1))

    def ok(i, rem):
        key = (i, rem)
        if key in memo:
            return memo[key]
        e = segs[i][0]
        res = True
        if e is None or pc.react(rem) != e:
            res = False
        else:
            for k in range(len(rem) + 1):
                r = pc.react(rem[:k])
                if r is None:
                    continue
                if r != e:
                    res = False
                    break
                if e in ("user", "pass", "phrase"):
                    if i + 1 < len(segs):
                        if not ok(i + 1, rem[k:] + segs[i + 1][1]):
                            res = False
                            break
                    elif not quiet(rem[k:]):
                        res = False
                        break
        memo[key] = res
        return res

    if not segs:
        return True
    return ok(0, segs[0][1])


def accepted(pc, ideal_segments):
    """"prompt spellings accepted by the patterns": every segment a correct client is shown provokes, read as a
    whole, the reaction the server is waiting for"""
    for st, tx in ideal_segments:
        want = expectation(pc.kind, st, tx)
        if want is None:
            continue
        if pc.react(tx.replace(b"\r", b"").lower()) != want:
            return False
    return True


def cut_offsets(result):
    """absolute CR-free stream offsets at which the reads of a run ended"""
    out, n = [], 0
    for kind, raw, _ in result["reads"]:
        if kind == "data":
            n += len(raw.replace(b"\r", b""))
            out.append(n)
    return out


def hazard_on_ideal(pc, ideal_segments, cuts):
    """Does one of the read boundaries `cuts` leave a buffer that provokes a reaction other than the one
    the server is waiting for?  Decided on the dialogue a CORRECT client has with the server (so a client
    that misbehaves cannot talk itself into the region of a known finding).
    -> None | {"offset", "buffer", "reaction", "wanted", "midline"}"""
    segs = [(expectation(pc.kind, st, tx), tx.replace(b"\r", b"")) for st, tx in ideal_segments]
    stream = b""
    ends = []
    for _, tx in segs:
        stream += tx
        ends.append(len(stream))
    a, i = 0, 0
    for b in cuts:
        if i >= len(segs) or b > ends[i]:
            break       # beyond what the server has printed for a correct client: the runs have parted
        r = pc.react(stream[a:b].lower())
        if r is None:
            continue
        if r == segs[i][0]:
            if r in ("user", "pass", "phrase"):
                a = b
                i += 1
                continue
            return None          # shell prompt / fatal message: the login is over
        nxt = stream[b:b + 1]
        return {"offset": b, "buffer": stream[a:b], "reaction": r, "wanted": segs[i][0],
                "midline": nxt not in (b"", b"\n")}
    return None


def safety_oracle(kind, result, creds, pc, states=True):
    """the device-side reading of the property: each credential is typed only in its own state, at most
    twice, nothing is typed into the shell (states=True: the server log; not meaningful once bare returns
    have made the server print prompts twice); and on ANY run, from the history: a credential is written
    only when its pattern matches what was read since the previous credential write, at most twice, and is
    followed by a return.  Returns a list of failure strings."""
    bad = []
    own = {"login": creds["user"], "password": creds["pass"], "passphrase": creds["phrase"]}
    if not states:
        own = {}
        result = dict(result)
        result["log"] = []
    counts = {}
    for (state, line, delivered) in result["log"]:
        if line == b"":
            continue        # a bare return (kick / connection-error branch), judged separately
        if state in own:
            if line != own[state]:
                bad.append("typed %r in state %s" % (line, state))
            counts[state] = counts.get(state, 0) + 1
            if counts[state] > 2:
                bad.append("credential of state %s submitted %d times" % (state, counts[state]))
        else:
            bad.append("typed %r in state %s" % (line, state))
    # never before its prompt: the history itself must show the pattern of each credential on what
    # was read since the previous credential write
    since = b""
    pat = dict(pc.pats)
    names = {creds["user"]: "user", creds["pass"]: "pass", creds["phrase"]: "phrase"}
    hist = result["hist"]
    n_written = {}
    for i, h in enumerate(hist):
        if h[0] == "r":
            since += h[1].lower()
        elif h[0] == "w" and h[1] in names:
            c = names[h[1]]
            n_written[c] = n_written.get(c, 0) + 1
            if c not in pat:
                bad.append("credential %s written by the %s login" % (c, kind))
            elif not re.search(pat[c], since):
                bad.append("credential %s written without its prompt in %r" % (c, since[-40:]))
            if n_written[c] > 2:
                bad.append("credential %s written %d times" % (c, n_written[c]))
            if i + 1 >= len(hist) or hist[i + 1][0] != "w":
                bad.append("credential %s not followed by a return" % c)
            since = b""
    return bad


def own_prompt_oracle(result, creds):
    """the device-side reading of "each credential is written only in response to its own prompt" for ANY configured
    credentials (empty ones included): a prompt state only ever receives ITS credential or an empty line, each prompt
    at most twice its credential, and nothing but empty lines is typed into the shell / after the hang-up"""
    own = {"login": creds["user"], "password": creds["pass"], "passphrase": creds["phrase"]}
    what = {creds["user"]: "the user name", creds["pass"]: "the password", creds["phrase"]: "the key passphrase"}
    bad, counts = [], {}
    for (state, line, _) in result["log"]:
        if line == b"":
            continue
        if own.get(state) != line:
            bad.append("%s (%r) typed at the %s prompt" % (what.get(line, "something else"), line, state))
        else:
            counts[state] = counts.get(state, 0) + 1
            if counts[state] == 3:
                bad.append("credential of state %s submitted a third time" % state)
    return bad


def own_bytes_oracle(result, creds, states=True):
    """byte-level device-side reading of "each credential is written in response to its own prompt" for ANY configured
    VALUES (blanks, tabs, empty, long, non-ASCII, a trailing newline ...): every write call the device receives is either
    the return character or, byte for byte, the configured credential (UTF-8, what Channel.write documents: the string,
    encoded) of the prompt state the device is waiting in, each at most twice and each followed by a return; and what the
    device has received while it waited in a prompt state is that credential and ONE return -- not a trimmed, escaped,
    re-encoded or repeated variant of it.  `creds` = what the USER configured.  states=False (runs in which bare returns
    of the telnet kick have raced with the device's prompts, so that client and device may legitimately disagree about the
    state): every write is the return or, byte for byte, ONE of the configured values, followed by a return."""
    own = {"login": creds["user"], "password": creds["pass"], "passphrase": creds["phrase"]}

    def sh(b):
        return repr(b) if len(b) <= 48 else "%r...(%d bytes)" % (b[:32], len(b))

    bad, counts = [], {}
    wl = result["wlog"]
    for i, (state, b) in enumerate(wl):
        if b == b"\n":
            continue
        if not states:
            if b not in own.values():
                bad.append("the device received %s, which is none of the configured values" % sh(b))
            elif i + 1 >= len(wl) or wl[i + 1][1] != b"\n":
                bad.append("credential %s not followed by a return" % sh(b))
            continue
        if state not in own:
            bad.append("%s written while the device is in state %s" % (sh(b), state))
            continue
        if b != own[state]:
            bad.append("the device received %s at the %s prompt, the configured value is %s" % (sh(b), state, sh(own[state])))
            continue
        counts[state] = counts.get(state, 0) + 1
        if counts[state] == 3:
            bad.append("credential of state %s submitted a third time" % state)
        if i + 1 >= len(wl) or wl[i + 1][1] != b"\n":
            bad.append("credential of state %s not followed by a return" % state)
    for state, got in result["raw"] if states else []:
        if state in own and b"\n" not in own[state] and got not in (b"", b"\n", own[state] + b"\n"):
            msg = "bytes received in state %s: %s, wanted %s" % (state, sh(got), sh(own[state] + b"\n"))
            if msg not in bad:
                bad.append(msg)
    return bad


def bare_returns(result, creds):
    names = (creds["user"], creds["pass"], creds["phrase"])
    hist = result["hist"]
    n = 0
    for i, h in enumerate(hist):
        if h[0] == "w" and h[1] not in names:
            if i > 0 and hist[i - 1][0] == "w" and hist[i - 1][1] in names:
                continue
            n += 1
    return n
