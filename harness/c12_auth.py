"""C12 helper — the LIBRARY authentication of the paramiko / asyncssh transports: the plugin's REAL `open()` runs
(socket, handshake, key / password authentication, channel + pty + shell), against

  endpoint "fake"      fakes of the library objects the plugin talks to (paramiko: Socket / Transport / RSAKey of the
                       plugin module; asyncssh: `connect` of the plugin module), patched on the plugin MODULE for the
                       duration of one scenario and restored afterwards; an accepted authentication hands out the same
                       fake channel as harness/c12_rt.py (Pipe in front of a SimDevice), so the dialogue goes on;
  endpoint "loopback"  the real paramiko / asyncssh client libraries against in-process asyncssh servers on 127.0.0.1
                       (event loop thread of harness/c10_loopback.py) that accept / reject / drop per method.

What the server side decides is the scenario's `libauth` dict:
  key       None (no key configured) | "reject" | "accept" | "unreadable" (fake only: the key file cannot be loaded) | "drop"
  password  "reject" | "accept" | "drop"            (reached when no key is configured or the key did not authenticate)
  channel   "ok" | "drop"                           (fake only: the session dies when the shell channel is opened)
  drop_exc  which exception the library raises when the connection drops (fake only)
Every credential that reaches the server side is recorded in ctx.offered (so a scenario can tell that the secret really
crossed).  No source hooks, no sleeps; nothing here looks at what scrapli logs or raises."""
import asyncio
import errno
import os

from .c12_rt import APipe, Pipe, TRANSPORTS
from .simdevice import driver_class

# what the library raises when the connection drops in the middle of the authentication
PARAMIKO_DROPS = ["EOF", "no-session", "ECONNRESET", "EPIPE"]
ASYNCSSH_DROPS = ["ConnectionLost", "DisconnectError", "ECONNRESET", "TimeoutError"]
KEY_OUTCOMES = [None, "reject", "accept", "unreadable", "drop"]
PW_OUTCOMES = ["reject", "accept", "drop"]


class _Chan(Pipe):
    """paramiko Channel surface on top of the fake endpoint"""
    eof_received = False

    @property
    def closed(self):
        return self.closed_

    def get_pty(self, *a, **kw):
        return None

    def invoke_shell(self):
        return None


class _AConn(APipe):
    """asyncssh SSHClientConnection + reader / writer surface on top of the fake endpoint"""
    channel = "ok"

    async def open_session(self, *a, **kw):
        if self.channel == "drop":
            from asyncssh.misc import ChannelOpenError
            raise ChannelOpenError(2, "Connection closed")
        return self, self, None

    def get_server_host_key(self):
        return None

    async def wait_closed(self):
        return None


class Ctx:
    def __init__(self):
        self.offered = []
        self.undo = []
        self.driver = None
        self.endpoint = None

    def cleanup(self, runner):
        """restore the plugin modules; close what a failed open() leaves behind (library session, socket, threads)"""
        for (mod, name, old) in reversed(self.undo):
            setattr(mod, name, old)
        self.undo = []
        d = self.driver
        if d is None or self.endpoint != "loopback":
            return
        t = d.transport
        sess, sock = getattr(t, "session", None), getattr(t, "socket", None)
        if asyncio.iscoroutinefunction(getattr(t, "open", None)) or hasattr(sess, "wait_closed"):
            async def fin():
                try:
                    sess.close()
                    await asyncio.wait_for(sess.wait_closed(), 5)
                except Exception:  # noqa
                    pass
            if sess is not None and runner is not None and getattr(runner, "loop", None) is not None:
                runner.loop.run_until_complete(fin())
        else:
            for x in (sess, sock):
                try:
                    if x is not None:
                        x.close()
                except Exception:  # noqa
                    pass


def _patch(ctx, mod, name, new):
    if not hasattr(mod, name):
        raise ValueError("c12_auth: %s has no attribute %r any more (the plugin talks to its library differently)" % (mod.__name__, name))
    ctx.undo.append((mod, name, getattr(mod, name)))
    setattr(mod, name, new)


def _drop_exc(kind):
    if kind == "EOF":
        return EOFError()
    if kind == "no-session":
        from paramiko.ssh_exception import SSHException
        return SSHException("No existing session")
    if kind == "ECONNRESET":
        return ConnectionResetError(errno.ECONNRESET, "Connection reset by peer")
    if kind == "EPIPE":
        return BrokenPipeError(errno.EPIPE, "Broken pipe")
    if kind == "ConnectionLost":
        from asyncssh.misc import ConnectionLost
        return ConnectionLost("Connection lost")
    if kind == "DisconnectError":
        from asyncssh.misc import DisconnectError
        return DisconnectError(2, "Too many authentication failures")
    if kind == "TimeoutError":
        return asyncio.TimeoutError()
    raise ValueError("c12_auth: unknown drop %r" % (kind,))


def _fake_paramiko(ctx, spec, chan):
    import scrapli.transport.plugins.paramiko.transport as mod
    from paramiko.ssh_exception import AuthenticationException, PasswordRequiredException, SSHException

    class FakeSocket:
        def __init__(self, host, port, timeout):
            self.sock = self
            self._alive = False

        def isalive(self):
            return self._alive

        def open(self):
            self._alive = True

        def close(self):
            self._alive = False

    class FakeSession:
        def __init__(self, sock):
            self.disabled_algorithms = {}
            self.auth = False
            self.alive = True

        def start_client(self, *a, **kw):
            return None

        def get_remote_server_key(self):
            raise SSHException("No existing session")

        def _dead(self):
            self.alive = False
            chan.closed_ = True
            return _drop_exc(spec.get("drop_exc", "EOF"))

        def auth_publickey(self, username, key):
            ctx.offered.append(("publickey", username))
            if spec.get("key") == "accept":
                self.auth = True
                return []
            if spec.get("key") == "drop":
                raise self._dead()
            raise AuthenticationException("Authentication failed.")

        def auth_password(self, username, password):
            if not self.alive:
                raise SSHException("No existing session")
            ctx.offered.append(("password", username, password))
            if spec["password"] == "accept":
                self.auth = True
                return []
            if spec["password"] == "drop":
                raise self._dead()
            raise AuthenticationException("Authentication failed.")

        def is_authenticated(self):
            return self.auth

        def open_session(self, *a, **kw):
            if spec.get("channel") == "drop":
                raise self._dead()
            return chan

        def is_alive(self):
            return self.alive and not chan.closed_

        def close(self):
            self.alive = False

    def fake_key(filename=None, **kw):
        if spec.get("key") == "unreadable":
            raise PasswordRequiredException("Private key file is encrypted")
        return ("key", filename)

    _patch(ctx, mod, "Socket", FakeSocket)
    _patch(ctx, mod, "_ParamikoTransport", FakeSession)
    _patch(ctx, mod, "RSAKey", fake_key)


def _fake_asyncssh(ctx, spec, conn):
    import scrapli.transport.plugins.asyncssh.transport as mod
    from asyncssh.misc import PermissionDenied

    conn.channel = spec.get("channel", "ok")

    async def fake_connect(**kw):
        keyfile = kw.get("client_keys")
        ctx.offered.append(("connect", kw.get("username"), kw.get("password"), keyfile))
        # preferred_auth: publickey first, the password when the key did not do it
        if keyfile and spec.get("key") in ("accept",):
            return conn
        if keyfile and spec.get("key") == "drop":
            raise _drop_exc(spec.get("drop_exc", "ConnectionLost"))
        if keyfile and spec.get("key") == "unreadable":
            from asyncssh import KeyImportError
            raise KeyImportError("Passphrase must be specified to import encrypted private keys")
        if spec["password"] == "accept" and kw.get("password"):
            return conn
        if spec["password"] == "drop":
            raise _drop_exc(spec.get("drop_exc", "ConnectionLost"))
        raise PermissionDenied("Permission denied for user %s on host %s" % (kw.get("username"), kw.get("host")))

    _patch(ctx, mod, "connect", fake_connect)


# ------------------------------------------------------------------------------------------------
# loopback servers (real libraries on both sides)
# ------------------------------------------------------------------------------------------------
_ENV = {}


def _env(workdir):
    """one background loop + lazily created listeners per (key policy, password policy); one RSA client key file"""
    if "L" not in _ENV:
        import asyncssh
        from . import c10_loopback as lb
        _ENV["L"] = lb.Loopback()
        _ENV["hostkey"] = lb.gen_key("ssh-ed25519")
        _ENV["servers"] = {}
        os.makedirs(workdir, exist_ok=True)
        path = os.path.join(workdir, "c12_client_rsa.pem")
        asyncssh.generate_private_key("ssh-rsa", key_size=2048).write_private_key(path, "pkcs1-pem")
        os.chmod(path, 0o600)
        _ENV["client_key"] = path
        # the paramiko library reports the sockets scrapli closes under its reader thread on its own logger: keep
        # that off stderr (logging.lastResort); the property is about the 'scrapli' logger tree
        import logging
        _ENV["null"] = logging.NullHandler()
        logging.getLogger("paramiko").addHandler(_ENV["null"])
    return _ENV


def close_env():
    if "L" in _ENV:
        try:
            import logging
            logging.getLogger("paramiko").removeHandler(_ENV.get("null"))
            _ENV["L"].close()
        finally:
            _ENV.clear()


def _listen(env, keyp, pwp):
    import asyncssh
    from . import c10_loopback as lb
    if (keyp, pwp) in env["servers"]:
        return env["servers"][(keyp, pwp)]
    log = []

    class Server(asyncssh.SSHServer):
        def connection_made(self, conn):
            self._conn = conn

        def begin_auth(self, username):
            return True

        def password_auth_supported(self):
            return True

        def public_key_auth_supported(self):
            return True

        def kbdint_auth_supported(self):
            return False

        def _decide(self, pol):
            if pol == "drop":
                self._conn.abort()
                return False
            return pol == "accept"

        def validate_password(self, username, password):
            log.append(("password", username, password))
            return self._decide(pwp)

        def validate_public_key(self, username, key):
            log.append(("publickey", username))
            return self._decide(keyp or "reject")

    async def go():
        return await asyncssh.listen("127.0.0.1", 0, server_factory=Server, server_host_keys=[env["hostkey"]],
                                     process_factory=lb._process, encoding="utf-8",
                                     signature_algs=["ssh-ed25519", "rsa-sha2-256", "rsa-sha2-512", "ssh-rsa"])

    srv = env["L"].call(go())
    env["L"].servers.append(srv)
    env["servers"][(keyp, pwp)] = (srv.sockets[0].getsockname()[1], log)
    return env["servers"][(keyp, pwp)]


# ------------------------------------------------------------------------------------------------
def make_auth_driver(sc, device, workdir, **kw):
    """(driver, ctx): real scrapli driver of sc["kind"] on the REAL plugin sc["transport"] whose real open() will run"""
    from copy import deepcopy
    tname, spec, kind = sc["transport"], sc["libauth"], sc["kind"]
    if tname not in ("paramiko", "asyncssh"):
        raise ValueError("c12_auth: no library authentication in transport %r" % (tname,))
    if spec.get("key") not in KEY_OUTCOMES or spec.get("password") not in PW_OUTCOMES:
        raise ValueError("c12_auth: bad outcome spec %r" % (spec,))
    stack = TRANSPORTS[tname][0]
    ctx = Ctx()
    ctx.endpoint = spec["endpoint"]
    args = dict(host="sim", transport=tname, auth_strict_key=False, timeout_ops=0, timeout_transport=0, timeout_socket=10,
                ssh_config_file=False)
    if kind == "network":
        from scrapli.driver.core.cisco_iosxe.base_driver import PRIVS
        args.update(privilege_levels=deepcopy(PRIVS), default_desired_privilege_level="privilege_exec")
    args.update(kw)
    if spec["endpoint"] == "loopback":
        env = _env(workdir)
        port, log = _listen(env, spec.get("key"), spec["password"])
        del log[:]
        ctx.offered = log
        args.update(host="127.0.0.1", port=port, timeout_transport=10)
        if spec.get("key"):
            args["auth_private_key"] = env["client_key"]
    elif spec["endpoint"] == "fake":
        if spec.get("key"):
            # BaseDriver checks that the key file exists
            os.makedirs(workdir, exist_ok=True)
            path = os.path.join(workdir, "c12_fake_key")
            if not os.path.exists(path):
                open(path, "w").write("not a key: the fake key loader never reads it\n")
            args["auth_private_key"] = path
    else:
        raise ValueError("c12_auth: unknown endpoint %r" % (spec["endpoint"],))
    d = driver_class(kind, stack)(**args)
    if type(d.transport).__module__.split(".")[-2] != tname:
        raise ValueError("driver did not pick the %s transport plugin: %r" % (tname, type(d.transport)))
    ctx.driver = d
    if spec["endpoint"] == "fake":
        policy, fault = tuple(sc.get("policy", ["whole"])), sc.get("fault")
        if tname == "paramiko":
            pipe = _Chan(device, policy, fault)
            _fake_paramiko(ctx, spec, pipe)
        else:
            pipe = _AConn(device, policy, fault)
            _fake_asyncssh(ctx, spec, pipe)
        d._c12_pipe = pipe
    return d, ctx
