"""C08 worker process: runs scenarios of harness/c08_impl.py one after the other and reports each result as
one JSON line.  The parent (harness/c08.py) watches the pipe: a scenario that does not report within its
wall-clock allowance is a hang of the real code (asyncio loops that never await cannot be cancelled from
inside), the worker is killed and restarted after it.

usage: python -m harness.c08_worker <cases.json>      (prints START i / DONE i <json> lines)"""
import json
import sys
import traceback


def main():
    from . import common
    common.setup_env()
    from . import c08_impl
    c08_impl.warm_up()
    print("READY", flush=True)
    cases = json.load(open(sys.argv[1]))
    start = int(sys.argv[2]) if len(sys.argv) > 2 else 0
    for i in range(start, len(cases)):
        print("START %d" % i, flush=True)
        try:
            r = c08_impl.run_case(cases[i])
        except BaseException as e:  # noqa  the machinery failed: say so, the parent fails closed
            r = {"harness_error": "%s: %s" % (type(e).__name__, e), "tb": traceback.format_exc()[-1500:]}
        print("DONE %d %s" % (i, json.dumps(r, default=repr)), flush=True)


if __name__ == "__main__":
    main()
