"""C07 — implementation side: the REAL timeout decorator, real Channel / AsyncChannel operations and the
real transports' read() methods, driven over scripted transports that go silent where the case says.

A case is a JSON-able dict (see harness/c07.py: the generators).  run_case(case) returns the canonical
observation: outcome class / message / value, elapsed wall-clock, hang flag, and the process-wide state
afterwards (SIGALRM handler, ITIMER_REAL, leftover threads, channel lock, transport.isalive()); asyncio
cases also: asyncio.all_tasks() minus the tasks that existed before (at return and one loop iteration later),
scripted reads still blocked at return, and - `follow` given, ScrapliTimeout, connection still open - the
outcome of a following operation with the attribution of every device byte to the read that took it.

Stalls block on a threading.Event / asyncio.Event owned by the harness; a watchdog owned by the
harness releases them (`hang` = the watchdog had to), and everything is released and joined at the
end of the case, so no thread outlives a case."""
import asyncio
import signal
import threading
import time

PROMPT_PATTERN = r"^[a-z0-9.\-@()/:]{1,32}[#>$]\s?$"


class HarnessReleased(Exception):
    """the harness released a stalled scripted read (end of case / watchdog)"""


class Boom(Exception):
    """exception number e raised by a scripted step"""


# --------------------------------------------------------------------------------------------
# scripts
# --------------------------------------------------------------------------------------------
class _Ctl:
    """one case's script: steps consumed by successive reads; a stall step is never consumed"""

    def __init__(self, steps):
        self.steps = [tuple(s) for s in steps]
        self.ix = 0
        self.guard = threading.Lock()
        self.released = threading.Event()   # harness: end every stall
        self.wake = threading.Event()       # released or transport closed
        self.by_watchdog = False
        self.stall_entered = threading.Event()
        self.reads = 0
        self.writes = []
        self.caller_ident = None            # thread that called the decorated function
        self.mech_seen = None               # what protected the first scripted read: signal | thread | none
        self.eof_seen = False               # the device ended its side of the session (every read: EOF), socket still open
        self.res = None                     # the fake socket / stream / pty under a REAL transport (has .closed)

    def note_mechanism(self):
        """which mechanism is in force while the wrapped call runs (observed from inside the call)"""
        if self.mech_seen is not None or self.caller_ident is None:
            return
        import functools
        h = signal.getsignal(signal.SIGALRM)
        if isinstance(h, functools.partial) and getattr(h.func, "__name__", "") == "_signal_raise_exception":
            self.mech_seen = "signal"
        elif threading.get_ident() != self.caller_ident:
            self.mech_seen = "thread"
        else:
            self.mech_seen = "none"

    def next(self):
        with self.guard:
            self.reads += 1
            if self.ix >= len(self.steps):
                return ("stall",)           # script exhausted: the device stays silent
            st = self.steps[self.ix]
            if st[0] == "eof":
                self.eof_seen = True        # half-closed by the peer: stays at EOF, nothing closes the socket
            if st[0] not in ("stall", "stall_closed", "eof"):
                self.ix += 1
            return st

    def release(self, watchdog=False):
        if watchdog and not self.released.is_set():
            self.by_watchdog = True
        self.released.set()
        self.wake.set()

    def hard_release(self):
        """from a harness thread: ends a call that no longer gives the event loop a turn (every scripted read, also a
        read at EOF, first looks at `released`)"""
        if not self.released.is_set():
            self.by_watchdog = True
        self.released.set()
        self.wake.set()


def _note_write(ctl, b):
    """what the device is sent; a call that goes on writing without reading any more (a login answering an EOF it
    remembers with one return after the other) is ended here once the harness has released the case"""
    if ctl.released.is_set():
        raise HarnessReleased()
    ctl.writes.append(bytes(b))


def _sync_step(ctl, is_open):
    """blocking behaviour of one scripted read; is_open() tells whether the transport is open"""
    from scrapli.exceptions import ScrapliConnectionError

    if ctl.released.is_set():
        raise HarnessReleased()
    ctl.note_mechanism()
    st = ctl.next()
    k = st[0]
    if k == "data":
        return bytes.fromhex(st[1])
    if k == "eof":                         # the peer ended the session: at once, every time
        raise ScrapliConnectionError("scripted device ended the session (EOF)")
    if k == "ddata":                       # data that arrives after st[1] seconds
        ctl.released.wait(st[1])
        if ctl.released.is_set():
            raise HarnessReleased()
        return bytes.fromhex(st[2])
    if k == "ret":
        if st[1]:
            ctl.released.wait(st[1])
        return st[2]
    if k == "exc":
        if st[1]:
            ctl.released.wait(st[1])
        raise Boom(st[2])
    ctl.stall_entered.set()
    if k == "stall":
        ctl.released.wait()
        raise HarnessReleased()
    # stall_closed
    ctl.wake.wait()
    if ctl.released.is_set() and is_open():
        raise HarnessReleased()
    raise ScrapliConnectionError("scripted transport closed while reading")


class _ACtl(_Ctl):
    """asyncio flavour.  Besides the script it keeps what the property's asyncio observers need:
    reads issued / ended (a read that is still blocked when the exception surfaces is `in flight`), and for every
    chunk handed out the epoch in which the read that took it was ISSUED.  Epoch 0 is the operation under test;
    begin_follow() starts epoch 1: the device stays silent until the following operation is waiting for it, then
    answers with the follow-up stream (a read left over from epoch 0 that takes part of it has swallowed it)."""

    def __init__(self, steps):
        super().__init__(steps)
        self.loop = None
        self.a_released = None
        self.a_stall = None                 # wakes a "stall" read: harness release, or the device talks again
        self.a_wake = None                  # wakes a "stall_closed" read: the above, or the transport was closed
        self.epoch = 0
        self.in_flight = 0
        self.delivered = []                 # (epoch in which the read was issued, epoch of delivery, hex, script index)
        self.pending_follow = None
        self.follow_from = None             # script index of the first chunk of the follow-up answer

    def bind(self, loop):
        self.loop = loop
        self.a_released = asyncio.Event()
        self.a_stall = asyncio.Event()
        self.a_wake = asyncio.Event()

    def release(self, watchdog=False):
        super().release(watchdog)
        self.a_released.set()
        self.a_stall.set()
        self.a_wake.set()

    def closed(self):
        self.a_wake.set()

    def begin_follow(self, steps):
        self.epoch += 1
        self.pending_follow = [tuple(s) for s in steps]

    def reader_waiting(self):
        """a read blocks on the silent device; once the following operation is the one waiting, the device answers"""
        if self.pending_follow is not None and self.epoch > 0:
            steps, self.pending_follow = self.pending_follow, None
            self.loop.call_soon(self._device_answers, steps)

    def _device_answers(self, steps):
        with self.guard:
            self.steps = self.steps[:self.ix] + list(steps)      # the stall it was sitting on is over
            self.follow_from = self.ix
        old_stall, old_wake = self.a_stall, self.a_wake
        self.a_stall, self.a_wake = asyncio.Event(), asyncio.Event()
        old_stall.set()                    # waiters are woken in the order in which they started to wait
        old_wake.set()


async def _async_step(ctl, is_open):
    issued = ctl.epoch
    ctl.in_flight += 1
    try:
        return await _async_step_inner(ctl, is_open, issued)
    finally:
        ctl.in_flight -= 1


async def _async_step_inner(ctl, is_open, issued):
    from scrapli.exceptions import ScrapliConnectionError

    while True:
        if ctl.released.is_set():
            raise HarnessReleased()
        st = ctl.next()
        k = st[0]
        if k == "data":
            ctl.delivered.append((issued, ctl.epoch, st[1], ctl.ix - 1))
            return bytes.fromhex(st[1])
        if k == "eof":                       # (a stream at EOF answers without giving the loop a turn)
            raise ScrapliConnectionError("scripted device ended the session (EOF)")
        if k in ("ret", "exc", "ddata"):
            if st[1]:
                try:
                    await asyncio.wait_for(ctl.a_released.wait(), st[1])
                except asyncio.TimeoutError:
                    pass
            if k == "ret":
                return st[2]
            if k == "ddata":
                if ctl.released.is_set():
                    raise HarnessReleased()
                ctl.delivered.append((issued, ctl.epoch, st[2], ctl.ix - 1))
                return bytes.fromhex(st[2])
            raise Boom(st[2])
        ctl.stall_entered.set()
        talked = ctl.a_stall                 # replaced (and set) when the device talks again
        ctl.reader_waiting()
        if k == "stall":
            await talked.wait()
            if ctl.released.is_set():
                raise HarnessReleased()
            continue                         # the device talks again: take what it says
        woke = ctl.a_wake
        await woke.wait()
        if ctl.released.is_set() and is_open():
            raise HarnessReleased()
        if not is_open():
            raise ScrapliConnectionError("scripted transport closed while reading")
        # still open and not released: the device talks again, take what it says


# --------------------------------------------------------------------------------------------
# scripted transports (subclasses of scrapli's abstract Transport / AsyncTransport)
# --------------------------------------------------------------------------------------------
_CLS_CACHE = {}


def sync_transport_class(name, wrapped):
    key = ("s", name, wrapped)
    if key in _CLS_CACHE:
        return _CLS_CACHE[key]
    from scrapli.decorators import timeout_wrapper
    from scrapli.exceptions import ScrapliConnectionNotOpened
    from scrapli.transport.base import Transport

    def __init__(self, bta, ctl):
        Transport.__init__(self, bta)
        self.ctl = ctl
        self._is_open = True

    def open(self):
        self._is_open = True

    def close(self):
        self._is_open = False
        self.ctl.wake.set()

    def isalive(self):
        # like the telnet / ssh transports: not alive once the device ended the session, whatever is still open here
        return self._is_open and not self.ctl.eof_seen

    def write(self, channel_input):
        if not self._is_open:
            raise ScrapliConnectionNotOpened
        _note_write(self.ctl, channel_input)

    def step(self):
        if not self._is_open:
            raise ScrapliConnectionNotOpened
        return _sync_step(self.ctl, lambda: self._is_open)

    def read(self):
        return self.step()

    ns = dict(__init__=__init__, open=open, close=close, isalive=isalive, write=write, step=step,
              read=timeout_wrapper(read) if wrapped else read)
    cls = type(name, (Transport,), ns)
    _CLS_CACHE[key] = cls
    return cls


def async_transport_class(name, wrapped):
    key = ("a", name, wrapped)
    if key in _CLS_CACHE:
        return _CLS_CACHE[key]
    from scrapli.decorators import timeout_wrapper
    from scrapli.exceptions import ScrapliConnectionNotOpened
    from scrapli.transport.base import AsyncTransport

    def __init__(self, bta, ctl):
        AsyncTransport.__init__(self, bta)
        self.ctl = ctl
        self._is_open = True

    async def open(self):
        self._is_open = True

    def close(self):
        self._is_open = False
        self.ctl.closed()

    def isalive(self):
        return self._is_open and not self.ctl.eof_seen

    def write(self, channel_input):
        if not self._is_open:
            raise ScrapliConnectionNotOpened
        _note_write(self.ctl, channel_input)

    async def step(self):
        if not self._is_open:
            raise ScrapliConnectionNotOpened
        return await _async_step(self.ctl, lambda: self._is_open)

    async def read(self):
        return await self.step()

    ns = dict(__init__=__init__, open=open, close=close, isalive=isalive, write=write, step=step,
              read=timeout_wrapper(read) if wrapped else read)
    cls = type(name, (AsyncTransport,), ns)
    _CLS_CACHE[key] = cls
    return cls


LEAF_NAMES = ["get_prompt", "send_input", "send_input_and_read", "send_inputs_interact",
              "channel_authenticate_ssh", "channel_authenticate_telnet", "frobnicate"]


def sync_channel_class():
    if "sc" in _CLS_CACHE:
        return _CLS_CACHE["sc"]
    from scrapli.channel.sync_channel import Channel
    from scrapli.decorators import timeout_wrapper

    ns = {}
    for nm in LEAF_NAMES:
        def f(self):
            with self._channel_lock():
                return self.transport.step()
        f.__name__ = nm
        f.__qualname__ = "LeafChannel." + nm
        ns["leaf_" + nm] = timeout_wrapper(f)
    cls = type("LeafChannel", (Channel,), ns)
    _CLS_CACHE["sc"] = cls
    return cls


def async_channel_class():
    if "ac" in _CLS_CACHE:
        return _CLS_CACHE["ac"]
    from scrapli.channel.async_channel import AsyncChannel
    from scrapli.decorators import timeout_wrapper

    ns = {}
    for nm in LEAF_NAMES:
        async def f(self):
            async with self._channel_lock():
                return await self.transport.step()
        f.__name__ = nm
        f.__qualname__ = "LeafAsyncChannel." + nm
        ns["leaf_" + nm] = timeout_wrapper(f)
    cls = type("LeafAsyncChannel", (AsyncChannel,), ns)
    _CLS_CACHE["ac"] = cls
    return cls


# --------------------------------------------------------------------------------------------
# fakes under the REAL transports' read()
# --------------------------------------------------------------------------------------------
class _FakeSession:          # under SystemTransport (PtyProcess interface used by the transport)
    def __init__(self, ctl):
        self.ctl = ctl
        self.closed = False

    def read(self, n):
        from scrapli.exceptions import ScrapliConnectionError
        try:
            return _sync_step(self.ctl, lambda: not self.closed)
        except ScrapliConnectionError:
            raise EOFError("scripted pty closed")

    def write(self, b):
        _note_write(self.ctl, b)

    def close(self):
        self.closed = True
        self.ctl.wake.set()

    def isalive(self):
        return not self.closed

    def eof(self):
        return self.closed


class _FakeSock:             # under TelnetTransport
    def __init__(self, ctl):
        self.ctl = ctl
        self.closed = False

    def recv(self, n):
        from scrapli.exceptions import ScrapliConnectionError
        try:
            return _sync_step(self.ctl, lambda: not self.closed)
        except ScrapliConnectionError:
            return b""

    def send(self, b):
        _note_write(self.ctl, b)
        return len(b)

    def settimeout(self, t):
        pass


class _FakeSocket:
    def __init__(self, ctl):
        self.sock = _FakeSock(ctl)

    def isalive(self):
        return not self.sock.closed

    def close(self):
        self.sock.closed = True
        self.sock.ctl.wake.set()

    def __bool__(self):
        return True


class _FakeReader:           # under AsynctelnetTransport / AsyncsshTransport (stdout)
    def __init__(self, ctl):
        self.ctl = ctl
        self.closed = False

    async def read(self, n):
        from scrapli.exceptions import ScrapliConnectionError
        try:
            return await _async_step(self.ctl, lambda: not self.closed)
        except ScrapliConnectionError:
            return b""

    def at_eof(self):
        return self.ctl.eof_seen


class _FakeWriter:
    def __init__(self, ctl, reader):
        self.ctl, self.reader = ctl, reader

    def write(self, b):
        _note_write(self.ctl, b)

    def close(self):
        self.reader.closed = True
        self.ctl.closed()


class _FakeSshTransport:
    def __init__(self):
        self.closing = False

    def is_closing(self):
        return self.closing


class _FakeSshConn:
    def __init__(self, ctl, reader):
        self.ctl, self.reader = ctl, reader
        self._auth_complete = True
        self._transport = _FakeSshTransport()

    def close(self):
        self._transport.closing = True
        self.reader.closed = True
        self.ctl.closed()


def _bta(case):
    from scrapli.transport.base.base_transport import BaseTransportArgs
    return BaseTransportArgs(transport_options={}, host="h", port=23, timeout_socket=5,
                             timeout_transport=case["t_tr"])


def build_real_transport(case, ctl):
    kind = case["real"]
    bta = _bta(case)
    if kind == "system":
        from scrapli.transport.plugins.system.transport import PluginTransportArgs, SystemTransport
        t = SystemTransport(bta, PluginTransportArgs(auth_username="u"))
        t.session = ctl.res = _FakeSession(ctl)
    elif kind == "telnet":
        from scrapli.transport.plugins.telnet.transport import PluginTransportArgs, TelnetTransport
        t = TelnetTransport(bta, PluginTransportArgs())
        t.socket = _FakeSocket(ctl)
        ctl.res = t.socket.sock
    elif kind == "asynctelnet":
        from scrapli.transport.plugins.asynctelnet.transport import AsynctelnetTransport, PluginTransportArgs
        t = AsynctelnetTransport(bta, PluginTransportArgs())
        t.stdout = ctl.res = _FakeReader(ctl)
        t.stdin = _FakeWriter(ctl, t.stdout)
    elif kind == "asyncssh":
        from scrapli.transport.plugins.asyncssh.transport import AsyncsshTransport, PluginTransportArgs
        t = AsyncsshTransport(bta, PluginTransportArgs(auth_username="u"))
        t.stdout = ctl.res = _FakeReader(ctl)
        t.stdin = _FakeWriter(ctl, t.stdout)
        t.session = _FakeSshConn(ctl, t.stdout)
    else:
        raise ValueError(kind)
    return t


# --------------------------------------------------------------------------------------------
# running one case
# --------------------------------------------------------------------------------------------
OPS = {
    "get_prompt": lambda ch: ch.get_prompt(),
    "send_input": lambda ch: ch.send_input("show version"),
    "send_inputs_interact": lambda ch: ch.send_inputs_interact(
        [("clear logging", "[confirm]", False), ("", "router#", False)]),
    "channel_authenticate_telnet": lambda ch: ch.channel_authenticate_telnet("user", "pw"),
    "channel_authenticate_ssh": lambda ch: ch.channel_authenticate_ssh("pw", "pp"),
}

# device output of each operation, as the list of chunks a complete run reads (one per read())
STREAMS = {
    "get_prompt": [b"\n", b"router#"],
    "send_input": [b"show ver", b"sion", b"\nCisco IOS XE Software\n", b"uptime is 1 week\n", b"router#"],
    "send_inputs_interact": [b"clear ", b"logging", b"\nClear logging buffer [confirm]", b"\n", b"router#"],
    "channel_authenticate_telnet": [b"\nUser Access Verification\n\nlogin: ", b"password: ", b"\nrouter#"],
    "channel_authenticate_ssh": [b"Warning: Permanently added 'h' to the list of known hosts.\n",
                                 b"user@h's password: ", b"\nrouter#"],
}
STALL_LABELS = {
    "get_prompt": ["before prompt", "before prompt (after newline)"],
    "send_input": ["before echo", "mid-echo", "mid-output (echo done)", "mid-output", "before prompt"],
    "send_inputs_interact": ["before echo", "mid-echo", "before interact prompt", "before echo of 2nd input", "before prompt"],
    "channel_authenticate_telnet": ["during auth (before login prompt)", "during auth (before password prompt)", "during auth (before prompt)"],
    "channel_authenticate_ssh": ["during auth (banner)", "during auth (before password prompt)", "during auth (before prompt)"],
}


def _canon_exc(e):
    name = type(e).__name__
    if name == "Boom":
        return {"kind": "exc", "cls": "Boom", "val": e.args[0]}
    if name == "ScrapliTimeout":
        return {"kind": "exc", "cls": name, "msg": str(e)}
    return {"kind": "exc", "cls": name}


def _canon_ret(v):
    if isinstance(v, int) and not isinstance(v, bool):
        return {"kind": "ret", "val": v}
    return {"kind": "ret"}


def _build(case, ctl):
    """-> (callable or coroutine factory, transport, channel or None)"""
    from scrapli.channel.base_channel import BaseChannelArgs

    is_async = case["stack"] == "async"
    level = case["level"]
    if level == "real":
        tr = build_real_transport(case, ctl)
        return (lambda: tr.read()), tr, None
    mk = async_transport_class if is_async else sync_transport_class
    if case.get("real"):                       # a channel operation over a REAL transport (its read() is decorated)
        tr = build_real_transport(case, ctl)
    else:
        tr = mk(case["cls"], case["wrapped"])(_bta(case), ctl)
    if level == "tleaf" and not case.get("prelude"):      # the transport's own decorated read()
        return (lambda: tr.read()), tr, None
    bca = BaseChannelArgs(comms_prompt_pattern=PROMPT_PATTERN, timeout_ops=case["t_ops"],
                          channel_lock=case["lock"])
    if level == "tleaf":                       # ... after sessions in which a real channel over it was used
        if is_async:
            from scrapli.channel.async_channel import AsyncChannel as _Ch
        else:
            from scrapli.channel.sync_channel import Channel as _Ch
        return (lambda: tr.read()), tr, _Ch(tr, bca)
    if level == "cleaf":                       # a decorated channel method whose body is one raw step
        ch = (async_channel_class() if is_async else sync_channel_class())(tr, bca)
        return (lambda: getattr(ch, "leaf_" + case["fname"])()), tr, ch
    if is_async:
        from scrapli.channel.async_channel import AsyncChannel
        ch = AsyncChannel(tr, bca)
    else:
        from scrapli.channel.sync_channel import Channel
        ch = Channel(tr, bca)
    return (lambda: OPS[case["op"]](ch)), tr, ch


# the operation that follows a timeout on a connection that was left open: (call, what the device answers)
FOLLOW_OPS = {
    "get_prompt": (lambda ch: ch.get_prompt(), [b"\nrouter#"]),
    "get_prompt-2": (lambda ch: ch.get_prompt(), [b"\n", b"router#"]),
    "send_input": (lambda ch: ch.send_input("show clock"), [b"show clock\n", b"12:00:01.001 UTC\n", b"router#"]),
}


def _canon_follow_ret(v):
    if isinstance(v, str):
        return {"kind": "ret", "text": v}
    if isinstance(v, tuple) and len(v) == 2 and isinstance(v[1], bytes):
        return {"kind": "ret", "text": v[1].decode("latin-1")}
    return _canon_ret(v)


def watchdog_after(case):
    """seconds after which the harness releases the stall (>= 1 s after any timeout that must fire)"""
    if case.get("watchdog") is not None:
        return case["watchdog"]
    ts = [t for t in (case["t_ops"], case["t_tr"]) if t]
    exp = case.get("expect_hang")
    if exp:
        return (max(ts) if ts else 0.0) + 0.35 if not case.get("long_watch") else max(ts) + 1.2
    return (max(ts) if ts else 0.0) + max(case.get("extra", 0.0), 0.0) + 1.6


def res_open(tr, ctl):
    """is what the transport holds (the scripted transport itself; the fake socket / stream / pty under a real transport)
    still open?  NOT isalive(): a transport whose peer ended the session reports not-alive with everything still open"""
    if hasattr(tr, "_is_open"):
        return bool(tr._is_open)
    return not ctl.res.closed


# --------------------------------------------------------------------------------------------
# prelude: sessions on the SAME transport + channel objects that end half-way through an operation (the device drops the
# session, the caller cancels the operation, its timeout fires), each followed by a re-open, before the call under test
# --------------------------------------------------------------------------------------------
PRELUDE_OPS = {
    "send_input_and_read": lambda ch, s: ch.send_input_and_read("show tech", expected_outputs=["never shown"],
                                                                read_duration=s["read_duration"]),
    "send_input": lambda ch, s: ch.send_input("show tech"),
    "get_prompt": lambda ch, s: ch.get_prompt(),
}
PRELUDE_STREAM = {"send_input_and_read": [b"show tech", b"\nsome output, no prompt yet\n", b"more\n"],
                  "send_input": [b"show tech", b"\nsome output, no prompt yet\n", b"more\n"],
                  "get_prompt": [b"\n", b"rout"]}


def prelude_steps(s):
    """the device's side of one prelude session: k chunks, then it drops the session (EOF) or goes silent"""
    steps = [("data", x.hex()) for x in PRELUDE_STREAM[s["op"]][:s["k"]]]
    return steps + [("eof",) if s["abort"] == "drop" else (s.get("stall", "stall_closed"),)]


def _limits_now(tr, ch):
    return [ch._base_channel_args.timeout_ops if ch is not None else None, tr._base_transport_args.timeout_transport]


def _attach_sync(case, tr, ctl):
    """(re-)open the SAME transport object on a new session of the device"""
    if case.get("real") == "telnet":
        if tr.socket:
            tr.close()
        tr.socket = _FakeSocket(ctl)           # (open() would dial; what open() resets besides is reset here)
        ctl.res = tr.socket.sock
        tr._eof, tr._raw_buf, tr._cooked_buf, tr._control_buf = False, b"", b"", b""
    elif case.get("real") == "system":
        tr.close()
        tr.session = ctl.res = _FakeSession(ctl)
    else:
        tr.ctl = ctl
        tr.open()


async def _attach_async(case, tr, ctl):
    kind = case.get("real")
    if kind == "asynctelnet":
        reader = ctl.res = _FakeReader(ctl)
        writer = _FakeWriter(ctl, reader)

        async def fake_open_connection(host=None, port=None, **kw):
            return reader, writer

        saved = asyncio.open_connection
        asyncio.open_connection = fake_open_connection
        try:
            await tr.open()                    # the REAL open(), only the dialling replaced
        finally:
            asyncio.open_connection = saved
    elif kind == "asyncssh":
        tr.close()
        tr.stdout = ctl.res = _FakeReader(ctl)
        tr.stdin = _FakeWriter(ctl, tr.stdout)
        tr.session = _FakeSshConn(ctl, tr.stdout)
    else:
        tr.ctl = ctl
        await tr.open()


def _prelude_entry(s, pctl, box, t0, tr, ch):
    return {"op": s["op"], "abort": s["abort"], "out": box.get("out"), "elapsed": round(time.monotonic() - t0, 3),
            "hang": bool(pctl.by_watchdog), "alive_after": bool(tr.isalive()), "limits_after": _limits_now(tr, ch)}


def _prelude_sync(case, tr, ch, ctl, threads_before):
    out = []
    for s in case["prelude"]:
        pctl = _Ctl(prelude_steps(s))
        _attach_sync(case, tr, pctl)
        box = {}

        def body(pctl=pctl, s=s, box=box):
            pctl.caller_ident = threading.get_ident()
            try:
                box["out"] = _canon_ret(PRELUDE_OPS[s["op"]](ch, s))
            except BaseException as e:  # noqa
                box["out"] = _canon_exc(e)

        wd = threading.Timer(2.5, lambda pctl=pctl: pctl.release(watchdog=True))
        wd.daemon = True
        wd.start()
        p0 = time.monotonic()
        if case.get("main_thread", True):
            body()
        else:
            th = threading.Thread(target=body, daemon=True)
            th.start()
            th.join()
        wd.cancel()
        wd.join()
        out.append(_prelude_entry(s, pctl, box, p0, tr, ch))
        pctl.released.set()
        pctl.wake.set()
        for x in [x for x in threading.enumerate() if x not in threads_before]:
            x.join(3)
        if s.get("reopen", True) and tr.isalive():
            tr.close()
    ctl.wake.clear()                           # (closing what was attached before this session is not this session's close)
    _attach_sync(case, tr, ctl)
    return out


async def _guarded(loop, coro, limit):
    """await coro, but not for ever: an operation that waits for something the device-side releases cannot provide (a lock
    nobody is going to release) is cancelled by the harness after `limit` real seconds and its outcome is that CancelledError —
    a check that never finishes decides nothing"""
    tk = loop.create_task(coro)
    h = loop.call_later(limit, tk.cancel)
    try:
        return await tk
    finally:
        h.cancel()


async def _prelude_async(case, tr, ch, ctl, loop):
    out = []
    for s in case["prelude"]:
        pctl = _ACtl(prelude_steps(s))
        pctl.bind(loop)
        await _attach_async(case, tr, pctl)
        box = {}
        h = loop.call_later(2.5, lambda pctl=pctl: pctl.release(watchdog=True))
        p0 = time.monotonic()
        task = loop.create_task(PRELUDE_OPS[s["op"]](ch, s))
        if s["abort"] == "cancel":
            # the caller gives the operation up while it waits for the device (its read is blocked)
            while not pctl.stall_entered.is_set() and not task.done():
                await asyncio.sleep(0)
            task.cancel()
        hg = loop.call_later(8.0, task.cancel)      # (see _guarded)
        try:
            box["out"] = _canon_ret(await task)
        except BaseException as e:  # noqa
            box["out"] = _canon_exc(e)
        h.cancel()
        hg.cancel()
        out.append(_prelude_entry(s, pctl, box, p0, tr, ch))
        pctl.release()
        await asyncio.sleep(0)
        if s.get("reopen", True) and tr.isalive():
            tr.close()
    ctl.a_wake = asyncio.Event()               # (closing what was attached before this session is not this session's close)
    ctl.wake.clear()
    await _attach_async(case, tr, ctl)
    return out


def run_case(case):
    import scrapli.decorators as dec
    from scrapli.settings import Settings

    is_async = case["stack"] == "async"
    ctl = (_ACtl if is_async else _Ctl)(case["steps"])
    fired = []

    def user_handler(signum, frame):
        fired.append(time.monotonic())

    prev = {"user": user_handler, "default": signal.SIG_DFL, "ign": signal.SIG_IGN}[case.get("prev_handler", "default")]
    saved_nt, saved_win = Settings.NO_TERMINATE_ON_TIMEOUT, dec._IS_WINDOWS
    obs = {}
    wd = None
    extra_threads = []
    try:
        Settings.NO_TERMINATE_ON_TIMEOUT = bool(case["no_term"])
        dec._IS_WINDOWS = bool(case.get("windows"))
        signal.signal(signal.SIGALRM, prev)
        pt = case.get("prev_timer")
        threads_before = set(threading.enumerate())
        W = watchdog_after(case)
        loop = None
        if is_async:
            loop = asyncio.new_event_loop()
            ctl.bind(loop)
        call, tr, ch = _build(case, ctl)
        box = {}
        if case.get("prelude") and not is_async:
            box["prelude"] = _prelude_sync(case, tr, ch, ctl, threads_before)
            box["limits_at_start"] = _limits_now(tr, ch)
        if pt:
            signal.setitimer(signal.ITIMER_REAL, pt[0], pt[1])

        def body():
            ctl.caller_ident = threading.get_ident()
            try:
                box["out"] = _canon_ret(call())
            except BaseException as e:  # noqa
                box["out"] = _canon_exc(e)
            box["t1"] = time.monotonic()

        t0 = time.monotonic()
        if is_async:
            async def go():
                if case.get("prelude"):
                    box["prelude"] = await _prelude_async(case, tr, ch, ctl, loop)
                    box["limits_at_start"] = _limits_now(tr, ch)
                tasks_before = set(asyncio.all_tasks())
                h = loop.call_later(W, lambda: ctl.release(watchdog=True))
                # should the call stop giving the loop a turn, a harness thread ends the device's side of it
                hard = threading.Timer(W + 1.0, ctl.hard_release)
                hard.daemon = True
                hard.start()
                box["hard"] = hard
                box["t0"] = time.monotonic()
                try:
                    box["out"] = _canon_ret(await _guarded(loop, call(), W + 4.0))
                except BaseException as e:  # noqa
                    box["out"] = _canon_exc(e)
                box["t1"] = time.monotonic()
                box["in_flight"] = ctl.in_flight          # reads still blocked at the instant the call came back
                box["hang"] = bool(ctl.by_watchdog)
                box["alive"] = bool(tr.isalive())         # (before anything follows on the connection)
                box["res_open"] = res_open(tr, ctl)
                box["lock_held"] = bool(ch is not None and ch.channel_lock is not None and ch.channel_lock.locked())
                h.cancel()
                left = []
                seen = [t for t in asyncio.all_tasks() if t not in tasks_before]
                box["tasks_at_return"] = len(seen)
                try:
                    await asyncio.sleep(0)                # exactly one loop iteration
                    left = [t for t in asyncio.all_tasks() if t not in tasks_before and not t.done()]
                    box["tasks"] = len(left)
                    fol = case.get("follow")
                    if (fol and not box["hang"] and box["out"].get("cls") == "ScrapliTimeout" and tr.isalive()
                            and ch is not None):
                        box["follow"] = await follow_up(fol, tasks_before)
                        left = [t for t in asyncio.all_tasks() if t not in tasks_before and not t.done()]
                finally:
                    for t in left:                        # nothing outlives the case
                        t.cancel()
                    if left:
                        await asyncio.gather(*left, return_exceptions=True)
                    for t in seen:                        # (their exceptions are of no interest)
                        if t.done() and not t.cancelled():
                            t.exception()

            async def follow_up(fol, tasks_before):
                fcall, answer = FOLLOW_OPS[fol]
                ctl.begin_follow([("data", b.hex()) for b in answer])
                # should the operation not end by itself (no limit configured): the harness ends it
                released = []
                h2 = loop.call_later(1.5, lambda: (released.append(1), ctl.release()))
                f0 = time.monotonic()
                try:
                    fout = _canon_follow_ret(await _guarded(loop, fcall(ch), 5.0))
                except BaseException as e:  # noqa
                    fout = _canon_exc(e)
                f1 = time.monotonic()
                h2.cancel()
                await asyncio.sleep(0)
                now_left = [t for t in asyncio.all_tasks() if t not in tasks_before and not t.done()]
                # what the device said in answer to this operation (output of the earlier one that was still unread when it
                # timed out is simply read first and is not counted), by the read that took it
                mine = [d for d in ctl.delivered if ctl.follow_from is not None and d[3] >= ctl.follow_from]
                return {"op": fol, "out": fout, "elapsed": round(f1 - f0, 3), "hang": bool(released),
                        "sent": "".join(b.hex() for b in answer),
                        "received": "".join(d[2] for d in mine if d[0] >= 1),
                        "swallowed": "".join(d[2] for d in mine if d[0] < 1),
                        "tasks": len(now_left), "alive": bool(tr.isalive()),
                        "lock_held": bool(ch.channel_lock is not None and ch.channel_lock.locked())}

            try:
                loop.run_until_complete(go())
            finally:
                if box.get("hard") is not None:
                    box["hard"].cancel()
                    box["hard"].join()
        else:
            wd = threading.Timer(W, lambda: ctl.release(watchdog=True))
            wd.daemon = True
            wd.start()
            if case.get("main_thread", True):
                body()
            else:
                th = threading.Thread(target=body, daemon=True)
                th.start()
                th.join()
            wd.cancel()
            wd.join()
        after_timer = signal.getitimer(signal.ITIMER_REAL)
        after_handler = signal.getsignal(signal.SIGALRM)
        if pt and pt[0] < 5 and not fired:
            # a timer that was due: give the signal up to 1 s to be delivered
            end = time.monotonic() + 1.0
            while not fired and time.monotonic() < end:
                time.sleep(0.002)
            after_timer = signal.getitimer(signal.ITIMER_REAL)
        signal.setitimer(signal.ITIMER_REAL, 0)
        extra_threads = [t for t in threading.enumerate() if t not in threads_before and t.is_alive()]
        obs = {
            "out": box.get("out"),
            "elapsed": round(box.get("t1", time.monotonic()) - box.get("t0", t0), 3),
            "hang": bool(box.get("hang", ctl.by_watchdog)),
            "alive": bool(box.get("alive", tr.isalive())),
            "res_open": bool(box.get("res_open", res_open(tr, ctl))),
            "handler_restored": after_handler is prev or after_handler == prev,
            "timer_after": [round(after_timer[0], 3), round(after_timer[1], 3)],
            "fired": len(fired),
            "leftover_threads": len(extra_threads),
            "lock_held": bool(box.get("lock_held", ch is not None and ch.channel_lock is not None and ch.channel_lock.locked())),
            "reads": ctl.reads,
            "mech_seen": ctl.mech_seen,
        }
        if is_async:
            obs["leftover_tasks"] = box.get("tasks", 0)
            obs["reads_in_flight"] = box.get("in_flight", 0)
            obs["tasks_at_return"] = box.get("tasks_at_return", 0)
            if "follow" in box:
                obs["follow"] = box["follow"]
        if "prelude" in box:
            obs["prelude"] = box["prelude"]
            obs["limits_at_start"] = box["limits_at_start"]
    finally:
        signal.setitimer(signal.ITIMER_REAL, 0)
        signal.signal(signal.SIGALRM, signal.SIG_DFL)
        Settings.NO_TERMINATE_ON_TIMEOUT = saved_nt
        dec._IS_WINDOWS = saved_win
        ctl.released.set()
        ctl.wake.set()
        if wd is not None:
            wd.cancel()
        for t in extra_threads:
            t.join(3)
        if is_async and ctl.loop is not None:
            try:
                ctl.loop.run_until_complete(ctl.loop.shutdown_asyncgens())
            finally:
                ctl.loop.close()
    return obs


# --------------------------------------------------------------------------------------------
# histories: several decorated calls, one after the other, on ONE transport (+ channel) object
# --------------------------------------------------------------------------------------------
def run_history(case):
    """case = {cls, lock, prev_handler, prev_timer, calls: [{thread: main|worker, level: tleaf|cleaf, fname, T, no_term,
    windows, step}]}.  ONE scripted transport object (its read() decorated) and ONE channel object over it are built and
    every call of the history is made on them: `transport.read()` (limit: timeout_transport) or a decorated channel
    method whose body is one raw read (limit: timeout_ops), from the main thread or from a fresh non-main thread.  Only
    the harness's script device behind the transport is exchanged between the calls (one step per call); a connection
    that a timeout closed is opened again before the next call.  Per call the same observation as run_case()."""
    import scrapli.decorators as dec
    from scrapli.channel.base_channel import BaseChannelArgs
    from scrapli.settings import Settings

    fired = []

    def user_handler(signum, frame):
        fired.append(time.monotonic())

    prev = {"user": user_handler, "default": signal.SIG_DFL, "ign": signal.SIG_IGN}[case.get("prev_handler", "default")]
    saved_nt, saved_win = Settings.NO_TERMINATE_ON_TIMEOUT, dec._IS_WINDOWS
    out_calls = []
    ctls, timers, stray = [], [], []
    try:
        signal.signal(signal.SIGALRM, prev)
        threads_before = set(threading.enumerate())
        tr = sync_transport_class(case["cls"], True)(_bta({"t_tr": 0.0}), _Ctl([]))
        ch = sync_channel_class()(tr, BaseChannelArgs(comms_prompt_pattern=PROMPT_PATTERN, timeout_ops=0.0,
                                                      channel_lock=bool(case.get("lock"))))
        pt = case.get("prev_timer")
        if pt:
            signal.setitimer(signal.ITIMER_REAL, pt[0], pt[1])
        for call in case["calls"]:
            ctl = _Ctl([tuple(call["step"])])
            ctls.append(ctl)
            reopened = False
            if not tr.isalive():
                tr.open()
                reopened = True
            tr.ctl = ctl
            Settings.NO_TERMINATE_ON_TIMEOUT = bool(call.get("no_term"))
            dec._IS_WINDOWS = bool(call.get("windows"))
            T = call["T"]
            if call["level"] == "tleaf":
                tr._base_transport_args.timeout_transport = T
                fn = tr.read
            else:
                ch._base_channel_args.timeout_ops = T
                fn = getattr(ch, "leaf_" + call["fname"])
            n_fired = len(fired)
            timer_before = signal.getitimer(signal.ITIMER_REAL)
            box = {}

            def body(ctl=ctl, fn=fn, box=box):
                ctl.caller_ident = threading.get_ident()
                try:
                    box["out"] = _canon_ret(fn())
                except BaseException as e:  # noqa
                    box["out"] = _canon_exc(e)
                box["t1"] = time.monotonic()

            wd = threading.Timer(call.get("watchdog") or (T + 1.6), lambda ctl=ctl: ctl.release(watchdog=True))
            wd.daemon = True
            timers.append(wd)
            wd.start()
            t0 = time.monotonic()
            if call["thread"] == "main":
                body()
            else:
                th = threading.Thread(target=body, daemon=True)
                th.start()
                th.join()
            wd.cancel()
            wd.join()
            after_timer = signal.getitimer(signal.ITIMER_REAL)
            after_handler = signal.getsignal(signal.SIGALRM)
            extra = [x for x in threading.enumerate() if x not in threads_before and x.is_alive()]
            out_calls.append({
                "out": box.get("out"),
                "elapsed": round(box.get("t1", time.monotonic()) - t0, 3),
                "hang": bool(ctl.by_watchdog),
                "alive": bool(tr.isalive()),
                "handler_restored": after_handler is prev or after_handler == prev,
                "timer_before": [round(timer_before[0], 3), round(timer_before[1], 3)],
                "timer_after": [round(after_timer[0], 3), round(after_timer[1], 3)],
                "fired": len(fired) - n_fired,
                "leftover_threads": len(extra),
                "lock_held": bool(ch.channel_lock is not None and ch.channel_lock.locked()),
                "reads": ctl.reads,
                "mech_seen": ctl.mech_seen,
                "reopened": reopened,
            })
            # whatever this call left behind is ended before the next one starts (it has been counted)
            ctl.released.set()
            ctl.wake.set()
            for x in extra:
                x.join(3)
            stray += [x for x in extra if x.is_alive()]
    finally:
        signal.setitimer(signal.ITIMER_REAL, 0)
        signal.signal(signal.SIGALRM, signal.SIG_DFL)
        Settings.NO_TERMINATE_ON_TIMEOUT = saved_nt
        dec._IS_WINDOWS = saved_win
        for c in ctls:
            c.released.set()
            c.wake.set()
        for w in timers:
            w.cancel()
        for x in stray:
            x.join(3)
    return {"calls": out_calls}


# --------------------------------------------------------------------------------------------
# real runtime: the real Telnet transport over a loopback socket whose peer stays silent, the real
# system transport over a pty whose child stays silent
# --------------------------------------------------------------------------------------------
def run_runtime(kind, timeout_transport, timeout_socket=3.0):
    import socket as pysocket
    from scrapli.transport.base.base_transport import BaseTransportArgs

    threads_before = set(threading.enumerate())
    srv = None
    conns = []
    try:
        if kind == "telnet-loopback":
            from scrapli.transport.plugins.telnet.transport import PluginTransportArgs, TelnetTransport
            srv = pysocket.socket()
            srv.bind(("127.0.0.1", 0))
            srv.listen(1)
            port = srv.getsockname()[1]
            bta = BaseTransportArgs(transport_options={}, host="127.0.0.1", port=port,
                                    timeout_socket=timeout_socket, timeout_transport=timeout_transport)
            t = TelnetTransport(bta, PluginTransportArgs())
            t.open()
            srv.settimeout(2)
            conns.append(srv.accept()[0])
        else:
            from scrapli.transport.plugins.system.transport import PluginTransportArgs, SystemTransport
            bta = BaseTransportArgs(transport_options={}, host="127.0.0.1", port=22,
                                    timeout_socket=timeout_socket, timeout_transport=timeout_transport)
            t = SystemTransport(bta, PluginTransportArgs(auth_username="u"))
            t.open_cmd = ["sleep", "20"]
            t.open()
        t0 = time.monotonic()
        try:
            out = _canon_ret(t.read())
        except BaseException as e:  # noqa
            out = _canon_exc(e)
        el = time.monotonic() - t0
        alive = t.isalive()
        left = [x for x in threading.enumerate() if x not in threads_before and x.is_alive()]
        return {"out": out, "elapsed": round(el, 3), "alive": bool(alive), "leftover_threads": len(left)}
    finally:
        for c in conns:
            c.close()
        if srv is not None:
            srv.close()
        try:
            t.close()
        except Exception:  # noqa
            pass
