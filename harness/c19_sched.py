"""C19 — controlled schedulers for the REAL Channel (threads) and AsyncChannel (tasks).

Every transport read / write, every lock acquisition that would have to wait, and the start of every
caller is a *park point*: the caller hands a baton to the scheduler and continues only when the
scheduler grants it.  Exactly one logical caller runs at a time, so a schedule is a list of choices
and a run is reproducible from (scenario, choices).  Nothing sleeps; the only real-time element is a
watchdog on every wait (a wedged run is reported, it never decides a verdict).

What is real: the Channel / AsyncChannel objects, their `_channel_lock` context manager, the
`threading.Lock` / `asyncio.Lock` object the channel created (the instrumented lock only delegates to
it: `acquire(False)` / `locked()` / `release()`), the `timeout_wrapper` decorator (thread-pool
mechanism for threads, `asyncio.wait_for` for tasks).  What is replaced: the transport (a SimDevice
behind park points), the clock of the timeout (threads: `scrapli.decorators.wait` parks on the
scheduler; tasks: the event loop's clock is real time plus jumps made by the scheduler).

Events (the observation log, appended only by the caller that holds the baton):
  ("start", c) ("acq", c) ("rel", c) ("w", c, hex) ("r", c, hex) ("x", c, what) ("close", c)
  ("cancel", c) ("end", c, outcome)"""
import asyncio
import threading
import time

from .simdevice import SimDevice

WATCHDOG = 60.0


class Abort(BaseException):
    """the scheduler ended the run (deadlock / starvation / budget): unwinds a parked caller"""


class Wedged(Exception):
    """a wait of the harness itself hit the watchdog: machinery failure, never a verdict"""


class Boom(Exception):
    """an injected non-scrapli failure of the transport"""


def _conn_error():
    from scrapli.exceptions import ScrapliConnectionError
    return ScrapliConnectionError("scripted transport: injected failure / transport closed")


# --------------------------------------------------------------------------------------------------
# the wire: one SimDevice, chunking policy, sticky failure, close
# --------------------------------------------------------------------------------------------------
class Wire:
    def __init__(self, device, chunk=0):
        self.device = device
        self.chunk = chunk          # 0: a read returns everything pending; n: at most n bytes
        self.delivered = 0
        self.closed = False
        self.dead = False           # sticky failure after an injected raise
        self.nio = {}               # caller -> number of transport calls so far

    def pending(self):
        return len(self.device.out) - self.delivered

    def take(self):
        n = self.pending()
        if self.chunk:
            n = min(n, self.chunk)
        b = bytes(self.device.out[self.delivered:self.delivered + n])
        self.delivered += n
        return b


# --------------------------------------------------------------------------------------------------
# scheduler core shared by both stacks (pure bookkeeping; the waiting primitives differ)
# --------------------------------------------------------------------------------------------------
class Core:
    def __init__(self, ncallers, wire, faults, chooser, max_steps=4000):
        self.n = ncallers
        self.wire = wire
        self.faults = faults or []      # [{"caller": c, "at": k, "kind": raise|boom|timeout|timeout_lockwait, "sticky": bool}]
        self.chooser = chooser          # f(step_no, [option tuples]) -> index
        self.state = {}                 # c -> (kind, info): start|read|write|lockwait|timedwait|running|done
        self.events = []
        self.choices = []               # (chosen index, number of options) per decision
        self.steps = 0
        self.max_steps = max_steps
        self.verdict = None             # None | "deadlock" | "starved" | "budget"
        self.aborting = False
        self.lock_probe = lambda: False  # () -> is the channel lock currently held
        self.lock_owner = None
        self.fired = set()
        self.timeouts = {}              # c -> configured timeout (0 = none)
        self.final_lock = None          # is the lock held when the run ends / gets stuck
        self.final_owner = None         # ... and by whom
        self.stuck_now = False

    # -- fault lookup -----------------------------------------------------------------------------
    def io_fault(self, c, k):
        for f in self.faults:
            if f["caller"] == c and f.get("at") == k and f["kind"] in ("raise", "boom"):
                return f
        return None

    def timeout_due(self, c, kind, k):
        for i, f in enumerate(self.faults):
            if f["caller"] != c or i in self.fired:
                continue
            if f["kind"] == "timeout_stuck" and self.stuck_now and kind in ("read", "write", "lockwait"):
                return i
            if f["kind"] == "timeout" and kind in ("read", "write") and f.get("at") == k:
                return i
            if f["kind"] == "timeout_lockwait" and kind == "lockwait":
                return i
        return None

    # -- which parked callers can make a step -------------------------------------------------------
    def enabled(self):
        opts = []
        for c in range(self.n):
            st = self.state.get(c)
            if st is None:
                continue
            kind, info = st
            if kind == "start":
                opts.append((c, "start"))
            elif kind == "write":
                opts.append((c, "write"))
            elif kind == "read":
                k = info
                if self.timeout_due(c, "read", k) is not None:
                    opts.append((c, "timeout"))
                elif (self.wire.pending() > 0 or self.wire.closed or self.wire.dead
                      or self.io_fault(c, k) is not None):
                    opts.append((c, "read"))
            elif kind == "lockwait_t":
                opts.append((c, "lockwait"))
            elif kind == "lockwait":
                if self.timeout_due(c, "lockwait", None) is not None:
                    opts.append((c, "timeout"))
                elif not self.lock_probe():
                    opts.append((c, "lockwait"))
        if not opts and not self.stuck_now:
            # nobody can step (the device is silent): a configured timeout elapses
            self.stuck_now = True
            try:
                for c in range(self.n):
                    st = self.state.get(c)
                    if st and st[0] in ("read", "write", "lockwait") and self.timeout_due(c, st[0], st[1]) is not None:
                        return [(c, "timeout")]
            finally:
                self.stuck_now = False
        # a write parked at a timeout point fires the timeout instead
        out = []
        for c, what in opts:
            if what == "write" and self.timeout_due(c, "write", self.state[c][1]) is not None:
                out.append((c, "timeout"))
            else:
                out.append((c, what))
        return out

    def has_waiters(self, c):
        """somebody else is waiting for the lock: an acquire is then a contention point — asyncio.Lock
        hands a released lock to the first waiter, threading.Lock to whoever comes first"""
        return any(k != c and st[0] in ("lockwait", "lockwait_t") for k, st in self.state.items())

    def all_done(self):
        return all(self.state.get(c, (None,))[0] == "done" for c in range(self.n))

    def classify_stuck(self):
        """nobody can step and not everybody is done"""
        kinds = {c: self.state[c][0] for c in range(self.n) if c in self.state}
        if any(k == "lockwait" for k in kinds.values()):
            holder_waiting_on_device = any(k == "read" for k in kinds.values())
            # a caller waits for the lock: if the holder is only blocked on the (silent) device this is
            # starvation by the device, otherwise the lock is held by nobody who can ever release it
            if holder_waiting_on_device and self.lock_owner is not None and kinds.get(self.lock_owner) == "read":
                return "starved"
            return "deadlock"
        return "starved"


# --------------------------------------------------------------------------------------------------
# threads
# --------------------------------------------------------------------------------------------------
class ThreadSched(Core):
    def __init__(self, *a, **kw):
        super().__init__(*a, **kw)
        self.cv = threading.Condition()
        self.turn = None            # caller allowed to run; None = the scheduler
        self.grant_payload = {}
        self.wedged = False
        self.finished = False       # the run is over: a thread still parked (a stray worker) unwinds
        self.timeout_events = {}    # c -> threading.Event (patched decorators.wait)
        self.in_pool = {}           # c -> its operation runs on a pool worker (thread mechanism)

    # identity: a pool worker belongs to the caller whose thread started it
    def cid(self):
        t = threading.current_thread()
        seen = 0
        while t is not None and seen < 8:
            c = getattr(t, "_c19_cid", None)
            if c is not None:
                return c
            t = getattr(t, "_c19_parent", None)
            seen += 1
        raise Wedged("transport used from a thread that belongs to no caller")

    def _wait(self, pred, caller=False):
        t0 = time.monotonic()
        while not pred():
            if caller and (self.wedged or self.finished):
                raise Abort()
            self.cv.wait(0.25)
            if time.monotonic() - t0 > WATCHDOG:
                raise Wedged("watchdog: wait did not complete")

    def park(self, c, kind, info=None):
        with self.cv:
            self.state[c] = (kind, info)
            self.turn = None
            self.cv.notify_all()
            self._wait(lambda: self.turn == c, caller=True)
            self.state[c] = ("running", None)
            payload = self.grant_payload.pop(c, None)
        if payload == "abort":
            raise Abort()
        return payload

    def handback(self, c, kind="running", info=None):
        """give the baton back without waiting for a grant (end of caller, timeout fired)"""
        with self.cv:
            self.state[c] = (kind, info)
            self.turn = None
            self.cv.notify_all()

    def grant(self, c, payload=None):
        with self.cv:
            if payload is not None:
                self.grant_payload[c] = payload
            self.turn = c
            self.cv.notify_all()
            self._wait(lambda: self.turn is None)

    def fire_timeout(self, c):
        """the scheduler lets caller c's timeout elapse: its (patched) decorators.wait returns"""
        with self.cv:
            self.turn = ("timeout", c)
            if not self.in_pool.get(c):
                raise Wedged("timeout requested for a caller that is not inside the thread-pool timeout")
            self.timeout_events.setdefault(c, threading.Event()).set()
            self.cv.notify_all()
            self._wait(lambda: self.turn is None)

    def run(self, starters):
        """starters: list of callables, one per caller, each running on its own thread"""
        threads = []
        orig_start = threading.Thread.start

        def start(th):
            th._c19_parent = threading.current_thread()
            try:
                self.in_pool[self.cid()] = True     # a caller starts a thread: the pool worker of its timeout
            except Wedged:
                pass
            return orig_start(th)

        threading.Thread.start = start
        try:
            for c, fn in enumerate(starters):
                th = threading.Thread(target=self._caller, args=(c, fn), name="c19-caller-%d" % c, daemon=True)
                th._c19_cid = c
                threads.append(th)
            with self.cv:
                for c, th in enumerate(threads):
                    self.turn = ("starting", c)
                    orig_start(th)
                    self._wait(lambda: self.turn is None)
            try:
                self._loop()
            except Wedged:
                with self.cv:
                    self.wedged = True
                    for ev in self.timeout_events.values():
                        ev.set()
                    self.cv.notify_all()
                raise
        finally:
            threading.Thread.start = orig_start
            with self.cv:
                self.finished = True
                self.cv.notify_all()
        for th in threads:
            th.join(WATCHDOG)
            if th.is_alive():
                raise Wedged("caller thread did not end")

    def _caller(self, c, fn):
        try:
            self.park(c, "start")
            self.events.append(("start", c))
            fn()
        except Abort:
            self.events.append(("end", c, "Aborted"))
        finally:
            self.handback(c, "done")

    def _loop(self):
        while True:
            if self.all_done():
                if self.final_lock is None:
                    self.final_lock = bool(self.lock_probe())
                return
            opts = self.enabled()
            if self.aborting:
                parked = [c for c in range(self.n) if self.state[c][0] in ("start", "read", "write", "lockwait", "lockwait_t")]
                if not parked:
                    raise Wedged("aborting but nobody is parked and not all done")
                self.grant(parked[0], "abort")
                continue
            if not opts:
                self.verdict = self.classify_stuck()
                self.final_lock = bool(self.lock_probe())   # before the parked callers are unwound
                self.final_owner = self.lock_owner
                self.aborting = True
                continue
            if self.steps >= self.max_steps:
                self.verdict = "budget"
                self.aborting = True
                continue
            ix = self.chooser(self.steps, opts)
            self.choices.append((ix, len(opts)))
            self.steps += 1
            c, what = opts[ix]
            if what == "timeout":
                self.stuck_now = True
                i = self.timeout_due(c, self.state[c][0], self.state[c][1])
                self.stuck_now = False
                self.fired.add(i)
                self.events.append(("timeout", c))
                self.fire_timeout(c)
            else:
                self.grant(c)


class SchedLock:
    """delegates to the channel's own threading.Lock; waiting for it is a park point"""

    def __init__(self, inner, sched):
        self.inner = inner
        self.sched = sched

    def acquire(self, blocking=True, timeout=-1):
        s = self.sched
        c = s.cid()
        if blocking and s.has_waiters(c):
            s.park(c, "lockwait")
        while True:
            if self.inner.acquire(False):
                s.lock_owner = c
                s.events.append(("acq", c))
                return True
            if not blocking:
                return False
            if timeout is not None and timeout >= 0:
                # a bounded wait: the scheduler may let it elapse (granted while the lock is still held)
                s.park(c, "lockwait_t")
                if self.inner.locked():
                    s.events.append(("lock-timeout", c))
                    return False
                continue
            s.park(c, "lockwait")

    def release(self):
        s = self.sched
        c = s.cid()
        self.inner.release()
        s.lock_owner = None
        s.events.append(("rel", c))

    def locked(self):
        return self.inner.locked()

    def __enter__(self):
        self.acquire()
        return True

    def __exit__(self, *a):
        self.release()


def make_sync_transport(sched, base_transport_args):
    from scrapli.transport.base import Transport

    class SchedTransport(Transport):
        def __init__(self):
            Transport.__init__(self, base_transport_args)
            self.opened = True

        def open(self):
            self.opened = True

        def close(self):
            w = sched.wire
            c = sched.cid()
            w.closed = True
            sched.events.append(("close", c))
            if sched.turn == ("timeout", c):
                sched.handback(c, sched.state[c][0], sched.state[c][1])

        def isalive(self):
            return not sched.wire.closed

        def _io(self, kind, data=None):
            w = sched.wire
            c = sched.cid()
            k = w.nio.get(c, 0)
            w.nio[c] = k + 1
            sched.park(c, kind, k)
            if w.closed or w.dead:
                sched.events.append(("x", c, "closed"))
                raise _conn_error()
            f = sched.io_fault(c, k)
            if f is not None:
                if f.get("sticky", True):
                    w.dead = True
                sched.events.append(("x", c, f["kind"]))
                raise Boom("injected") if f["kind"] == "boom" else _conn_error()
            if kind == "write":
                sched.events.append(("w", c, bytes(data).hex()))
                w.device.feed(bytes(data))
                return None
            b = w.take()
            sched.events.append(("r", c, b.hex()))
            return b

        def read(self):
            return self._io("read")

        def write(self, channel_input):
            self._io("write", channel_input)

    return SchedTransport()


def patched_wait_factory(sched):
    """replacement of scrapli.decorators.wait: the timeout elapses when the scheduler says so"""

    def fake_wait(fs, timeout=None, return_when=None):
        fut = list(fs)[0]
        c = sched.cid()
        with sched.cv:
            ev = sched.timeout_events.setdefault(c, threading.Event())
        fut.add_done_callback(lambda f: ev.set())
        t0 = time.monotonic()
        while not ev.wait(0.25):
            if sched.wedged:
                raise Abort()
            if time.monotonic() - t0 > WATCHDOG:
                raise Wedged("watchdog: patched wait")
        if sched.wedged:
            raise Abort()
        if not fut.done():
            from scrapli.settings import Settings
            if Settings.NO_TERMINATE_ON_TIMEOUT:
                # nothing shared is touched after this point (log, raise, join of the worker)
                sched.handback(c, sched.state[c][0], sched.state[c][1])
        return None

    return fake_wait


# --------------------------------------------------------------------------------------------------
# asyncio
# --------------------------------------------------------------------------------------------------
class JumpLoop(asyncio.SelectorEventLoop):
    """real monotonic time plus jumps made by the scheduler (to let one timeout elapse)"""

    def __init__(self):
        super().__init__()
        self.offset = 0.0

    def time(self):
        return super().time() + self.offset


import contextvars
_CID = contextvars.ContextVar("c19_cid", default=None)


class TaskSched(Core):
    def __init__(self, *a, **kw):
        super().__init__(*a, **kw)
        self.loop = None
        self.baton = None
        self.parkfut = {}
        self.current = None       # caller running now
        self.tasks = {}
        self.deadline = {}        # c -> loop time at which its timeout elapses

    def cid(self):
        t = asyncio.current_task()
        for c, task in self.tasks.items():
            if task is t:
                return c
        c = _CID.get()          # a task created by a caller's task inherits its context
        if c is not None:
            return c
        raise Wedged("transport used from a task that belongs to no caller")

    def _give(self):
        if self.baton is not None and not self.baton.done():
            self.baton.set_result(None)

    async def park(self, c, kind, info=None):
        fut = self.loop.create_future()
        self.parkfut[c] = fut
        self.state[c] = (kind, info)
        self._give()
        try:
            payload = await fut
        except asyncio.CancelledError:
            self.state[c] = ("running", None)
            self.events.append(("cancel", c))
            raise
        self.state[c] = ("running", None)
        if payload == "abort":
            raise Abort()
        return payload

    async def _grant(self, c, payload=None):
        self.baton = self.loop.create_future()
        self.parkfut.pop(c).set_result(payload)
        await asyncio.wait_for(asyncio.shield(self.baton), WATCHDOG)

    async def _fire(self, c):
        self.baton = self.loop.create_future()
        dl = self.deadline.get(c)
        if dl is None:
            raise Wedged("timeout requested for a caller without a timeout")
        self.loop.offset += max(0.0, dl - self.loop.time()) + 1.0
        # real-time watchdog: measured with the monotonic clock, not the (jumped) loop clock
        t0 = time.monotonic()
        while not self.baton.done():
            await asyncio.sleep(0)
            if time.monotonic() - t0 > WATCHDOG:
                raise Wedged("watchdog: timeout did not fire")

    async def _caller(self, c, fn):
        _CID.set(c)
        try:
            await self.park(c, "start")
            self.events.append(("start", c))
            await fn()
        except Abort:
            self.events.append(("end", c, "Aborted"))
        finally:
            self.state[c] = ("done", None)
            self._give()

    async def _drive(self, starters):
        self.loop = asyncio.get_running_loop()
        for c, fn in enumerate(starters):
            self.baton = self.loop.create_future()
            self.tasks[c] = self.loop.create_task(self._caller(c, fn))
            await asyncio.wait_for(asyncio.shield(self.baton), WATCHDOG)
        while True:
            if self.all_done():
                if self.final_lock is None:
                    self.final_lock = bool(self.lock_probe())
                break
            opts = self.enabled()
            if self.aborting:
                parked = [c for c in range(self.n) if self.state[c][0] in ("start", "read", "write", "lockwait", "lockwait_t")]
                if not parked:
                    raise Wedged("aborting but nobody is parked and not all done")
                await self._grant(parked[0], "abort")
                continue
            if not opts:
                self.verdict = self.classify_stuck()
                self.final_lock = bool(self.lock_probe())   # before the parked callers are unwound
                self.final_owner = self.lock_owner
                self.aborting = True
                continue
            if self.steps >= self.max_steps:
                self.verdict = "budget"
                self.aborting = True
                continue
            ix = self.chooser(self.steps, opts)
            self.choices.append((ix, len(opts)))
            self.steps += 1
            c, what = opts[ix]
            if what == "timeout":
                self.stuck_now = True
                i = self.timeout_due(c, self.state[c][0], self.state[c][1])
                self.stuck_now = False
                self.fired.add(i)
                self.events.append(("timeout", c))
                await self._fire(c)
            else:
                await self._grant(c)
        for t in self.tasks.values():
            await asyncio.wait_for(asyncio.shield(t), WATCHDOG)

    def run(self, starters):
        loop = JumpLoop()
        try:
            loop.run_until_complete(self._drive(starters))
        finally:
            try:
                for t in asyncio.all_tasks(loop):
                    t.cancel()
                loop.run_until_complete(asyncio.sleep(0))
            finally:
                loop.close()


class ASchedLock:
    """delegates to the channel's own asyncio.Lock; waiting for it is a park point"""

    def __init__(self, inner, sched):
        self.inner = inner
        self.sched = sched

    async def acquire(self):
        s = self.sched
        c = s.cid()
        if s.has_waiters(c):
            await s.park(c, "lockwait")
        while self.inner.locked():
            await s.park(c, "lockwait")
        await self.inner.acquire()     # free: does not suspend
        s.lock_owner = c
        s.events.append(("acq", c))
        return True

    def release(self):
        s = self.sched
        c = s.cid()
        self.inner.release()
        s.lock_owner = None
        s.events.append(("rel", c))

    def locked(self):
        return self.inner.locked()

    async def __aenter__(self):
        await self.acquire()
        return None

    async def __aexit__(self, *a):
        self.release()


def make_async_transport(sched, base_transport_args):
    from scrapli.transport.base import AsyncTransport

    class ASchedTransport(AsyncTransport):
        def __init__(self):
            AsyncTransport.__init__(self, base_transport_args)

        async def open(self):
            pass

        def close(self):
            c = sched.cid()
            sched.wire.closed = True
            sched.events.append(("close", c))

        def isalive(self):
            return not sched.wire.closed

        def _finish(self, c, k, kind, data):
            w = sched.wire
            if w.closed or w.dead:
                sched.events.append(("x", c, "closed"))
                raise _conn_error()
            f = sched.io_fault(c, k)
            if f is not None:
                if f.get("sticky", True):
                    w.dead = True
                sched.events.append(("x", c, f["kind"]))
                raise Boom("injected") if f["kind"] == "boom" else _conn_error()
            if kind == "write":
                sched.events.append(("w", c, bytes(data).hex()))
                w.device.feed(bytes(data))
                return None
            b = w.take()
            sched.events.append(("r", c, b.hex()))
            return b

        async def read(self):
            c = sched.cid()
            k = sched.wire.nio.get(c, 0)
            sched.wire.nio[c] = k + 1
            await sched.park(c, "read", k)
            return self._finish(c, k, "read", None)

        def write(self, channel_input):
            # AsyncTransport.write is synchronous: it cannot park.  It is performed at once, by the
            # running caller; the interleaving points of the asyncio stack are the reads (awaits).
            c = sched.cid()
            k = sched.wire.nio.get(c, 0)
            sched.wire.nio[c] = k + 1
            if sched.timeout_due(c, "write", k) is not None:
                # a timeout cannot be delivered at a synchronous call; it is delivered at the next await
                pass
            self._finish(c, k, "write", channel_input)

    return ASchedTransport()
