"""C19 — controlled schedulers for the REAL Channel (threads) and AsyncChannel (tasks).

Every transport read / write, every lock acquisition that would have to wait, and the start of every
caller is a *park point*: the caller hands a baton to the scheduler and continues only when the
scheduler grants it.  Exactly one logical caller runs at a time, so a schedule is a list of choices
and a run is reproducible from (scenario, choices).  Nothing sleeps; the only real-time element is a
watchdog on every wait (a wedged run is reported, it never decides a verdict).

What is real: the Channel / AsyncChannel objects, their `_channel_lock` context manager, the
`threading.Lock` / `asyncio.Lock` object the channel created (the instrumented lock only delegates to
it: `acquire(False)` / `locked()` / `release()`), the `timeout_wrapper` decorator (thread-pool
mechanism for threads, `asyncio.wait_for` for tasks).  What is replaced: the transport (a SimDevice
behind park points), the clock of the timeout (threads: `scrapli.decorators.wait` parks on the
scheduler; tasks: the event loop's clock is real time plus jumps made by the scheduler).

Actors.  A caller c is an actor (its thread and the pool workers it starts / its task).  Under asyncio
any OTHER task that descends from caller c's task (asyncio.shield, ensure_future, create_task: the
context is inherited) is a *sub-actor* ("o", c, j): it parks on its own, its transport events are
logged under c, and it goes on being scheduled after c's operation has ended (an orphaned reader is
I/O by a caller that holds nothing) -- the run ends only when every caller is through AND no sub-actor
can make a step; sub-actors still inside a transport call at that point are reported (`pending_io`).

Lock objects.  The channel is an instance of a subclass of the real class whose only addition is a
`__setattr__` that wraps whatever lock object gets bound to `channel_lock` -- in `__init__` or at any
later time (open(), ...) -- in the instrumented lock; a waiter stays on the object it started to wait
for, the way `with self.channel_lock:` does.  Events of the second, third... lock object carry its ordinal.

Re-open.  A caller with "retry" whose operation failed re-opens the connection (park point "reopen":
transport.open() + channel.open(), the wire is revived, the old session's pending output is gone)
and runs its operation again.

Foreign threads (sync).  A thread started by a caller's thread (or its pool worker) that is not the worker of
the thread-pool timeout -- a reader thread the code under test starts -- is a sub-actor ("o", c, j) as well:
its transport calls are park points of its own, logged under c, it is scheduled after c's operation has
ended, and it never has to hand the baton back (the end of its run does).  A *timed* blocking wait of the
code under test on a caller's thread (Queue.get / Event.wait / Thread.join / Future.result with a timeout)
is a park point "timedwait": it ends when what it waits for is there, or when the scheduler lets it elapse
(virtual time: the clock the channel modules see -- `time.time()` -- is the scheduler's).

Durations.  A fault {"caller": c, "kind": "duration"} says: caller c's read_duration runs out while the device
is silent (nothing pending on the wire).  A transport read of c parked then may time out (only if the transport's
timeout_transport is set at that moment: ScrapliTimeout, the clock advances by it), a timed wait of c may elapse.

Events (the observation log, appended only by the actor that holds the baton):
  ("start", c) ("acq", c[, "lock#i"]) ("rel", c[, "lock#i"]) ("w", c, hex) ("r", c, hex) ("x", c, what)
  ("close", c) ("cancel", c) ("kill", c) ("timeout", c) ("reopen", c) ("end", c, outcome)
  ("rt", c) a transport read of c timed out (transport timeout)   ("elapse", c) a timed wait of c elapsed"""
import asyncio
import concurrent.futures
import concurrent.futures.thread
import queue
import sys
import threading
import time

from .simdevice import SimDevice

WATCHDOG = 60.0


class Abort(BaseException):
    """the scheduler ended the run (deadlock / starvation / budget): unwinds a parked caller"""


class Wedged(Exception):
    """a wait of the harness itself hit the watchdog: machinery failure, never a verdict"""


class Boom(Exception):
    """an injected non-scrapli failure of the transport"""


def _conn_error():
    from scrapli.exceptions import ScrapliConnectionError
    return ScrapliConnectionError("scripted transport: injected failure / transport closed")


# --------------------------------------------------------------------------------------------------
# the wire: one SimDevice, chunking policy, sticky failure, close
# --------------------------------------------------------------------------------------------------
class Wire:
    def __init__(self, device, chunk=0):
        self.device = device
        self.chunk = chunk          # 0: a read returns everything pending; n: at most n bytes
        self.delivered = 0
        self.closed = False
        self.dead = False           # sticky failure after an injected raise
        self.nio = {}               # caller -> number of transport calls so far

    def pending(self):
        return len(self.device.out) - self.delivered

    def take(self):
        n = self.pending()
        if self.chunk:
            n = min(n, self.chunk)
        b = bytes(self.device.out[self.delivered:self.delivered + n])
        self.delivered += n
        return b


# --------------------------------------------------------------------------------------------------
# scheduler core shared by both stacks (pure bookkeeping; the waiting primitives differ)
# --------------------------------------------------------------------------------------------------
class Core:
    def __init__(self, ncallers, wire, faults, chooser, max_steps=4000):
        self.n = ncallers
        self.wire = wire
        self.faults = faults or []      # [{"caller": c, "at": k, "kind": raise|boom|timeout|timeout_lockwait, "sticky": bool}]
        self.chooser = chooser          # f(step_no, [option tuples]) -> index
        self.state = {}                 # c -> (kind, info): start|read|write|lockwait|timedwait|running|done
        self.events = []
        self.choices = []               # (chosen index, number of options) per decision
        self.steps = 0
        self.max_steps = max_steps
        self.verdict = None             # None | "deadlock" | "starved" | "budget"
        self.aborting = False
        self.lock_objects = []          # every lock object the channel bound to channel_lock, in order
        self.lock_owner = None
        self.fired = set()
        self.timeouts = {}              # c -> configured timeout (0 = none)
        self.final_lock = None          # is the lock held when the run ends / gets stuck
        self.final_owner = None         # ... and by whom
        self.stuck_now = False
        self.pending_io = []            # sub-actors still inside a transport call when the run ended
        self.clock = 0.0                # virtual seconds gone by (what the channel modules' time.time() shows)
        self.transport_timeout = lambda: 0   # the transport's timeout_transport at this moment
        self.nduration = {}             # fault index -> how often it was used

    def lock_probe(self):
        """is a lock object of the channel currently held"""
        return any(l.locked() for l in self.lock_objects)

    @staticmethod
    def owner(actor):
        return actor if isinstance(actor, int) else actor[1]

    def actors(self):
        return list(range(self.n)) + sorted((a for a in self.state if not isinstance(a, int)), key=lambda a: a[1:])

    def main_done(self, c):
        return self.state.get(c, (None,))[0] == "done"

    def kill_due(self, c, kind, k):
        """an injected cancellation of caller c's task (asyncio): at its k-th transport call / while it waits for the lock"""
        for i, f in enumerate(self.faults):
            if f["caller"] != c or i in self.fired or self.main_done(c):
                continue
            if f["kind"] == "cancel" and kind in ("read", "write") and f.get("at") == k:
                return i
            if f["kind"] == "cancel_lockwait" and kind == "lockwait":
                return i
        return None

    def duration_due(self, c):
        """caller c's read_duration may run out now (fault "duration"; bounded: a loop that ignores time ends)"""
        for i, f in enumerate(self.faults):
            if f["caller"] == c and f["kind"] == "duration" and self.nduration.get(i, 0) < 4 and not self.main_done(c):
                return i
        return None

    def use_duration(self, c, seconds, what):
        i = self.duration_due(c)
        self.nduration[i] = self.nduration.get(i, 0) + 1
        self.clock += float(seconds) + 0.001
        self.events.append((what, c))

    # -- fault lookup -----------------------------------------------------------------------------
    def io_fault(self, c, k):
        for f in self.faults:
            if f["caller"] == c and f.get("at") == k and f["kind"] in ("raise", "boom"):
                return f
        return None

    def timeout_due(self, c, kind, k):
        for i, f in enumerate(self.faults):
            if f["caller"] != c or i in self.fired or self.main_done(c):
                continue                # (the timeout of an operation that has ended cannot elapse any more)
            if f["kind"] == "timeout_stuck" and self.stuck_now and kind in ("read", "write", "lockwait"):
                return i
            if f["kind"] == "timeout" and kind in ("read", "write") and f.get("at") == k:
                return i
            if f["kind"] == "timeout_lockwait" and kind == "lockwait":
                return i
        return None

    # -- which parked callers can make a step -------------------------------------------------------
    def enabled(self):
        opts = []
        for a in self.actors():
            st = self.state.get(a)
            if st is None:
                continue
            c = self.owner(a)
            kind, info = st
            if kind in ("start", "reopen"):
                opts.append((a, kind))
            elif kind == "write":
                opts.append((a, "write"))
            elif kind == "read":
                k = info
                if self.timeout_due(c, "read", k) is not None:
                    opts.append((a, "timeout"))
                elif self.kill_due(c, "read", k) is not None:
                    opts.append((a, "kill"))
                elif (self.wire.pending() > 0 or self.wire.closed or self.wire.dead
                      or self.io_fault(c, k) is not None):
                    opts.append((a, "read"))
                elif self.duration_due(c) is not None and (self.transport_timeout() or 0) > 0:
                    opts.append((a, "rtimeout"))       # (silent device, the transport read has a timeout)
            elif kind == "timedwait":
                if info[0]():
                    opts.append((a, "wake"))           # (what the wait is for is there)
                elif info[1] is not None and self.duration_due(c) is not None and self.wire.pending() == 0:
                    opts.append((a, "elapse"))         # (the time runs out while the device is silent)
            elif kind == "lockwait_t":
                opts.append((a, "lockwait"))
            elif kind == "lockwait":
                if self.timeout_due(c, "lockwait", None) is not None:
                    opts.append((a, "timeout"))
                elif self.kill_due(c, "lockwait", None) is not None:
                    opts.append((a, "kill"))
                elif not (info.locked() if info is not None else self.lock_probe()):
                    opts.append((a, "lockwait"))       # (the lock object this waiter waits for is free)
        if not opts and not self.stuck_now:
            # nobody can step (the device is silent): a configured timeout elapses
            self.stuck_now = True
            try:
                for a in self.actors():
                    st = self.state.get(a)
                    if st and st[0] in ("read", "write", "lockwait") and self.timeout_due(self.owner(a), st[0], st[1]) is not None:
                        return [(a, "timeout")]
            finally:
                self.stuck_now = False
        # a write parked at a timeout point fires the timeout instead
        out = []
        for a, what in opts:
            if what == "write" and self.timeout_due(self.owner(a), "write", self.state[a][1]) is not None:
                out.append((a, "timeout"))
            else:
                out.append((a, what))
        return out

    def note_pending_io(self):
        self.pending_io = [[self.owner(a), self.state[a][0]] for a in self.actors()
                           if not isinstance(a, int) and self.state[a][0] in ("read", "write") and self.main_done(self.owner(a))]

    def reopen_wire(self, c):
        """caller c re-opens the connection: a fresh session (what was pending on the old one is gone)"""
        w = self.wire
        w.closed = False
        w.dead = False
        w.delivered = len(w.device.out)
        w.device.line = bytearray()
        self.events.append(("reopen", c))

    def has_waiters(self, c):
        """somebody else is waiting for the lock: an acquire is then a contention point — asyncio.Lock
        hands a released lock to the first waiter, threading.Lock to whoever comes first"""
        return any(self.owner(k) != c and st[0] in ("lockwait", "lockwait_t") for k, st in self.state.items())

    def all_done(self):
        return all(self.state.get(c, (None,))[0] == "done" for c in range(self.n))

    def classify_stuck(self):
        """nobody can step and not everybody is done"""
        kinds = {c: self.state[c][0] for c in range(self.n) if c in self.state}
        if any(k == "lockwait" for k in kinds.values()):
            holder_waiting_on_device = any(k == "read" for k in kinds.values())
            # a caller waits for the lock: if the holder is only blocked on the (silent) device this is
            # starvation by the device, otherwise the lock is held by nobody who can ever release it
            if holder_waiting_on_device and self.lock_owner is not None and kinds.get(self.lock_owner) == "read":
                return "starved"
            return "deadlock"
        return "starved"


# --------------------------------------------------------------------------------------------------
# threads
# --------------------------------------------------------------------------------------------------
class ThreadSched(Core):
    def __init__(self, *a, **kw):
        super().__init__(*a, **kw)
        self.cv = threading.Condition()
        self.turn = None            # caller allowed to run; None = the scheduler
        self.grant_payload = {}
        self.wedged = False
        self.finished = False       # the run is over: a thread still parked (a stray worker) unwinds
        self.timeout_events = {}    # c -> threading.Event (patched decorators.wait)
        self.in_pool = {}           # c -> its operation runs on a pool worker (thread mechanism)

    # identity: a pool worker belongs to the caller whose thread started it
    def cid(self):
        t = threading.current_thread()
        seen = 0
        while t is not None and seen < 8:
            c = getattr(t, "_c19_cid", None)
            if c is not None:
                return c
            t = getattr(t, "_c19_parent", None)
            seen += 1
        raise Wedged("transport used from a thread that belongs to no caller")

    def actor(self):
        """the caller for its own thread and the pool worker of its timeout; ("o", c, j) for a foreign thread"""
        a = getattr(threading.current_thread(), "_c19_actor", None)
        return a if a is not None else self.cid()

    def thread_actor(self):
        """actor of the current thread, None for a thread that belongs to no caller (the scheduler, the interpreter's)"""
        try:
            return self.actor()
        except Wedged:
            return None

    def adopt(self, th):
        """a thread is started from a thread of caller c: the pool worker of its timeout (part of the caller) or a
        foreign thread (a sub-actor: parks on its own, the end of its run gives the baton back)"""
        th._c19_parent = threading.current_thread()
        try:
            c = self.cid()
        except Wedged:
            return
        if getattr(th, "_target", None) is concurrent.futures.thread._worker:
            self.in_pool[c] = True          # a caller starts the pool worker of its timeout
            return
        with self.cv:
            a = ("o", c, sum(1 for k in self.state if not isinstance(k, int) and k[1] == c))
            self.state[a] = ("running", None)
        th._c19_actor = a
        inner = th.run

        def run():
            try:
                inner()
            except Abort:
                pass
            finally:
                th._c19_left = True
                self.sub_left(a)

        th.run = run

    def sub_left(self, a):
        """a foreign thread ended: if it had the baton, its caller goes on with it (it waited for the thread
        in an untimed wait) or the scheduler gets it back (the caller is parked / through)"""
        with self.cv:
            self.state[a] = ("done", None)
            if self.turn == a:
                c = a[1]
                self.turn = c if self.state.get(c, (None,))[0] == "running" else None
            self.cv.notify_all()

    def virtual_wait(self, a, pred, timeout):
        """a blocking wait of the code under test: over when pred() holds (True) or, if it is timed, when the scheduler
        lets the time elapse (False)"""
        while not pred():
            if self.park(a, "timedwait", (pred, timeout)) == "elapsed":
                return pred()
        return True

    def install_waits(self):
        """blocking waits (Queue.get / Event.wait / Thread.join / Future.result, timed or not) of the code under test on a
        caller's thread become park points; every other thread's, and those of the interpreter's own machinery
        (threading, concurrent.futures: thread start, pool workers) are left alone"""
        s = self
        saved = [(queue.Queue, "get", queue.Queue.get), (threading.Event, "wait", threading.Event.wait),
                 (threading.Thread, "join", threading.Thread.join),
                 (concurrent.futures.Future, "result", concurrent.futures.Future.result)]
        o_get, o_wait, o_join, o_result = (x[2] for x in saved)

        def timed(timeout):
            if (timeout is not None and timeout <= 0) or s.finished or s.wedged:
                return None
            if sys._getframe(2).f_globals.get("__name__", "").split(".")[0] in ("threading", "concurrent", "queue"):
                return None
            return s.thread_actor()

        def get(q, block=True, timeout=None):
            a = timed(timeout) if block else None
            if a is None:
                return o_get(q, block, timeout)
            if s.virtual_wait(a, lambda: q.qsize() > 0, timeout):
                return o_get(q, False)
            raise queue.Empty

        def wait(ev, timeout=None):
            a = timed(timeout)
            if a is None:
                return o_wait(ev, timeout)
            return s.virtual_wait(a, ev.is_set, timeout)

        def join(th, timeout=None):
            a = timed(timeout)
            if a is None:
                return o_join(th, timeout)
            s.virtual_wait(a, lambda: getattr(th, "_c19_left", False) or not th.is_alive(), timeout)

        def result(fut, timeout=None):
            a = timed(timeout)
            if a is None or s.virtual_wait(a, fut.done, timeout):
                return o_result(fut, None if a is not None else timeout)
            raise concurrent.futures.TimeoutError()

        for (cls, name, _), new in zip(saved, (get, wait, join, result)):
            setattr(cls, name, new)
        return saved

    def _wait(self, pred, caller=False):
        t0 = time.monotonic()
        while not pred():
            if caller and (self.wedged or self.finished):
                raise Abort()
            self.cv.wait(0.25)
            if time.monotonic() - t0 > WATCHDOG:
                raise Wedged("watchdog: wait did not complete")

    def quiescent(self):
        """the baton is back and every foreign thread that was started has parked or ended"""
        return self.turn is None and not any(st[0] == "running" for a, st in self.state.items() if not isinstance(a, int))

    def park(self, c, kind, info=None):
        with self.cv:
            self.state[c] = (kind, info)
            if isinstance(c, int) or self.turn == c:
                self.turn = None        # (a foreign thread that was just started never had the baton: its caller has it)
            self.cv.notify_all()
            self._wait(lambda: self.turn == c, caller=True)
            self.state[c] = ("running", None)
            payload = self.grant_payload.pop(c, None)
        if payload == "abort":
            raise Abort()
        return payload

    def handback(self, c, kind="running", info=None):
        """give the baton back without waiting for a grant (end of caller, timeout fired)"""
        with self.cv:
            self.state[c] = (kind, info)
            self.turn = None
            self.cv.notify_all()

    def grant(self, c, payload=None):
        with self.cv:
            if payload is not None:
                self.grant_payload[c] = payload
            self.turn = c
            self.cv.notify_all()
            self._wait(self.quiescent)

    def fire_timeout(self, c):
        """the scheduler lets caller c's timeout elapse: its (patched) decorators.wait returns"""
        with self.cv:
            self.turn = ("timeout", c)
            if not self.in_pool.get(c):
                raise Wedged("timeout requested for a caller that is not inside the thread-pool timeout")
            self.timeout_events.setdefault(c, threading.Event()).set()
            self.cv.notify_all()
            self._wait(self.quiescent)

    def run(self, starters):
        """starters: list of callables, one per caller, each running on its own thread"""
        threads = []
        orig_start = threading.Thread.start

        def start(th):
            self.adopt(th)
            return orig_start(th)

        threading.Thread.start = start
        saved_waits = self.install_waits()
        try:
            for c, fn in enumerate(starters):
                th = threading.Thread(target=self._caller, args=(c, fn), name="c19-caller-%d" % c, daemon=True)
                th._c19_cid = c
                threads.append(th)
            with self.cv:
                for c, th in enumerate(threads):
                    self.turn = ("starting", c)
                    orig_start(th)
                    self._wait(lambda: self.turn is None)
            try:
                self._loop()
            except Wedged:
                with self.cv:
                    self.wedged = True
                    for ev in self.timeout_events.values():
                        ev.set()
                    self.cv.notify_all()
                raise
        finally:
            threading.Thread.start = orig_start
            for cls, name, fn in saved_waits:
                setattr(cls, name, fn)
            with self.cv:
                self.finished = True
                self.cv.notify_all()
        for th in threads:
            th.join(WATCHDOG)
            if th.is_alive():
                raise Wedged("caller thread did not end")

    def _caller(self, c, fn):
        try:
            self.park(c, "start")
            self.events.append(("start", c))
            fn()
        except Abort:
            self.events.append(("end", c, "Aborted"))
        finally:
            self.handback(c, "done")

    def _loop(self):
        while True:
            opts = self.enabled()
            if self.all_done() and (not opts or self.aborting):
                # every caller is through and no thread left behind by one of them can make a step
                if self.final_lock is None:
                    self.final_lock = bool(self.lock_probe())
                self.note_pending_io()
                return
            if self.aborting:
                kinds = ("start", "reopen", "read", "write", "lockwait", "lockwait_t", "timedwait")
                parked = [c for c in range(self.n) if self.state[c][0] in kinds]
                if not parked:
                    # (a caller may be waiting, untimed, for a thread of its own that is parked)
                    parked = [a for a in self.actors() if not isinstance(a, int) and self.state[a][0] in kinds
                              and not self.main_done(self.owner(a))]
                if not parked:
                    raise Wedged("aborting but nobody is parked and not all done")
                self.grant(parked[0], "abort")
                continue
            if not opts:
                self.verdict = self.classify_stuck()
                self.final_lock = bool(self.lock_probe())   # before the parked callers are unwound
                self.final_owner = self.lock_owner
                self.aborting = True
                continue
            if self.steps >= self.max_steps:
                self.verdict = "budget"
                self.aborting = True
                continue
            ix = self.chooser(self.steps, opts)
            self.choices.append((ix, len(opts)))
            self.steps += 1
            a, what = opts[ix]
            c = self.owner(a)
            if what == "timeout":
                self.stuck_now = True
                i = self.timeout_due(c, self.state[a][0], self.state[a][1])
                self.stuck_now = False
                self.fired.add(i)
                self.events.append(("timeout", c))
                self.fire_timeout(c)
            elif what == "kill":
                raise Wedged("cancellation of a caller is an asyncio fault (threads cannot be cancelled)")
            elif what == "elapse":
                self.use_duration(c, self.state[a][1][1], "elapse")
                self.grant(a, "elapsed")
            elif what == "rtimeout":
                self.grant(a, "rtimeout")
            else:
                self.grant(a)


def instrumented_channel_class(base, sched, wrapper):
    """subclass of the real channel class; the only addition: whatever lock object is bound to
    `channel_lock` (in __init__, open(), anywhere, any time) is wrapped in the instrumented lock"""

    class Instrumented(base):
        def __setattr__(self, name, value):
            if name == "channel_lock" and value is not None and not isinstance(value, wrapper):
                sched.lock_objects.append(value)
                value = wrapper(value, sched, len(sched.lock_objects) - 1)
            object.__setattr__(self, name, value)

    Instrumented.__name__ = base.__name__
    Instrumented.__qualname__ = base.__qualname__
    return Instrumented


class SchedLock:
    """delegates to the channel's own threading.Lock; waiting for it is a park point"""

    def __init__(self, inner, sched, ordinal=0):
        self.inner = inner
        self.sched = sched
        self.tag = () if not ordinal else ("lock#%d" % ordinal,)

    def acquire(self, blocking=True, timeout=-1):
        s = self.sched
        c = s.cid()
        if blocking and s.has_waiters(c):
            s.park(c, "lockwait", self.inner)
        while True:
            if self.inner.acquire(False):
                s.lock_owner = c
                s.events.append(("acq", c) + self.tag)
                return True
            if not blocking:
                return False
            if timeout is not None and timeout >= 0:
                # a bounded wait: the scheduler may let it elapse (granted while the lock is still held)
                s.park(c, "lockwait_t")
                if self.inner.locked():
                    s.events.append(("lock-timeout", c))
                    return False
                continue
            s.park(c, "lockwait", self.inner)

    def release(self):
        s = self.sched
        c = s.cid()
        self.inner.release()
        s.lock_owner = None
        s.events.append(("rel", c) + self.tag)

    def locked(self):
        return self.inner.locked()

    def __enter__(self):
        self.acquire()
        return True

    def __exit__(self, *a):
        self.release()


def make_sync_transport(sched, base_transport_args):
    from scrapli.transport.base import Transport

    class SchedTransport(Transport):
        def __init__(self):
            Transport.__init__(self, base_transport_args)
            self.opened = True
            sched.transport_timeout = lambda: self._base_transport_args.timeout_transport

        def open(self):
            self.opened = True

        def close(self):
            w = sched.wire
            c = sched.cid()
            w.closed = True
            sched.events.append(("close", c))
            if sched.turn == ("timeout", c):
                sched.handback(c, sched.state[c][0], sched.state[c][1])

        def isalive(self):
            return not sched.wire.closed

        def _io(self, kind, data=None):
            w = sched.wire
            c = sched.cid()
            k = w.nio.get(c, 0)
            w.nio[c] = k + 1
            if sched.park(sched.actor(), kind, k) == "rtimeout":
                from scrapli.exceptions import ScrapliTimeout
                sched.use_duration(c, self._base_transport_args.timeout_transport, "rt")
                raise ScrapliTimeout("scripted transport: timed out reading")
            if w.closed or w.dead:
                sched.events.append(("x", c, "closed"))
                raise _conn_error()
            f = sched.io_fault(c, k)
            if f is not None:
                if f.get("sticky", True):
                    w.dead = True
                sched.events.append(("x", c, f["kind"]))
                raise Boom("injected") if f["kind"] == "boom" else _conn_error()
            if kind == "write":
                sched.events.append(("w", c, bytes(data).hex()))
                w.device.feed(bytes(data))
                return None
            b = w.take()
            sched.events.append(("r", c, b.hex()))
            return b

        def read(self):
            return self._io("read")

        def write(self, channel_input):
            self._io("write", channel_input)

    return SchedTransport()


_EVENT_WAIT = threading.Event.wait       # (the harness's own waits are never park points)


class SchedClock:
    """what `time` is inside the channel modules during a run: time() is the scheduler's virtual clock"""

    def __init__(self, sched):
        self.sched = sched

    def time(self):
        return 1000000.0 + self.sched.clock

    def __getattr__(self, name):
        return getattr(time, name)


def patched_wait_factory(sched):
    """replacement of scrapli.decorators.wait: the timeout elapses when the scheduler says so"""

    def fake_wait(fs, timeout=None, return_when=None):
        fut = list(fs)[0]
        c = sched.cid()
        with sched.cv:
            ev = sched.timeout_events.setdefault(c, threading.Event())
        fut.add_done_callback(lambda f: ev.set())
        t0 = time.monotonic()
        while not _EVENT_WAIT(ev, 0.25):
            if sched.wedged:
                raise Abort()
            if time.monotonic() - t0 > WATCHDOG:
                raise Wedged("watchdog: patched wait")
        if sched.wedged:
            raise Abort()
        if not fut.done():
            from scrapli.settings import Settings
            if Settings.NO_TERMINATE_ON_TIMEOUT:
                # nothing shared is touched after this point (log, raise, join of the worker)
                sched.handback(c, sched.state[c][0], sched.state[c][1])
        return None

    return fake_wait


# --------------------------------------------------------------------------------------------------
# asyncio
# --------------------------------------------------------------------------------------------------
class JumpLoop(asyncio.SelectorEventLoop):
    """real monotonic time plus jumps made by the scheduler (to let one timeout elapse)"""

    def __init__(self):
        super().__init__()
        self.offset = 0.0

    def time(self):
        return super().time() + self.offset


import contextvars
_CID = contextvars.ContextVar("c19_cid", default=None)


class TaskSched(Core):
    def __init__(self, *a, **kw):
        super().__init__(*a, **kw)
        self.loop = None
        self.baton = None
        self.parkfut = {}
        self.current = None       # caller running now
        self.tasks = {}
        self.deadline = {}        # c -> loop time at which its timeout elapses
        self.subs = {}            # task -> sub-actor id ("o", c, j)
        self.finished = False

    def cid(self):
        t = asyncio.current_task()
        for c, task in self.tasks.items():
            if task is t:
                return c
        c = _CID.get()          # a task created by a caller's task inherits its context
        if c is not None:
            return c
        raise Wedged("transport used from a task that belongs to no caller")

    def actor(self):
        """the caller itself when its own task runs; a sub-actor for any other task descending from it"""
        t = asyncio.current_task()
        c = self.cid()
        if self.tasks.get(c) is t:
            return c
        if t not in self.subs:
            self.subs[t] = ("o", c, sum(1 for a in self.subs.values() if a[1] == c))
            t.add_done_callback(self.sub_left)
        return self.subs[t]

    def _give(self):
        if self.baton is not None and not self.baton.done():
            self.baton.set_result(None)

    async def park(self, c, kind, info=None):
        a = self.actor()            # (c is the caller the actor belongs to)
        fut = self.loop.create_future()
        self.parkfut[a] = fut
        self.state[a] = (kind, info)
        self._give()
        try:
            payload = await fut
        except asyncio.CancelledError:
            self.state[a] = ("running", None) if isinstance(a, int) else ("done", None)
            if not self.finished:
                self.events.append(("cancel", c))
            raise
        self.state[a] = ("running", None)
        if payload == "abort":
            raise Abort()
        return payload

    def sub_left(self, task):
        """a sub-actor's task ended (returned / raised) without parking again"""
        a = self.subs.get(task)
        if a is not None and self.state.get(a, (None,))[0] == "running":
            self.state[a] = ("done", None)
            if self.state.get(a[1], (None,))[0] != "running":
                self._give()        # (a caller that is running -- awaiting this task -- gives the baton itself when it parks)

    async def _grant(self, c, payload=None):
        self.baton = self.loop.create_future()
        self.parkfut.pop(c).set_result(payload)
        await asyncio.wait_for(asyncio.shield(self.baton), WATCHDOG)

    async def _kill(self, c):
        """cancel caller c's task (what `task.cancel()` / an enclosing wait_for of the user does)"""
        self.baton = self.loop.create_future()
        self.events.append(("kill", c))
        self.tasks[c].cancel()
        t0 = time.monotonic()
        while not self.baton.done():
            await asyncio.sleep(0)
            if time.monotonic() - t0 > WATCHDOG:
                raise Wedged("watchdog: cancellation was not delivered")

    async def _fire(self, c):
        self.baton = self.loop.create_future()
        dl = self.deadline.get(c)
        if dl is None:
            raise Wedged("timeout requested for a caller without a timeout")
        self.loop.offset += max(0.0, dl - self.loop.time()) + 1.0
        # real-time watchdog: measured with the monotonic clock, not the (jumped) loop clock
        t0 = time.monotonic()
        while not self.baton.done():
            await asyncio.sleep(0)
            if time.monotonic() - t0 > WATCHDOG:
                raise Wedged("watchdog: timeout did not fire")

    async def _caller(self, c, fn):
        _CID.set(c)
        try:
            await self.park(c, "start")
            self.events.append(("start", c))
            await fn()
        except Abort:
            self.events.append(("end", c, "Aborted"))
        except asyncio.CancelledError:
            pass                    # (recorded by the starter; the task just ends)
        finally:
            self.state[c] = ("done", None)
            self._give()

    async def _drive(self, starters):
        self.loop = asyncio.get_running_loop()
        for c, fn in enumerate(starters):
            self.baton = self.loop.create_future()
            self.tasks[c] = self.loop.create_task(self._caller(c, fn))
            await asyncio.wait_for(asyncio.shield(self.baton), WATCHDOG)
        while True:
            opts = self.enabled()
            if self.all_done() and (not opts or self.aborting):
                # every caller is through and no task left behind by one of them can make a step
                if self.final_lock is None:
                    self.final_lock = bool(self.lock_probe())
                self.note_pending_io()
                break
            if self.aborting:
                parked = [a for a in self.actors() if self.state[a][0] in ("start", "reopen", "read", "write", "lockwait", "lockwait_t")
                          and not self.main_done(self.owner(a))]      # (a caller may be waiting for a task of its own that is parked)
                if not parked:
                    raise Wedged("aborting but nobody is parked and not all done")
                await self._grant(parked[0], "abort")
                continue
            if not opts:
                self.verdict = self.classify_stuck()
                self.final_lock = bool(self.lock_probe())   # before the parked callers are unwound
                self.final_owner = self.lock_owner
                self.aborting = True
                continue
            if self.steps >= self.max_steps:
                self.verdict = "budget"
                self.aborting = True
                continue
            ix = self.chooser(self.steps, opts)
            self.choices.append((ix, len(opts)))
            self.steps += 1
            a, what = opts[ix]
            c = self.owner(a)
            if what == "timeout":
                self.stuck_now = True
                i = self.timeout_due(c, self.state[a][0], self.state[a][1])
                self.stuck_now = False
                self.fired.add(i)
                self.events.append(("timeout", c))
                await self._fire(c)
            elif what == "kill":
                self.fired.add(self.kill_due(c, self.state[a][0], self.state[a][1]))
                await self._kill(c)
            elif what == "rtimeout":
                await self._grant(a, "rtimeout")
            else:
                await self._grant(a)
        self.finished = True
        for t in self.tasks.values():
            await asyncio.wait_for(asyncio.shield(t), WATCHDOG)

    def run(self, starters):
        loop = JumpLoop()
        try:
            loop.run_until_complete(self._drive(starters))
        finally:
            self.finished = True
            try:
                for t in asyncio.all_tasks(loop):
                    t.cancel()
                loop.run_until_complete(asyncio.sleep(0))
            finally:
                loop.close()


class ASchedLock:
    """delegates to the channel's own asyncio.Lock; waiting for it is a park point"""

    def __init__(self, inner, sched, ordinal=0):
        self.inner = inner
        self.sched = sched
        self.tag = () if not ordinal else ("lock#%d" % ordinal,)

    async def acquire(self):
        s = self.sched
        c = s.cid()
        if s.has_waiters(c):
            await s.park(c, "lockwait", self.inner)
        while self.inner.locked():
            await s.park(c, "lockwait", self.inner)
        await self.inner.acquire()     # free: does not suspend
        s.lock_owner = c
        s.events.append(("acq", c) + self.tag)
        return True

    def release(self):
        s = self.sched
        c = s.cid()
        self.inner.release()
        s.lock_owner = None
        s.events.append(("rel", c) + self.tag)

    def locked(self):
        return self.inner.locked()

    async def __aenter__(self):
        await self.acquire()
        return None

    async def __aexit__(self, *a):
        self.release()


def make_async_transport(sched, base_transport_args):
    from scrapli.transport.base import AsyncTransport

    class ASchedTransport(AsyncTransport):
        def __init__(self):
            AsyncTransport.__init__(self, base_transport_args)
            sched.transport_timeout = lambda: self._base_transport_args.timeout_transport

        async def open(self):
            pass

        def close(self):
            c = sched.cid()
            sched.wire.closed = True
            sched.events.append(("close", c))

        def isalive(self):
            return not sched.wire.closed

        def _finish(self, c, k, kind, data):
            w = sched.wire
            if w.closed or w.dead:
                sched.events.append(("x", c, "closed"))
                raise _conn_error()
            f = sched.io_fault(c, k)
            if f is not None:
                if f.get("sticky", True):
                    w.dead = True
                sched.events.append(("x", c, f["kind"]))
                raise Boom("injected") if f["kind"] == "boom" else _conn_error()
            if kind == "write":
                sched.events.append(("w", c, bytes(data).hex()))
                w.device.feed(bytes(data))
                return None
            b = w.take()
            sched.events.append(("r", c, b.hex()))
            return b

        async def read(self):
            c = sched.cid()
            k = sched.wire.nio.get(c, 0)
            sched.wire.nio[c] = k + 1
            if await sched.park(c, "read", k) == "rtimeout":
                from scrapli.exceptions import ScrapliTimeout
                sched.use_duration(c, self._base_transport_args.timeout_transport, "rt")
                raise ScrapliTimeout("scripted transport: timed out reading")
            return self._finish(c, k, "read", None)

        def write(self, channel_input):
            # AsyncTransport.write is synchronous: it cannot park.  It is performed at once, by the
            # running caller; the interleaving points of the asyncio stack are the reads (awaits).
            c = sched.cid()
            k = sched.wire.nio.get(c, 0)
            sched.wire.nio[c] = k + 1
            if sched.timeout_due(c, "write", k) is not None:
                # a timeout cannot be delivered at a synchronous call; it is delivered at the next await
                pass
            self._finish(c, k, "write", channel_input)

    return ASchedTransport()
