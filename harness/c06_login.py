"""C06 helper — runs the REAL in-channel login loops (channel_authenticate_telnet / _ssh) of both
stacks on scripted event lists (the events of coq/model/Twins.v: data / empty read with or without
kick / poll expiry / connection error), without source hooks:

  * the transport is an event-scripted Transport / AsyncTransport (a read with nothing left raises
    Starved, a BaseException: "would block for ever");
  * the Telnet kick test reads the clock through the module attribute `datetime` of the three channel
    modules, which is replaced for the duration of a run by a scripted clock (kick flag of the
    current event);
  * a poll expiry is a read that never completes, so `asyncio.wait_for(read, interval)` really
    expires; the undecorated coroutine (`__wrapped__`) is called so that no overall timeout
    runs, with timeout_ops = 0.4 s, i.e. a poll interval of 20 ms.  All asyncio scenarios of a batch
    run concurrently in one event loop (each iteration of the real loop sleeps 0.1 s)."""
import asyncio
import contextlib

from scrapli.channel import AsyncChannel, Channel
from scrapli.channel.base_channel import BaseChannelArgs
from scrapli.exceptions import ScrapliConnectionError
from scrapli.transport.base import AsyncTransport, Transport
from scrapli.transport.base.base_transport import BaseTransportArgs

from .simdevice import Starved

TIMEOUT_OPS = 0.4


class _Stamp:
    def __init__(self, v):
        self.v = v

    def timestamp(self):
        return self.v


class ScriptedClock:
    """stands in for `datetime` inside the channel modules: now().timestamp()"""
    current = None     # the transport whose loop is running (sync) — asyncio uses a contextvar

    def __init__(self):
        import contextvars
        self.var = contextvars.ContextVar("c06_transport", default=None)

    def now(self):
        t = self.var.get() or ScriptedClock.current
        if t is None or not t.started:
            if t is not None:
                t.started = True
            return _Stamp(0.0)
        return _Stamp(1e9 if t.kick else 0.0)


CLOCK = ScriptedClock()


@contextlib.contextmanager
def scripted_clock():
    import scrapli.channel.async_channel as ac
    import scrapli.channel.base_channel as bc
    import scrapli.channel.sync_channel as sc
    saved = [(m, m.datetime) for m in (ac, bc, sc)]
    for m, _ in saved:
        m.datetime = CLOCK
    try:
        yield
    finally:
        for m, d in saved:
            m.datetime = d
        ScriptedClock.current = None


def _bta():
    return BaseTransportArgs(transport_options={}, host="sim", port=23, timeout_socket=0, timeout_transport=0)


class _Ev:
    def _init(self, events):
        self.events = list(events)
        self.writes = []
        self.kick = False
        self.started = False
        self.nreads = 0

    def _next(self):
        if not self.events:
            raise Starved()
        self.nreads += 1
        return self.events.pop(0)

    def write(self, channel_input):
        self.writes.append(bytes(channel_input))

    def close(self):
        pass

    def isalive(self):
        return True


class EvTransport(_Ev, Transport):
    def __init__(self, events):
        Transport.__init__(self, _bta())
        self._init([e for e in events if e[0] != "expire"])

    def open(self):
        pass

    def read(self):
        e = self._next()
        if e[0] == "err":
            raise ScrapliConnectionError("scripted")
        self.kick = bool(e[2])
        return e[1]


class AsyncEvTransport(_Ev, AsyncTransport):
    def __init__(self, events):
        AsyncTransport.__init__(self, _bta())
        self._init(events)

    async def open(self):
        pass

    async def read(self):
        e = self._next()
        if e[0] == "err":
            raise ScrapliConnectionError("scripted")
        if e[0] == "expire":
            self.kick = bool(e[1])
            await asyncio.Event().wait()    # never completes: wait_for must expire
        self.kick = bool(e[2])
        return e[1]


def _args(pats):
    return BaseChannelArgs(comms_prompt_pattern=pats[2], comms_return_char="\n", timeout_ops=TIMEOUT_OPS,
                           auth_telnet_login_pattern=pats[0], auth_password_pattern=pats[1],
                           auth_passphrase_pattern=pats[1])


def _classify(exc):
    if isinstance(exc, Starved):
        return "Starved"
    return type(exc).__name__


def run_sync(loop_kind, pats, answers, events):
    """-> (outcome class name or 'ok', [writes], reads consumed)"""
    t = EvTransport(events)
    a = _args(pats if loop_kind == "telnet" else (pats[0], pats[0], pats[2]))
    if loop_kind == "ssh":
        a.auth_password_pattern, a.auth_passphrase_pattern = pats[0], pats[1]
    ch = Channel(transport=t, base_channel_args=a)
    ScriptedClock.current = t
    fn = (Channel.channel_authenticate_telnet if loop_kind == "telnet" else Channel.channel_authenticate_ssh).__wrapped__
    try:
        fn(ch, answers[0], answers[1])
        out = "ok"
    except BaseException as e:  # noqa
        if isinstance(e, (KeyboardInterrupt, SystemExit)):
            raise
        out = _classify(e)
    finally:
        ScriptedClock.current = None
    return out, list(t.writes), t.nreads


async def _run_async_one(loop_kind, pats, answers, events):
    t = AsyncEvTransport(events)
    a = _args(pats)
    if loop_kind == "ssh":
        a.auth_password_pattern, a.auth_passphrase_pattern = pats[0], pats[1]
    ch = AsyncChannel(transport=t, base_channel_args=a)
    CLOCK.var.set(t)
    fn = (AsyncChannel.channel_authenticate_telnet if loop_kind == "telnet" else AsyncChannel.channel_authenticate_ssh).__wrapped__
    try:
        await fn(ch, answers[0], answers[1])
        out = "ok"
    except BaseException as e:  # noqa
        if isinstance(e, (KeyboardInterrupt, SystemExit, asyncio.CancelledError)):
            raise
        out = _classify(e)
    return out, list(t.writes), t.nreads


def run_async_batch(jobs):
    """jobs: list of (loop_kind, pats, answers, events) -> list of results, run concurrently"""
    async def one(j):
        return await _run_async_one(*j)

    async def go():
        return await asyncio.gather(*(asyncio.ensure_future(one(j)) for j in jobs))

    loop = asyncio.new_event_loop()
    try:
        return loop.run_until_complete(go())
    finally:
        loop.close()


def ssh_handler_fires(pats, events):
    """does the sync-only _ssh_message_handler raise on some prefix of this stream?"""
    ch = Channel(transport=EvTransport([]), base_channel_args=_args(pats))
    buf = b""
    for e in events:
        if e[0] == "data":
            buf += e[1].lower()
            try:
                ch._ssh_message_handler(output=buf)
            except Exception:  # noqa
                return True
    return False
