"""C16 — ssh config and known_hosts lookups return that host's entry and only that.

proof: coq/proofs/SshConfig_Proofs.v, coq/proofs/KnownHosts_Proofs.v, props/C16.v.
tie:   Gen_SshConfig.v regenerated from scrapli/ssh_config.py on every run (HOST_ATTRS, the
       pattern->regex translation classified by behaviour, matching function, best-match operator,
       known_hosts constants) + correspondence `sshconfig-roundtrip`:
       files generated from the supported grammar, rendered to text, parsed by the REAL SSHConfig /
       SSHKnownHosts; (P) the real _parse() output against the generator's structure, (M) the Coq
       model (build / lookup, run by vm_compute on the real _parse() output) against the real merged
       dict and the real lookup results, (S) the Python oracle against Coq's spec_lookup, and the
       oracle (spec) against the real lookup results.  The same four comparisons run on the keyword-text
       family (render_kw): the words host / match / hostname / port / user / identityfile inside comments, values,
       longer keywords, comment / blank lines between an entry's directives, Match blocks (oracle-only for the
       text level: the model starts at the _parse() output).
       + correspondence `sshconfig-cache-history` (harness/c16_cache.py): histories of lookups and driver
       constructions on the per-path cache of parsed files (ssh_config_factory), oracle per operation,
       model srun (cache as state) on the same histories.
"""
import base64
import hashlib
import hmac as pyhmac
import json
import os
import random
import re
import tempfile

from . import c16_cache, common
from .common import coq_bytes, coq_list

LEVEL = "proof"
SOURCES = ["scrapli/ssh_config.py", "scrapli/driver/base/base_driver.py"]

SIG_UNANCHORED = "c16-unanchored-substring-match"
SIG_MERGE_TEXT = "c16-inheritance-by-pattern-text"
FIELDS = ("hostname", "port", "user", "identities_only", "identity_file")
OTHER_ATTRS = ("address_family", "bind_address", "connect_timeout", "keyboard_interactive",
               "password_authentication", "preferred_authentication")


# ---------------------------------------------------------------------------------------------
# the real code
# ---------------------------------------------------------------------------------------------
def _tmpfile(text, tag):
    d = os.path.join(common.BUILD, "C16", "files")
    os.makedirs(d, exist_ok=True)
    fd, p = tempfile.mkstemp(prefix=tag, dir=d)
    with os.fdopen(fd, "w", encoding="utf-8", newline="") as f:
        f.write(text)
    return p


def host_obs(h):
    """canonical observation of a Host object: (Host line, 5 option values); None if an option
    scrapli never parses is set (cannot happen today; would be a harness surprise)"""
    for a in OTHER_ATTRS:
        if getattr(h, a) is not None:
            return ("?other-attr-set", a)
    return (h.hosts, h.hostname, h.port, h.user, h.identities_only, h.identity_file)


def real_config(text, names):
    """-> dict(construct_exc, parsed [(key, obs)], merged [(key, obs)], lookups {name: obs | ('EXC', cls)})"""
    from scrapli.ssh_config import SSHConfig

    p = _tmpfile(text, "cfg")
    out = {"construct_exc": None, "parsed": None, "merged": None, "lookups": {}}
    try:
        try:
            c = SSHConfig(p)
        except Exception as e:  # noqa
            out["construct_exc"] = type(e).__name__
            return out
        try:
            raw = c._parse()
            out["parsed"] = [(k, host_obs(h)) for k, h in raw.items()]
        except Exception as e:  # noqa
            out["parsed"] = None
            out["construct_exc"] = "reparse:" + type(e).__name__
        out["merged"] = [(k, host_obs(h)) for k, h in c.hosts.items()]
        for n in names:
            try:
                out["lookups"][n] = host_obs(c.lookup(n))
            except Exception as e:  # noqa
                out["lookups"][n] = ("EXC", type(e).__name__)
        return out
    finally:
        os.unlink(p)


def real_known_hosts(text, names):
    from scrapli.ssh_config import SSHKnownHosts

    p = _tmpfile(text, "kh")
    try:
        try:
            k = SSHKnownHosts(p)
        except Exception as e:  # noqa
            return {"construct_exc": type(e).__name__, "hosts": None, "lookups": {}}
        res = {}
        for n in names:
            try:
                r = k.lookup(n)
                res[n] = ("NONE",) if r == {} else ("FOUND", r.get("key_type"), r.get("public_key"))
            except Exception as e:  # noqa
                res[n] = ("EXC", type(e).__name__)
        return {"construct_exc": None, "lookups": res,
                "hosts": [(i, v.get("key_type"), v.get("public_key")) for i, v in k.hosts.items()]}
    finally:
        os.unlink(p)


# ---------------------------------------------------------------------------------------------
# specification (independent of scrapli and of the model): OpenSSH-style whole-name matching
# ---------------------------------------------------------------------------------------------
def glob_full(pat, s):
    """does the pattern (* ? literals, ASCII case-insensitive, wildcards never cover a newline)
    match the WHOLE of s?  dynamic programming, no `re`."""
    pat_l, s_l = pat.lower(), s.lower()
    reach = {0}
    for pc in pat_l:
        nxt = set()
        if pc == "*":
            for i in reach:
                j = i
                nxt.add(j)
                while j < len(s_l) and s_l[j] != "\n":
                    j += 1
                    nxt.add(j)
        else:
            for i in reach:
                if i < len(s_l) and ((pc == "?" and s_l[i] != "\n") or (pc != "?" and pc == s_l[i])):
                    nxt.add(i + 1)
        reach = nxt
        if not reach:
            return False
    return len(s_l) in reach


def spec_score(pat, s):
    if not glob_full(pat, s):
        return None
    return len(s) - sum(1 for c in pat if c not in "*?")


def truthy(v):
    return bool(v)


def fill(h, src):
    return tuple(h[i] if truthy(h[i]) else src[i] for i in range(5))


DEFAULT = (None, None, "", None, None)


def as_dict(entries):
    """[(key, values5)] -> insertion-ordered dict semantics + the '*' completion"""
    d = {}
    for k, v in entries:
        d[k] = v
    if "*" not in d:
        d["*"] = DEFAULT
    return d


def spec_lookup(entries, name):
    d = as_dict(entries)
    cands = []
    for k in d:
        for p in k.split():
            sc = spec_score(p, name)
            if sc is not None:
                cands.append((sc, k))
    order = []
    rest = list(cands)
    while rest:
        best = rest[0]
        for c in rest[1:]:
            if c[0] < best[0]:
                best = c
        order.append(best[1])
        rest = [c for c in rest if c[1] != best[1]]
    exact = None
    if name in d:
        exact = name
    else:
        for k in d:
            if name in k.split():
                exact = k
                break
    if exact is not None:
        order = [exact] + [k for k in order if k != exact]
    if not order:
        return None
    h = d[order[0]]
    for k in order[1:]:
        h = fill(h, d[k])
    return (order[0],) + tuple(h)


# ---------------------------------------------------------------------------------------------
# reference algorithm (a Python mirror of scrapli's merge/lookup, with the matcher switchable);
# used ONLY to name the known-finding region a failing input belongs to
# ---------------------------------------------------------------------------------------------
def _rx(pat):
    return re.compile(re.escape(pat).replace(r"\*", "(.*)").replace(r"\?", "(.)"), re.I)


def ref_score(pat, text, anchored):
    if anchored:
        best = None
        for tok in (text.split() or [text]):
            sc = spec_score(pat, tok)
            if sc is not None and (best is None or sc < best):
                best = sc
        return best
    m = _rx(pat).search(text)
    if not m:
        return None
    return sum(e - s for s, e in m.regs[1:])


def ref_fuzzy(keys, text, anchored):
    cands = []
    for k in keys:
        for p in k.split():
            sc = ref_score(p, text, anchored)
            if sc is not None:
                cands.append((sc, k))
    cur = None
    for c in cands:
        if cur is None or c[0] < cur[0]:
            cur = c
    return cur[1] if cur is not None else "*"


def ref_lookup(entries, name, anchored):
    d = as_dict(entries)
    for k in list(d):
        cur = list(d)
        while True:
            fm = ref_fuzzy(cur or list(d), k, anchored)
            d[k] = fill(d[k], d[fm])
            if fm in cur:
                cur.remove(fm)
            else:
                break
    if name in d:
        return (name,) + tuple(d[name])
    for k in d:
        if name in k.split():
            return (k,) + tuple(d[k])
    fm = ref_fuzzy(list(d), name, anchored)
    return (fm,) + tuple(d[fm])


def classify(entries, name, impl):
    """('ok'|'tame-ok'|signature|None) for an implementation result"""
    want = spec_lookup(entries, name)
    ru = ref_lookup(entries, name, False)
    ra = ref_lookup(entries, name, True)
    tame = (ru == want and ra == want)
    if impl == want:
        return ("ok", tame, want)
    if impl == ru and ru != ra:
        return (SIG_UNANCHORED, tame, want)
    if impl == ru and ra != want:
        return (SIG_MERGE_TEXT, tame, want)
    return (None, tame, want)


# ---------------------------------------------------------------------------------------------
# generators
# ---------------------------------------------------------------------------------------------
WORDS = ["sw", "web", "core", "edge", "rtr", "host", "myhost", "my-host", "lab.host", "host1", "gw", "db",
         "leaf", "spine", "HOST", "ghost", "a-host-b", "user", "port", "hostname"]
DOMS = ["", "", ".lab", ".example.com", ".host.net", ".dc1.corp", ".host"]
META = ["sw[1]", "a+b", "x|y", "r(1)", "{a}", "a$b", "^c", "n[", "(p", "q)", "c++", "a{2", "b]", "[a-", "$", "sw.1+",
        "x**y", "a|", "((", "[z-a]", "m{2,1}"]
HOME_FILES = ["~/.ssh/id_rsa", "~/.ssh/mykey", "/etc/ssh/key_1", "keys/lab@corp", "~/k.pem", "/k-2/id_ed25519"]
USERS = ["carl", "bob", "admin", "netops", "user", "host", "u_1", "Root", "x9"]
HOSTNAMES = ["10.0.0.1", "sw1.lab.example.com", "core-1.dc1", "192.168.1.254", "host.example.org", "h_1", "a.b-c.d"]


def gen_name(rng, meta_ok=True):
    r = rng.random()
    if meta_ok and r < 0.08:
        return rng.choice(META)
    if r < 0.25:
        return "%d.%d.%d.%d" % (rng.choice([10, 172, 192]), rng.randint(0, 255), rng.randint(0, 9), rng.randint(1, 254))
    w = rng.choice(WORDS)
    if rng.random() < 0.7:
        w += str(rng.choice([1, 2, 3, 9, 10, 12, 99, 100]))
    if rng.random() < 0.15:
        w += "-" + rng.choice(["a", "b", "prod", "host"])
    return w + rng.choice(DOMS)


def wildcardize(rng, name):
    """turn a name into a pattern that still matches it"""
    kind = rng.choice(["prefix*", "prefix*", "suffix", "q", "q", "mid", "qq*", "*x*"])
    n = len(name)
    if n < 2:
        return rng.choice(["*", "?", name + "*"])
    if kind == "prefix*":
        i = rng.randint(1, n - 1)
        return name[:i] + "*"
    if kind == "suffix":
        i = rng.randint(1, n - 1)
        return "*" + name[i:]
    if kind == "q":
        i = rng.randint(0, n - 1)
        return name[:i] + "?" + name[i + 1:]
    if kind == "mid":
        i = rng.randint(1, n - 1)
        j = rng.randint(i, n - 1)
        return name[:i] + "*" + name[j:]
    if kind == "qq*":
        i = rng.randint(1, n - 1)
        return name[:i] + "?" * min(2, n - i) + ("*" if i + 2 < n else "")
    i = rng.randint(0, n - 1)
    j = rng.randint(i, n)
    return "*" + name[i:j] + "*" if j > i else "*"


def instantiate(rng, pat):
    out = []
    for c in pat:
        if c == "*":
            out.append(rng.choice(["", "1", "12", "x", "-a", ".lab", "host", "99.corp"]))
        elif c == "?":
            out.append(rng.choice("0123456789ab-."))
        else:
            out.append(c)
    return "".join(out)


def gen_opts(rng, dense=False):
    p = 0.75 if dense else 0.45
    hostname = rng.choice(HOSTNAMES) if rng.random() < p else None
    port = rng.choice([22, 2222, 1, 65535, 830, 8022, rng.randint(1, 65535)]) if rng.random() < p else None
    user = rng.choice(USERS) if rng.random() < p else ""
    idonly = rng.choice(["yes", "no", "YES", "No"]) if rng.random() < p * 0.6 else None
    idfile = rng.choice(HOME_FILES) if rng.random() < p else None
    return (hostname, port, user, idonly, idfile)


def gen_config(rng, family=None):
    """a structured config: list of (patterns, opts5) with distinct Host lines"""
    n = rng.choice([1, 2, 3, 3, 4, 5, 6, 8])
    entries, seen = [], set()
    base_names = [gen_name(rng) for _ in range(rng.randint(1, 4))]
    for _ in range(n):
        r = rng.random()
        base = rng.choice(base_names)
        if r < 0.40:
            pats = [base if rng.random() < 0.6 else gen_name(rng)]
            if rng.random() < 0.3:
                pats += [gen_name(rng) for _ in range(rng.randint(1, 2))]
        elif r < 0.85:
            pats = [wildcardize(rng, base)]
            if rng.random() < 0.15:
                pats.append(gen_name(rng))
        else:
            pats = [rng.choice(["*", "*", "?*", "*.*", "10.*", "??"])]
        pats = list(dict.fromkeys(pats))
        key = " ".join(pats)
        if key in seen:
            continue
        seen.add(key)
        entries.append((pats, gen_opts(rng)))
    if rng.random() < 0.7 and "*" not in seen:
        pos = len(entries) if rng.random() < 0.8 else rng.randint(0, len(entries))
        entries.insert(pos, (["*"], gen_opts(rng, dense=True)))
    return entries


def gen_lookup_names(rng, entries, k):
    names = []
    lits = [p for pats, _ in entries for p in pats if "*" not in p and "?" not in p]
    wilds = [p for pats, _ in entries for p in pats if "*" in p or "?" in p]
    for p in lits:
        names.append(p)
    for p in wilds:
        names.append(instantiate(rng, p))
        if rng.random() < 0.5:
            names.append(instantiate(rng, p))
    for p in lits[:3]:
        names.append(p.swapcase())
        if rng.random() < 0.5:
            names.append(p + rng.choice(["x", "1", "-prod", ".evil"]))       # superstring (finding region)
        if rng.random() < 0.3 and len(p) > 2:
            names.append(p[1:])
    names.append(gen_name(rng))
    names.append(rng.choice(["unknown.example.org", "zz9", "*", "h", "sw1", "10.0.0.1"]))
    names = list(dict.fromkeys(n for n in names if n and not any(c.isspace() for c in n)))
    rng.shuffle(names)
    keep = [p for p in lits if p in names][:2]
    return list(dict.fromkeys(keep + names[:k]))


KEYSPELL = {"host": ["Host", "host", "HOST", "hOsT"], "hostname": ["HostName", "Hostname", "hostname", "HOSTNAME"],
            "port": ["Port", "port", "PORT"], "user": ["User", "user", "USER", "uSER"],
            "identitiesonly": ["IdentitiesOnly", "identitiesonly", "IDENTITIESONLY"],
            "identityfile": ["IdentityFile", "identityfile", "IDENTITYFILE", "Identityfile"]}
COMMENTS = ["# lab devices", "#", "# managed by ansible -- do not edit", "#port 99", "  # user nobody", "# Host commented out",
            "# hostname old.example.com", "#host x", "# the host list below", "# see host\tnotes"]


def _kv(rng, key, val):
    sep = rng.choice([" ", " ", " ", "  ", "\t", "=", " = ", "= ", " ="])
    return rng.choice(KEYSPELL[key]) + sep + val


def render(rng, entries, plain=False):
    """text of the config; formatting choices from rng (plain: canonical formatting)"""
    out = []
    if not plain and rng.random() < 0.3:
        out.append(rng.choice(COMMENTS))
    for pats, (hostname, port, user, idonly, idfile) in entries:
        if plain:
            out.append("Host " + " ".join(pats))
        else:
            line = _kv(rng, "host", rng.choice([" ", "  ", "\t"]).join(pats) if len(pats) > 1 else pats[0])
            if rng.random() < 0.12:
                line += rng.choice([" # core", "  #x", " # the host", " #Host y"])
            out.append(rng.choice(["", "", "", " ", "\t"]) + line)
        opts = []
        if hostname is not None:
            opts.append(("hostname", hostname))
        if port is not None:
            opts.append(("port", str(port)))
        if user:
            opts.append(("user", user))
        if idonly is not None:
            opts.append(("identitiesonly", idonly))
        if idfile is not None:
            opts.append(("identityfile", idfile))
        if not plain:
            rng.shuffle(opts)
        ind = "  " if plain else rng.choice(["", " ", "  ", "    ", "\t", "\t\t"])
        for k, v in opts:
            if not plain and rng.random() < 0.12:
                out.append(rng.choice(["", "  "]) + rng.choice(COMMENTS))
            if not plain and rng.random() < 0.08:
                out.append("")
            out.append(ind + (("%s %s" % (KEYSPELL[k][0], v)) if plain else _kv(rng, k, v)))
        if not plain and rng.random() < 0.5:
            out.append("")
    text = "\n".join(out)
    if plain or rng.random() < 0.85:
        text += "\n"
    if not plain and rng.random() < 0.1:
        text += rng.choice(["\n", "\n\n", "  \n"])
    return text


def intended(entries):
    """[(key, values5)] the generator means (IdentityFile goes through expanduser)"""
    out = []
    for pats, (hostname, port, user, idonly, idfile) in entries:
        out.append((" ".join(pats), (hostname, port, user, idonly,
                                      os.path.expanduser(idfile) if idfile is not None else None)))
    return out


# ---- malformed / outside the grammar: model-vs-implementation only, no oracle ----
def gen_extra_text(rng):
    ents = gen_config(rng)
    text = render(rng, ents)
    kind = rng.choice(["unknown-kw", "trailing-ws", "crlf", "port0", "dup-host", "dup-opt", "global-opt", "garbage",
                       "trailing-comment", "match-block", "tabs-only", "no-newline-hostline"])
    lines = text.split("\n")
    if kind == "unknown-kw":
        for _ in range(rng.randint(1, 3)):
            lines.insert(rng.randint(0, len(lines)), "  " + rng.choice(
                ["ForwardAgent yes", "StrictHostKeyChecking no", "ProxyJump bastion", "HostKeyAlgorithms ssh-rsa",
                 "CheckHostIP no", "UserKnownHostsFile /dev/null", "Hostname", "User", "PubkeyAuthentication yes"]))
    elif kind == "trailing-ws":
        lines = [l + rng.choice(["", " ", "\t"]) for l in lines]
    elif kind == "crlf":
        return "\r\n".join(lines)
    elif kind == "port0":
        lines.insert(min(1, len(lines)), "  Port 0")
    elif kind == "dup-host" and ents:
        pats, _ = rng.choice(ents)
        lines += ["Host " + " ".join(pats), "  User dupuser", "  Port 77"]
    elif kind == "dup-opt":
        lines = [x for l in lines for x in ([l, l.replace("22", "23")] if "ort" in l.lower() and rng.random() < 0.7 else [l])]
    elif kind == "global-opt":
        lines = ["User globaluser", "Port 2200"] + lines
    elif kind == "garbage":
        for _ in range(rng.randint(1, 4)):
            lines.insert(rng.randint(0, len(lines)), "".join(rng.choice("host HOST=#*?\t u:er[]") for _ in range(rng.randint(1, 14))))
    elif kind == "trailing-comment":
        lines = [l + " # c" if l.strip() and not l.strip().startswith("#") and rng.random() < 0.5 else l for l in lines]
    elif kind == "match-block":
        lines += ["Match host foo", "  User matchuser"]
    elif kind == "tabs-only":
        lines = [l.replace(" ", "\t") for l in lines]
    elif kind == "no-newline-hostline":
        lines = [l for l in lines if l.strip()] + ["Host " + rng.choice(["sw*", "last.", "x-", "tail?", "*"])]
        return "\n".join(lines)
    return "\n".join(lines)


# ---- keyword-text family: the words host / match / hostname / port / user / identityfile where they are NOT a
# ---- directive (comments, values, longer keywords), decoration between an entry's directives, Match blocks ----
KW = ["host", "match", "match", "hostname", "port", "user", "identityfile"]
KW_CAMEL = {"host": "Host", "match": "Match", "hostname": "HostName", "port": "Port", "user": "User",
            "identityfile": "IdentityFile"}
KW_USERS = ["match", "Match", "MATCH", "matchbox", "host", "hostname", "port", "user", "identityfile", "host_match", "port22",
            "user_host", "rematch"]
KW_HOSTNAMES = ["match", "match.example.com", "host", "hostname", "port.user.lab", "host-match.lab", "identityfile.lab",
                "re-match.net", "user", "10.0.0.1-match"]
KW_FILES = ["~/.ssh/match", "~/.ssh/match_key", "/keys/match/host", "/etc/ssh/host", "~/.ssh/identityfile", "user/port",
            "~/.ssh/id_match", "/keys/user@host", "~/match/port/user", "match"]
KW_HOSTS = ["match", "match1", "Match", "MATCH", "rematch", "port", "user", "identityfile", "hostname", "match.lab"]
KW_UNKNOWN_REAL = ["HostKeyAlgorithms ssh-rsa", "HostKeyAlias match", "HostbasedAuthentication no", "UserKnownHostsFile /dev/null",
                   "UserKnownHostsFile ~/.ssh/match hosts", "HostKeyAlias=host", "CanonicalizeHostname yes",
                   "ProxyCommand ssh -W %h:%p match gw", "LocalCommand echo host = %h port %p user %r", "SetEnv MODE=match all",
                   "RemoteCommand show user port 22", "ProxyJump user@match", "ForwardAgent yes", "Compression yes",
                   "SendEnv MATCH USER HOST", "Tag match port", "PreferredAuthentications publickey"]
MATCH_CRITERIA = ["all", "host foo", "host *.lab,gw*", "user bob", "originalhost sw1", "final all", "localuser root host x",
                  "host=foo", "Host foo user bar", "canonical host *.corp", "host match"]
MATCH_VALUES = {"hostname": "match.invalid", "port": "7777", "user": "matchuser", "identitiesonly": "yes",
                "identityfile": "/keys/match_only"}
SIG_MATCH_LEAK = "c16-match-block-directives-leak"


def kw_spell(rng, w):
    r = rng.random()
    if r < 0.35:
        return w
    if r < 0.65:
        return KW_CAMEL[w]
    if r < 0.8:
        return w.upper()
    return "".join(c.upper() if rng.random() < 0.5 else c for c in w)


def kw_phrase(rng):
    """free text in which a keyword is followed by blank / tab / '=' (the callers make sure it does not start a line)"""
    pre = rng.choice(["", "", "no ", "see ", "old: ", "the ", "was ", "TODO ", "keep in sync so that they ", "1 "])
    sep = rng.choice([" ", " ", " ", "\t", "=", " = ", "  ", "\t\t"])
    tail = rng.choice(["all", "x", "22", "legacy kex", "bob", "~/.ssh/old", "foo bar", "*", "10.0.0.1", "sw* gw?", "yes", "the bastion setup"])
    return pre + kw_spell(rng, rng.choice(KW)) + sep + tail


def kw_comment(rng):
    text = kw_phrase(rng)
    if rng.random() < 0.25:
        text += rng.choice([" ", ", ", "; ", " # "]) + kw_phrase(rng)
    return rng.choice(["", "", " ", "  ", "\t", "    "]) + "#" + rng.choice(["", " ", " ", "  ", "\t", "#", "# "]) + text


def kw_unknown(rng):
    """a directive scrapli does not read: a real one, or a parsed keyword as the prefix of a longer keyword"""
    ind = rng.choice(["", " ", "  ", "    ", "\t"])
    if rng.random() < 0.5:
        return ind + rng.choice(KW_UNKNOWN_REAL)
    w = rng.choice(KW)
    kw = kw_spell(rng, w) + rng.choice(["s", "Alias", "KeyAlgorithms", "2", "_x", "-old", "File", "Name", "Exec", "x", "."])
    if kw.lower() in ("hostname", "identityfile"):
        kw += "s"
    return ind + kw + rng.choice([" ", " ", "\t", "=", " = "]) + rng.choice(["x", "22", "yes", "match all", "bob", "~/.ssh/k", "host x"])


def kw_decoration(rng):
    """0..3 lines that belong to no directive"""
    r = rng.random()
    if r < 0.30:
        return [kw_comment(rng)]
    if r < 0.42:
        return [rng.choice(["", "", " ", "\t"])] if rng.random() < 0.5 else [""] + [kw_comment(rng)]
    if r < 0.50:
        return [kw_comment(rng), "", kw_comment(rng)]
    if r < 0.56:
        return ["", "", kw_comment(rng)]
    if r < 0.72:
        return [kw_unknown(rng)]
    return []


def gen_kw_config(rng):
    """entries with most options set, values / host names that look like keywords"""
    base = gen_config(rng)
    seen = {" ".join(p) for p, _ in base}
    if rng.random() < 0.3:
        pats = [rng.choice(KW_HOSTS)] + ([gen_name(rng, meta_ok=False)] if rng.random() < 0.5 else [])
        if rng.random() < 0.3:
            pats.reverse()
        if " ".join(pats) not in seen:
            base.insert(rng.randint(0, len(base)), (pats, None))
    out = []
    for pats, _ in base:
        o = list(gen_opts(rng, dense=True))
        if o[0] is not None and rng.random() < 0.4:
            o[0] = rng.choice(KW_HOSTNAMES)
        if o[2] and rng.random() < 0.5:
            o[2] = rng.choice(KW_USERS)
        if o[4] is not None and rng.random() < 0.5:
            o[4] = rng.choice(KW_FILES)
        out.append((pats, tuple(o)))
    return out


def _match_block(rng, own, leak):
    """lines of a Match block; own = the option keys the preceding Host entry sets itself (None: no preceding entry).
    -> (lines, keys of parsed directives in the block)"""
    ind0 = rng.choice(["", "", "", " ", "\t"])
    lines = [ind0 + kw_spell(rng, "match") + rng.choice([" ", " ", "  ", "\t"]) + rng.choice(MATCH_CRITERIA)]
    if own is None or leak:
        allowed = list(MATCH_VALUES)
    else:
        allowed = [k for k in MATCH_VALUES if k in own]
    keys = []
    ind = rng.choice(["", " ", "  ", "    ", "\t"])
    for _ in range(rng.choice([0, 1, 1, 2, 3])):
        r = rng.random()
        if r < 0.55 and allowed:
            k = rng.choice(allowed)
            if k not in keys:
                keys.append(k)
                lines.append(ind + _kv(rng, k, MATCH_VALUES[k]))
        elif r < 0.75:
            lines.append(ind + rng.choice(KW_UNKNOWN_REAL))
        elif r < 0.9:
            lines.append(kw_comment(rng))
        else:
            lines.append("")
    if leak and own is not None and not [k for k in keys if k not in own]:
        missing = [k for k in MATCH_VALUES if k not in own]
        if missing:
            k = rng.choice(missing)
            keys.append(k)
            lines.append(ind + _kv(rng, k, MATCH_VALUES[k]))
    return lines, keys


OPT_INDEX = {"hostname": 0, "port": 1, "user": 2, "identitiesonly": 3, "identityfile": 4}


def render_kw(rng, entries, leak=False):
    """-> (text, alt_entries | None, feature set).  alt_entries (leak only): the structure in which the parsed
    directives of a Match block are read as directives of the preceding Host entry (known-finding region)."""
    out, feats = [], set()
    alt = []
    if rng.random() < 0.3:
        out.append(kw_comment(rng).lstrip())
        feats.add("comment-top")
    if rng.random() < 0.12:
        lines, _ = _match_block(rng, None, False)
        out += lines
        feats.add("match-top")
    n_match = 0
    for ei, (pats, (hostname, port, user, idonly, idfile)) in enumerate(entries):
        line = _kv(rng, "host", rng.choice([" ", "  ", "\t"]).join(pats) if len(pats) > 1 else pats[0])
        if rng.random() < 0.25:
            line += rng.choice([" #", "  # ", " #\t", "\t# "]) + kw_phrase(rng)
            feats.add("comment-hostline")
        out.append(rng.choice(["", "", "", " ", "\t"]) + line)
        opts = []
        if hostname is not None:
            opts.append(("hostname", hostname))
        if port is not None:
            opts.append(("port", str(port)))
        if user:
            opts.append(("user", user))
        if idonly is not None:
            opts.append(("identitiesonly", idonly))
        if idfile is not None:
            opts.append(("identityfile", idfile))
        rng.shuffle(opts)
        ind = rng.choice(["", " ", "  ", "    ", "\t", "\t\t"])
        for gi in range(len(opts) + 1):
            deco = kw_decoration(rng)
            if gi == 0 and not deco and opts and rng.random() < 0.5:
                deco = [kw_comment(rng)]
            for d in deco:
                feats.add("comment-own-line" if d.strip().startswith("#") else "blank-line" if not d.strip() else "longer-keyword")
            if len(deco) > 1 and not deco[0].strip():
                feats.add("comment-after-blank")
            out += deco
            if gi < len(opts):
                k, v = opts[gi]
                out.append(ind + _kv(rng, k, v))
                if any(w in v.lower() for w in ("match", "host", "port", "user", "identityfile")):
                    feats.add("keyword-in-value")
        own = {k for k, _ in opts}
        vals = [hostname, port, user, idonly, idfile]
        if rng.random() < (0.45 if n_match == 0 else 0.15):
            n_match += 1
            if rng.random() < 0.4:
                out.append("")
            lines, keys = _match_block(rng, own, leak)
            out += lines
            feats.add("match-after-last" if ei == len(entries) - 1 else "match-between")
            for k in keys:
                if k not in own:
                    feats.add("match-leak-region")
                    v = MATCH_VALUES[k]
                    vals[OPT_INDEX[k]] = int(v) if k == "port" else v
                    own.add(k)
        alt.append((pats, tuple(vals)))
        if rng.random() < 0.4:
            out.append("")
    text = "\n".join(out)
    if rng.random() < 0.85:
        text += "\n"
    return text, (alt if "match-leak-region" in feats else None), feats


KW_CORPUS = [
    ("# lab devices\n\nHost edge-rtr1\n    Port 2201\n    User edgeops\n\nHost core-sw1 core-sw1.example.net\n"
     "    # keep the settings below in sync so that they match the bastion setup\n    Port 2222\n    User netops\n"
     "    IdentityFile /keys/id_core\n\nHost *\n    User fallback\n",
     [(["edge-rtr1"], (None, 2201, "edgeops", None, None)),
      (["core-sw1", "core-sw1.example.net"], (None, 2222, "netops", None, "/keys/id_core")),
      (["*"], (None, None, "fallback", None, None))], ["core-sw1", "core-sw1.example.net", "edge-rtr1", "other"]),
    ("Host sw1\n  # no match for legacy kex\n  Port 2022\n\n  # user nobody, port 1\n  User matchbox\n  IdentityFile ~/.ssh/match_key\n"
     "Host sw*\n  HostKeyAlias match\n  UserKnownHostsFile ~/.ssh/match hosts\n  User match\n  Port 830\nHost *\n  User def\n  Port 22\n",
     [(["sw1"], (None, 2022, "matchbox", None, "~/.ssh/match_key")), (["sw*"], (None, 830, "match", None, None)),
      (["*"], (None, 22, "def", None, None))], ["sw1", "sw2", "other"]),
    ("Host match gw1 # the match host\n  User=match\n  HostName match.example.com\n  Port\t2222\n\nMatch host gw1\n  ForwardAgent yes\n"
     "  Port 7777\nHost gw*\n  IdentityFile /keys/match/host\n  #Match all\n  User gwuser\nmatch all\n  Compression yes\n",
     [(["match", "gw1"], ("match.example.com", 2222, "match", None, None)), (["gw*"], (None, None, "gwuser", None, "/keys/match/host"))],
     ["match", "gw1", "gw2", "foo"]),
    ("Match user bob\n  Port 9\n  User matchuser\nHost a\n  User x\n\n\n  # port = 1\n  Port 5\nMATCH\tfinal all\n  User matchuser\n",
     [(["a"], (None, 5, "x", None, None))], ["a", "bob", "b"]),
]


# ---------------------------------------------------------------------------------------------
# Coq terms
# ---------------------------------------------------------------------------------------------
def _ascii(s):
    return all(ord(c) < 128 for c in s)


def cq_s(s):
    return coq_bytes(s.encode("ascii"))


def cq_os(s):
    return "None" if s is None else "(Some %s)" % cq_s(s)


def cq_host(v):
    hostname, port, user, idonly, idfile = v
    return "(mkHost %s %s %s %s %s)" % (cq_os(hostname), "None" if port is None else "(Some %d)" % port,
                                        cq_s(user), cq_os(idonly), cq_os(idfile))


def cq_entry(k, v):
    return "(%s, %s)" % (cq_s(k), cq_host(v))


def representable(obs_list):
    for o in obs_list:
        if o[0] == "?other-attr-set":
            return False
        k, hostname, port, user, idonly, idfile = o
        for s in (k, hostname, user, idonly, idfile):
            if s is not None and (not isinstance(s, str) or not _ascii(s)):
                return False
        if port is not None and (not isinstance(port, int) or port < 0):
            return False
    return True


HEADER_M = """From Verif Require Import Bytes SshConfig.
Definition chk (c : list (bytes * host) * list (bytes * host) * list (bytes * (bytes * host))) : bool :=
  let '(es, merged, lks) := c in
  match build es with
  | Ok d => dict_eqb d merged
            && forallb (fun nl => match lookup d (fst nl) with Ok r => kh_eqb r (snd nl) | _ => false end) lks
  | _ => false
  end.
"""

HEADER_S = """From Verif Require Import Bytes SshConfig.
Definition chk (c : list (bytes * host) * list (bytes * option (bytes * host))) : bool :=
  let '(es, lks) := c in
  forallb (fun nl => match spec_lookup es (fst nl), snd nl with
                     | Some r, Some w => kh_eqb r w
                     | None, None => true
                     | _, _ => false end) lks.
"""

HEADER_C = """From Verif Require Import Bytes SshConfig SshConfig_Proofs.
Definition chk (c : list (bytes * host) * bytes) : bool := simple_cfg (fst c) (snd c).
"""

HEADER_K = """From Verif Require Import Bytes KnownHosts.
Definition okv (o : N * bytes * bytes) : kout :=
  let '(t, a, b) := o in if t =? 0 then KNone else if t =? 1 then KFound (mkK a b) else KRaise (t - 2).
Definition chk (c : list (bytes * kval) * list (bytes * bytes * bytes) * list (bytes * option bytes)
                   * list (bytes * kval) * list (bytes * (N * bytes * bytes))) : bool :=
  let '(lines, th, tb, dobs, lks) := c in
  let d := kparse lines in
  (fix deq (a b : kdict) : bool :=
     match a, b with [], [] => true
     | (k, v) :: a', (k', v') :: b' => beq k k' && kval_eqb v v' && deq a' b' | _, _ => false end) d dobs
  && forallb (fun nl => kout_eqb (klookup (fun s h => assoc2 s h th) (fun x => assoc1 x tb) d (fst nl)) (okv (snd nl))) lks.
"""


def term_m(parsed, merged, lookups):
    es = coq_list([cq_entry(o[0], o[1:]) for _, o in parsed])
    mg = coq_list([cq_entry(o[0], o[1:]) for _, o in merged])
    lk = coq_list(["(%s, %s)" % (cq_s(n), cq_entry(o[0], o[1:])) for n, o in lookups])
    return "(%s, %s, %s)" % (es, mg, lk)


def term_s(entries, wants):
    es = coq_list([cq_entry(k, v) for k, v in entries])
    lk = coq_list(["(%s, %s)" % (cq_s(n), "None" if w is None else "(Some %s)" % cq_entry(w[0], w[1:])) for n, w in wants])
    return "(%s, %s)" % (es, lk)


# ---------------------------------------------------------------------------------------------
# known_hosts
# ---------------------------------------------------------------------------------------------
KEYTYPES = ["ssh-rsa", "ssh-ed25519", "ecdsa-sha2-nistp256", "ssh-dss", "sk-ssh-ed25519@openssh.com"]


def hashed_id(host, salt):
    d = pyhmac.HMAC(salt, host.encode("utf-8"), "sha1").digest()
    return "|1|%s|%s" % (base64.b64encode(salt).decode(), base64.b64encode(d).decode())


def gen_known_hosts(rng, malformed=False):
    """lines: ('L', [ids], keytype, key) / ('C', text);  ids: ('P', name) | ('H', name, salt)"""
    n = rng.choice([0, 1, 2, 3, 5, 8])
    pool = [gen_name(rng, meta_ok=False) for _ in range(4)] + ["[%s]:%d" % (gen_name(rng, False), rng.choice([22, 2222, 830]))]
    lines = []
    for i in range(n):
        if rng.random() < 0.12:
            lines.append(("C", rng.choice(["# comment", "", "#", "   "])))
        r = rng.random()
        ids = []
        if r < 0.45:
            ids = [("P", rng.choice(pool) if rng.random() < 0.7 else gen_name(rng, False))]
        elif r < 0.7:
            ids = [("P", x) for x in dict.fromkeys(rng.choice(pool) if rng.random() < 0.5 else gen_name(rng, False)
                                                  for _ in range(rng.randint(2, 4)))]
        else:
            ids = [("H", rng.choice(pool) if rng.random() < 0.7 else gen_name(rng, False),
                    bytes(rng.randint(0, 255) for _ in range(rng.choice([20, 20, 20, 8, 1]))))]
        key = base64.b64encode(bytes(rng.randint(0, 255) for _ in range(rng.choice([12, 33, 51])))).decode()
        lines.append(("L", ids, rng.choice(KEYTYPES), key))
    if malformed:
        for _ in range(rng.randint(1, 3)):
            kind = rng.choice(["short-hash", "bad-b64", "long-hash", "four-fields", "one-field", "marker", "two-spaces"])
            key = "AAAAB3Nza" + str(rng.randint(0, 99))
            if kind == "short-hash":
                raw = "|1|c2FsdA== ssh-rsa " + key
            elif kind == "bad-b64":
                raw = "|1|abc|def ssh-rsa " + key
            elif kind == "long-hash":
                raw = "|1|c2FsdA==|c2FsdA==|x ssh-rsa " + key
            elif kind == "four-fields":
                raw = "%s ssh-rsa %s user@box" % (gen_name(rng, False), key)
            elif kind == "one-field":
                raw = gen_name(rng, False)
            elif kind == "marker":
                raw = "@revoked %s ssh-rsa %s" % (gen_name(rng, False), key)
            else:
                raw = "%s  ssh-rsa %s" % (gen_name(rng, False), key)
            lines.insert(rng.randint(0, len(lines)), ("R", raw))
    return lines


def render_known_hosts(rng, lines):
    out = []
    for l in lines:
        if l[0] == "C":
            out.append(l[1])
        elif l[0] == "R":
            out.append(l[1])
        else:
            ids = ",".join(i[1] if i[0] == "P" else hashed_id(i[1], i[2]) for i in l[1])
            out.append("%s%s%s%s%s" % (ids, rng.choice([" ", " ", "\t"]), l[2], rng.choice([" ", " ", "\t"]), l[3]))
    return "\n".join(out) + ("\n" if out and rng.random() < 0.9 else "")


def kh_spec(lines, name):
    """the key recorded for that host: plainly (last line naming it), else hashed (first recorded line
    whose salted HMAC of the name is the recorded digest); nothing otherwise"""
    plain = None
    for l in lines:
        if l[0] == "L":
            for i in l[1]:
                if i[0] == "P" and i[1] == name:
                    plain = ("FOUND", l[2], l[3])
    if plain:
        return plain
    for l in lines:
        if l[0] == "L":
            for i in l[1]:
                if i[0] == "H" and pyhmac.compare_digest(pyhmac.HMAC(i[2], i[1].encode(), "sha1").digest(),
                                                         pyhmac.HMAC(i[2], name.encode(), "sha1").digest()):
                    return ("FOUND", l[2], l[3])
    return ("NONE",)


def kh_term(host_field_lines, dobs, lookups, names):
    """tables: hmac for every (decoded salt, looked-up name); b64dec for every piece of every |1| id"""
    th, tb = {}, {}
    for hid, _, _ in dobs:
        if hid.startswith("|1|"):
            parts = hid.split("|")
            for piece in parts:
                try:
                    tb[piece] = base64.b64decode(piece)
                except Exception:  # noqa
                    tb[piece] = None
            if len(parts) == 4 and tb[parts[2]] is not None:
                for n in names:
                    th[(tb[parts[2]], n)] = pyhmac.HMAC(tb[parts[2]], n.encode("utf-8"), "sha1").digest()
    lines = coq_list(["(%s, mkK %s %s)" % (cq_s(f), cq_s(t), cq_s(k)) for f, t, k in host_field_lines])
    thc = coq_list(["(%s, %s, %s)" % (coq_bytes(s), cq_s(n), coq_bytes(v)) for (s, n), v in th.items()])
    tbc = coq_list(["(%s, %s)" % (cq_s(p), "None" if v is None else "(Some %s)" % coq_bytes(v)) for p, v in tb.items()])
    dc = coq_list(["(%s, mkK %s %s)" % (cq_s(i), cq_s(t), cq_s(k)) for i, t, k in dobs])

    def ob(o):
        if o[0] == "NONE":
            return "(0, [], [])"
        if o[0] == "FOUND":
            return "(1, %s, %s)" % (cq_s(o[1]), cq_s(o[2]))
        return "(%d, [], [])" % (2 if o[1] == "ValueError" else 3 if o[1] == "Error" else 9)
    lk = coq_list(["(%s, %s)" % (cq_s(n), ob(o)) for n, o in lookups])
    return "(%s, %s, %s, %s, %s)" % (lines, thc, tbc, dc, lk)


# ---------------------------------------------------------------------------------------------
# the run
# ---------------------------------------------------------------------------------------------
def _capped(rep, klass, cap=3):
    """record at most [cap] violations per class (every failure is still counted in the statistics)"""
    seen = rep.coverage.setdefault("violation_classes", {})
    seen[klass] = seen.get(klass, 0) + 1
    return seen[klass] > cap


def _intended_any(entries):
    return intended(entries) if entries and isinstance(entries[0][0], list) else entries


def classify_alt(ents, name, impl, alt):
    """classify; a result no listed region explains that is exactly the specification's answer on [alt] (the Match
    blocks' directives read as the preceding Host entry's) lies in the Match-block known-finding region"""
    sig, tame, want = classify(ents, name, impl)
    if sig is None and alt and classify(_intended_any(alt), name, impl)[0] is not None:
        sig = SIG_MATCH_LEAK        # (the answer on [alt], or one of the two older regions' answers on [alt])
    return sig, tame, want


def check_pair(rep, text, entries, name, impl, stats, where, alt=None):
    """oracle on one (config, name): returns True when the implementation is right"""
    ents = _intended_any(entries)
    if isinstance(impl, tuple) and impl and impl[0] == "EXC":
        stats["raised"] += 1
        if _capped(rep, "lookup-raised:" + impl[1]):
            return False
        rep.violation("SSHConfig.lookup(%r) raised %s" % (name, impl[1]),
                      {"suite": "sshconfig-roundtrip", "kind": "ssh_config", "text": text, "entries": ents, "name": name,
                       "want": spec_lookup(ents, name), "got": list(impl), "where": where})
        return False
    sig, tame, want = classify_alt(ents, name, impl, alt)
    stats["tame_pairs" if tame else "region_pairs"] += 1
    if sig == "ok":
        return True
    stats["mismatch_" + (sig or "unexplained")] = stats.get("mismatch_" + (sig or "unexplained"), 0) + 1
    if _capped(rep, "lookup-wrong:" + (sig or "unexplained"), cap=4):
        return False
    rep.violation("ssh config lookup of %r returned %r, the entry for that host is %r (%s)" % (
        name, impl, want, sig or "not explained by a known finding"),
        {"suite": "sshconfig-roundtrip", "kind": "ssh_config", "text": text, "entries": ents, "name": name,
         "want": want, "got": list(impl) if impl else impl, "where": where, "signature": sig,
         "alt_entries": _intended_any(alt) if alt else None}, signature=sig)
    return False


def _load_finding(path):
    p = path if os.path.isabs(path) else os.path.join(common.VERIF, path)
    return json.load(open(p))


def _entries_from_json(ents):
    return [(k, tuple(v)) for k, v in ents]


def replay_case(r):
    """-> (holds, got, want)"""
    if r.get("kind") == "known_hosts":
        res = real_known_hosts(r["text"], [r["name"]])
        got = list(res["lookups"].get(r["name"], ("EXC", res["construct_exc"])))
        return got == list(r["want"]), got, r["want"]
    res = real_config(r["text"], [r["name"]])
    if res["construct_exc"] and res["merged"] is None:
        return False, ["EXC", res["construct_exc"]], r["want"]
    got = res["lookups"][r["name"]]
    want = r["want"]
    return list(got) == list(want), list(got), want


def run(rep):
    from gen import gen_sshconfig

    rng = rep.rng
    thorough = rep.tier == "thorough"
    # 1. regenerate from the source
    info = {}
    try:
        _, info = gen_sshconfig.generate(rep.workdir)
        rc, out, _ = common.coqc(os.path.join(rep.workdir, "Gen_SshConfig.v"), rep.workdir)
        if rc:
            rep.broken.append("Gen_SshConfig.v")
            rep.notes.append(out[-2000:])
    except Exception as e:  # translator aborted: broken tie
        rep.broken.append("gen_sshconfig:%s" % (str(e)[:300],))
    # 2. proofs
    ok, _ = rep.build_static()
    rep.add_static_obligations("props/C16.v", ok)
    if not ok:
        rep.broken.append("static-build")
    if ok and not any(b.startswith("gen_sshconfig") or b == "Gen_SshConfig.v" for b in rep.broken):
        rep.compile_props("props/C16.v")
    elif ok:
        rep.obligations += [("C16.v", "(not compiled: generator aborted)")]

    stats = {"configs": 0, "tame_pairs": 0, "region_pairs": 0, "raised": 0, "construct_raised": 0, "parse_mismatch": 0,
             "entries_hist": {}, "wildcard_entries": 0, "list_entries": 0, "metachar_names": 0, "host_word_names": 0,
             "extra_texts": 0, "extra_kinds_construct_exc": {}, "chosen_kind": {"exact": 0, "wildcard": 0, "default": 0}}
    # 2b. replay the listed findings first
    for f in rep.findings:
        if not f.get("replay"):
            continue
        try:
            r = _load_finding(f["replay"])
            holds, got, want = replay_case(r)
        except Exception as e:  # noqa
            rep.notes.append("finding %s could not be replayed: %r" % (f["id"], e))
            continue
        if f.get("kind") == "known":
            if not holds:
                sig = None
                if r.get("kind") != "known_hosts":
                    sig = classify_alt(_entries_from_json(r["entries"]), r["name"], tuple(got),
                                       _entries_from_json(r["alt_entries"]) if r.get("alt_entries") else None)[0]
                if sig == f.get("signature") or r.get("kind") == "known_hosts":
                    rep.known(f["signature"])
                else:
                    rep.violation("known finding %s now fails differently: got %r want %r" % (f["id"], got, want), r)
            else:
                rep.notes.append("known finding %s no longer reproduces (property holds on its replay)" % f["id"])
        elif not holds:
            rep.violation("regression of fixed finding %s: got %r want %r" % (f["id"], got, want), r)
        rep.case(("finding", f["id"]))

    # 3. ssh config: grammar stream
    n_cfg = 2500 if thorough else 260
    per_cfg = 8 if thorough else 7
    terms_m, cases_m, terms_s, cases_s = [], [], [], []
    corpus = [
        ([(["1.2.3.4", "someswitch1"], ("someswitch1.bogus.com", 1234, "carl", "yes", "~/.ssh/mysshkey")),
          (["someswitch?"], ("someswitch1.bogus.com", 1234, "notcarl", "yes", "~/.ssh/mysshkey")),
          (["scrapli"], (None, None, "scrapli", None, None)),
          (["*"], (None, None, "somebodyelse", None, "~/.ssh/lastresortkey"))], ["someswitch1", "someswitch2", "scrapli", "other", "1.2.3.4"]),
        ([(["my-host"], (None, 22, "bob", None, None)), (["*"], ("gw.lab", None, "def", None, "/k"))], ["my-host", "other"]),
        ([(["a[b"], (None, None, "bob", None, None)), (["c++", "x|y"], (None, 830, "", None, None))], ["a[b", "c++", "x|y", "x", "zz"]),
        ([(["sw*"], (None, None, "u1", None, None)), (["sw1*"], (None, 22, "", None, None)), (["*"], ("h.lab", None, "", "no", "/k"))],
         ["sw1", "sw12", "sw2", "sw"]),
        ([(["lab.host"], (None, None, "host", None, None)), (["host"], ("host", 1, "", None, None))], ["lab.host", "host", "HOST"]),
        ([], ["anything", "*"]),
        ([(["core1.dc1.corp"], ("10.0.0.1", None, "", None, None)), (["*.dc1.corp"], (None, 2222, "netops", "yes", None)),
          (["*"], (None, None, "admin", None, "~/.ssh/id_rsa"))], ["core1.dc1.corp", "edge9.dc1.corp", "edge9.dc2.corp"]),
    ]
    work = [(e, n, True) for e, n in corpus]
    # raw-text corpus: end-of-file shapes and 'host' words the block splitter has to survive
    raw_corpus = [
        ("Host sw1\n  User bob\n  IdentityFile ~/k.pem  \n", [(["sw1"], (None, None, "bob", None, "~/k.pem"))], ["sw1"]),
        ("Host sw1\n  User bob\n  Port 22", [(["sw1"], (None, 22, "bob", None, None))], ["sw1"]),
        ("Host sw1\n  HostName sw1.lab.\n\n\n", [(["sw1"], ("sw1.lab.", None, "", None, None))], ["sw1"]),
        ("Host s*\n  User u\nHost sw*\n", [(["s*"], (None, None, "u", None, None)), (["sw*"], (None, None, "", None, None))], ["sw1", "s1"]),
        ("# host list\nHost a-host\n  # the host \n  User host\n  HostName host\nHost host\n  Port 22\n",
         [(["a-host"], ("host", None, "host", None, None)), (["host"], (None, 22, "", None, None))], ["a-host", "host", "zz"]),
        ("host=x\nuser=bob\nHOST\ty z\nPORT=1\n", [(["x"], (None, None, "bob", None, None)), (["y", "z"], (None, 1, "", None, None))], ["x", "y", "z"]),
    ]
    for _ in range(n_cfg):
        e = gen_config(rng)
        work.append((e, gen_lookup_names(rng, e, per_cfg), False))
    work = [(e, n, t) for t, e, n in raw_corpus] + work
    work = [(e, n, t, None) for e, n, t in work]
    # keyword-text family (own generator stream derived from the seed: the streams above / below stay what they were)
    krng = random.Random(rep.seed * 7919 + 1601)
    n_kw = 1200 if thorough else 130
    stats["kw_family"] = {"configs": 0, "features": {}, "leak_region_configs": 0}
    for t, e, n in KW_CORPUS:
        work.append((e, n, t, {"alt": None, "feats": {"corpus"}}))
    for i in range(n_kw):
        e = gen_kw_config(krng)
        t, alt, feats = render_kw(krng, e, leak=(i % 3 == 2))     # Match blocks setting options the preceding entry leaves unset (fixed finding: generated again)
        n = gen_lookup_names(krng, e, per_cfg) + [krng.choice(["foo", "bob", "match", "matchuser", "gw1", "x"])]
        work.append((e, list(dict.fromkeys(n)), t, {"alt": alt, "feats": feats}))
    for ci, (entries, names, is_corpus, kw) in enumerate(work):
        text = is_corpus if isinstance(is_corpus, str) else render(rng, entries, plain=(ci % 5 == 0 and not is_corpus))
        ents = intended(entries)
        alt = kw["alt"] if kw else None
        if kw:
            stats["kw_family"]["configs"] += 1
            stats["kw_family"]["leak_region_configs"] += alt is not None
            for ft in sorted(kw["feats"]):
                stats["kw_family"]["features"][ft] = stats["kw_family"]["features"].get(ft, 0) + 1
        stats["configs"] += 1
        stats["entries_hist"][len(entries)] = stats["entries_hist"].get(len(entries), 0) + 1
        for pats, _ in entries:
            stats["wildcard_entries"] += any("*" in p or "?" in p for p in pats)
            stats["list_entries"] += len(pats) > 1
            stats["metachar_names"] += any(c in "[](){}+|^$" for p in pats for c in p)
            stats["host_word_names"] += any("host" in p.lower() for p in pats)
        res = real_config(text, names)
        if res["construct_exc"] and res["merged"] is None:
            stats["construct_raised"] += 1
            rep.case(("cfg", text, "construct"))
            if _capped(rep, "construct-raised:" + res["construct_exc"]):
                continue
            rep.violation("SSHConfig(file) raised %s on a file of the supported grammar" % res["construct_exc"],
                          {"suite": "sshconfig-roundtrip", "kind": "ssh_config", "text": text, "entries": ents,
                           "name": names[0] if names else "x", "want": spec_lookup(ents, names[0] if names else "x"),
                           "got": ["EXC", res["construct_exc"]], "where": "construct"})
            continue
        # (P) parse correspondence: the real _parse() output is the generator's structure
        parsed_ok = res["parsed"] is not None and [(k, o[1:]) for k, o in res["parsed"]] == [(k, v) for k, v in ents] \
            and all(k == o[0] for k, o in res["parsed"])
        parse_leak = False
        if not parsed_ok and alt and res["parsed"] is not None and rep.known_match(SIG_MATCH_LEAK) is not None \
                and [(k, o[1:]) for k, o in res["parsed"]] == [(k, v) for k, v in intended(alt)]:
            # known-finding region: the Match blocks' directives were read as the preceding entry's, nothing else differs
            parsed_ok = parse_leak = True
            stats["kw_family"]["parse_is_leak_structure"] = stats["kw_family"].get("parse_is_leak_structure", 0) + 1
            rep.known(SIG_MATCH_LEAK)
        if not parsed_ok:
            stats["parse_mismatch"] += 1
            rep.notes.append("parse mismatch: text=%r parsed=%r intended=%r" % (text, res["parsed"], ents))
        any_bad = False
        for n in names:
            impl = res["lookups"][n]
            good = check_pair(rep, text, entries, n, impl, stats, "keyword-text" if kw else "grammar", alt=alt)
            any_bad = any_bad or not good
            want = spec_lookup(ents, n)
            kind = "default" if want[0] == "*" and not any(p == "*" for pats, _ in entries for p in pats) else \
                "exact" if (n == want[0] or n in want[0].split()) else "wildcard" if want[0] != "*" else "default"
            stats["chosen_kind"][kind] += 1
            rep.case(("cfg", text, n), nontrivial=(want[0] != "*"))
        if not parsed_ok:
            # the parse differs: look for a name that shows it (every listed name, every pattern instantiated)
            found = False
            extra = [p for k, _ in ents for p in k.split()] + [k for k, _ in (res["parsed"] or [])]
            extra += [instantiate(rng, p) for k, _ in ents for p in k.split() if "*" in p or "?" in p]
            for n in dict.fromkeys(extra):
                if n in res["lookups"] or not n or any(c.isspace() for c in n):
                    continue
                r2 = real_config(text, [n])
                got = r2["lookups"].get(n, ("EXC", r2["construct_exc"]))
                sig = classify_alt(ents, n, got, alt)[0] if got[0] != "EXC" else None
                if sig is None:
                    check_pair(rep, text, entries, n, got, stats, "parse-search", alt=alt)
                    found = True
                    break
            if not found:
                rep.broken.append("correspondence sshconfig-roundtrip (P): _parse() differs from the generated structure")
        if ci < 3 or (ci == 40):
            rep.sample({"file": text, "lookups": {n: list(res["lookups"][n]) for n in names[:3]}})
        # (M) model correspondence on the real _parse() output
        #     (quick tier: every second file of the keyword-text family -- the model starts after the parse)
        if res["parsed"] is not None and (thorough or not kw or ci % 2 == 0) \
                and representable([o for _, o in res["parsed"]] + [o for _, o in res["merged"]]
                                  + [o for o in res["lookups"].values() if o and o[0] != "EXC"]):
            lks = [(n, o) for n, o in res["lookups"].items() if o[0] != "EXC" and _ascii(n)]
            terms_m.append(term_m(res["parsed"], res["merged"], lks))
            cases_m.append({"text": text, "entries": ents, "names": [n for n, _ in lks], "stream": "keyword-text" if kw else "grammar"})
        # (S) python oracle == Coq spec_lookup
        terms_s.append(term_s(ents, [(n, spec_lookup(ents, n)) for n in names]))
        cases_s.append({"entries": ents, "names": names})

    # 3b. outside the grammar: implementation vs model only (and: lookup never raises once constructed)
    n_extra = 700 if thorough else 90
    for _ in range(n_extra):
        text = gen_extra_text(rng)
        names = [gen_name(rng) for _ in range(3)] + ["dupuser", "foo", "*"]
        res = real_config(text, names)
        stats["extra_texts"] += 1
        rep.case(("extra", text))
        if res["construct_exc"]:
            stats["extra_kinds_construct_exc"][res["construct_exc"]] = stats["extra_kinds_construct_exc"].get(res["construct_exc"], 0) + 1
            continue
        for n, o in res["lookups"].items():
            if o[0] == "EXC":
                rep.violation("SSHConfig.lookup(%r) raised %s" % (n, o[1]),
                              {"suite": "sshconfig-roundtrip", "kind": "ssh_config", "text": text, "entries": [], "name": n,
                               "want": None, "got": list(o), "where": "extra"})
        if res["parsed"] is not None and representable([o for _, o in res["parsed"]] + [o for _, o in res["merged"]]
                                                       + [o for o in res["lookups"].values() if o[0] != "EXC"]):
            lks = [(n, o) for n, o in res["lookups"].items() if o[0] != "EXC"]
            terms_m.append(term_m(res["parsed"], res["merged"], lks))
            cases_m.append({"text": text, "entries": None, "names": [n for n, _ in lks], "stream": "extra"})

    # how many of the explored (file, name) pairs lie in the class of lookup_refines_spec_partial
    terms_c = []
    for cs in cases_s[: (600 if thorough else 150)]:
        for n in cs["names"][:4]:
            terms_c.append("(%s, %s)" % (coq_list([cq_entry(k, v) for k, v in cs["entries"]]), cq_s(n)))
    not_simple, _ = common.eval_cases(rep.workdir, "cases_c16c", HEADER_C, terms_c, "chk", shard=200)
    stats["pairs_checked_for_partial_theorem_class"] = len(terms_c)
    stats["pairs_in_partial_theorem_class"] = None if not_simple is None else len(terms_c) - len(not_simple)
    bad_m, log_m = common.eval_cases(rep.workdir, "cases_c16m", HEADER_M, terms_m, "chk", shard=(120 if thorough else 90))
    bad_s, log_s = common.eval_cases(rep.workdir, "cases_c16s", HEADER_S, terms_s, "chk", shard=(200 if thorough else 100))

    # 4. known_hosts
    kstats = {"files": 0, "lookups": 0, "plain": 0, "comma": 0, "hashed": 0, "malformed_files": 0, "raised": 0}
    terms_k, cases_k = [], []
    n_kh = 900 if thorough else 120
    for i in range(n_kh):
        malformed = (i % 5 == 4)
        lines = gen_known_hosts(rng, malformed)
        text = render_known_hosts(rng, lines)
        recorded = [x[1] for l in lines if l[0] == "L" for x in l[1]]
        names = list(dict.fromkeys(recorded + [gen_name(rng, False) for _ in range(2)] + [n.upper() for n in recorded[:1]]
                                   + [n + "x" for n in recorded[:1]] + [",".join(recorded[:2])] if recorded else ["a", "b"]))
        names = [n for n in names if n]
        res = real_known_hosts(text, names)
        kstats["files"] += 1
        kstats["malformed_files"] += malformed
        for l in lines:
            if l[0] == "L":
                kstats["comma"] += len(l[1]) > 1
                kstats["plain"] += sum(1 for x in l[1] if x[0] == "P")
                kstats["hashed"] += sum(1 for x in l[1] if x[0] == "H")
        if res["construct_exc"]:
            rep.violation("SSHKnownHosts(file) raised %s" % res["construct_exc"],
                          {"suite": "sshconfig-roundtrip", "kind": "known_hosts", "text": text, "name": names[0], "want": list(kh_spec(lines, names[0])),
                           "got": ["EXC", res["construct_exc"]]})
            continue
        for n in names:
            kstats["lookups"] += 1
            got = res["lookups"][n]
            rep.case(("kh", text, n), nontrivial=n in recorded)
            if got[0] == "EXC":
                kstats["raised"] += 1
            if not malformed:
                want = kh_spec(lines, n)
                if tuple(got) != tuple(want):
                    kstats["oracle_failures"] = kstats.get("oracle_failures", 0) + 1
                    if _capped(rep, "known-hosts-wrong"):
                        continue
                    rep.violation("known_hosts lookup of %r returned %r, recorded for that host: %r" % (n, got, want),
                                  {"suite": "sshconfig-roundtrip", "kind": "known_hosts", "text": text, "name": n,
                                   "want": list(want), "got": list(got)})
        if i < 2:
            rep.sample({"known_hosts": text, "lookups": {n: list(res["lookups"][n]) for n in names[:3]}})
        if all(_ascii(n) for n in names) and _ascii(text):
            if malformed:
                hf = [(hid, t, k) for hid, t, k in res["hosts"]]        # lookup only (dict as the code built it)
            else:
                hf = [(",".join(x[1] if x[0] == "P" else hashed_id(x[1], x[2]) for x in l[1]), l[2], l[3]) for l in lines if l[0] == "L"]
            terms_k.append(kh_term(hf, res["hosts"], [(n, res["lookups"][n]) for n in names], names))
            cases_k.append({"text": text, "names": names, "malformed": malformed})
    bad_k, log_k = common.eval_cases(rep.workdir, "cases_c16k", HEADER_K, terms_k, "chk", shard=100)

    # 5. histories on the per-path cache of parsed files (ssh_config_factory): direct lookups and driver constructions
    #    (last, so that the streams above are the same inputs as before for a given seed)
    terms_h, cases_h = c16_cache.run_suite(rep, stats)
    bad_h, log_h = common.eval_cases(rep.workdir, "cases_c16h", c16_cache.HEADER_H, terms_h, "chk", shard=12)

    rep.coverage["correspondence"] = {
        "suite": "sshconfig-roundtrip",
        "model_cases_ssh_config": len(terms_m), "model_disagreements_ssh_config": None if bad_m is None else len(bad_m),
        "spec_cases": len(terms_s), "oracle_vs_coq_spec_disagreements": None if bad_s is None else len(bad_s),
        "model_cases_cache_histories": len(terms_h), "model_disagreements_cache_histories": None if bad_h is None else len(bad_h),
        "model_cases_known_hosts": len(terms_k), "model_disagreements_known_hosts": None if bad_k is None else len(bad_k),
        "distribution": stats, "known_hosts_distribution": kstats}
    rep.coverage["generated_from"] = common.source_hashes(SOURCES)
    rep.coverage["generated"] = info
    rep.rule = ("configs = 1..8 Host blocks (literal names incl. ones containing 'host' and regex metacharacters, host lists, * ? patterns "
                "derived from the names, Host * anywhere or absent), options in random order / key case / separators / indentation, comment "
                "and blank lines; looked-up names = listed names, case variants, instantiations of the patterns, super/substrings, unknown "
                "names; a pair is 'tame' when scrapli's algorithm with whole-name matching and the specification agree (the oracle is strict "
                "there), otherwise it lies in a known-finding region and a mismatch must be exactly the reference algorithm's answer; "
                "non-trivial = the name is matched by an entry other than the default Host *; distinct = (file text, name). "
                "keyword-text family (own stream): the same structures with most options set, rendered with the words host / match / hostname / port / "
                "user / identityfile (any case, followed by blank / tab / =) inside comments (own line, after blank lines, after the Host line's names), "
                "inside values and host names (match, matchbox, ~/.ssh/match_key, Host match gw1), as prefixes of longer keywords (HostKeyAlias, "
                "UserKnownHostsFile, Ports, MatchExec) and inside the values of directives scrapli does not read; comment / blank / white-space lines "
                "before, between and after an entry's directives; Match blocks before the first, between and after Host entries whose parsed "
                "directives are ones the preceding entry sets itself (1 file in 12: any directive = the Match-block known-finding region, where a "
                "mismatch must be exactly the answer on the structure with those directives read as the preceding entry's); 4 fixed files. "
                "known_hosts: plain / comma-listed / hashed ids, recorded and unrecorded names; malformed lines: model only. "
                "cache histories: 1-2 generated files (most entries set port / user / identity file) at fresh paths, 3-9 operations (55% driver construction: "
                "BaseDriver / Driver+paramiko / AsyncDriver+asyncssh, each of port / user / key explicit or omitted; 35% lookup through the factory; 10% lookup on a "
                "new parse), names mostly tame, 40% the same host again, two instantiations of wildcard entries; a dump of every cached entry closes each history")
    if stats["tame_pairs"] < 5 * max(1, stats["region_pairs"]) // 10:
        rep.notes.append("generator drift: only %d tame pairs for %d region pairs" % (stats["tame_pairs"], stats["region_pairs"]))

    # correspondence verdicts
    if bad_s is None:
        rep.broken.append("oracle-vs-spec evaluation failed")
        rep.notes.append(log_s)
    elif bad_s:
        rep.broken.append("the Python oracle and Coq's spec_lookup disagree (harness or specification drift)")
        rep.notes.append("first: %r" % (cases_s[bad_s[0]],))
    if bad_k is None:
        rep.broken.append("correspondence known_hosts (model evaluation failed)")
        rep.notes.append(log_k)
    elif bad_k:
        rep.broken.append("correspondence known_hosts: model differs from implementation")
        rep.notes.append("first: %r" % (cases_k[bad_k[0]],))
        # search: the oracle over the recorded names of the disagreeing files was already run above
    if bad_h is None:
        rep.broken.append("correspondence sshconfig-cache-history (model evaluation failed)")
        rep.notes.append(log_h)
    elif bad_h:
        # the oracle ran on every operation of these histories already (a failure there is a VIOLATION line)
        rep.broken.append("correspondence sshconfig-cache-history: model (cache as state, no writer) differs from "
                          "implementation on %d histories" % len(bad_h))
        rep.notes.append("first: %r" % (cases_h[bad_h[0]],))
    if bad_m is None:
        rep.broken.append("correspondence sshconfig-roundtrip (M) (model evaluation failed)")
        rep.notes.append(log_m)
    elif bad_m:
        rep.broken.append("correspondence sshconfig-roundtrip (M): model differs from implementation on %d files" % len(bad_m))
        rep.notes.append("first disagreements: %r" % ([cases_m[i] for i in bad_m[:2]],))
        if not rep.violations:
            search_near(rep, rng, [cases_m[i] for i in bad_m[:4]], stats)


def search_near(rep, rng, cases, stats):
    """the model and the implementation disagree while the oracle was satisfied: look for a failing
    input of the property near the disagreement (sub-configs, every listed name, instantiations)"""
    for c in cases:
        ents = c.get("entries")
        if not ents:
            continue
        entries = [(k.split(), v) for k, v in ents]
        subs = [entries] + [entries[:i] + entries[i + 1:] for i in range(len(entries))]
        for sub in subs:
            sub_i = [(" ".join(p), v) for p, v in sub]
            text = render(rng, [(p, (v[0], v[1], v[2], v[3], None if v[4] is None else v[4])) for p, v in sub], plain=True)
            names = gen_lookup_names(rng, sub, 12)
            res = real_config(text, names)
            if res["construct_exc"]:
                continue
            for n in names:
                sig, tame, want = classify(sub_i, n, res["lookups"][n])
                if sig != "ok" and tame:
                    rep.violation("ssh config lookup of %r returned %r, the entry for that host is %r" % (n, res["lookups"][n], want),
                                  {"suite": "sshconfig-roundtrip", "kind": "ssh_config", "text": text, "entries": sub_i, "name": n,
                                   "want": want, "got": list(res["lookups"][n]), "where": "search-near"})
                    return True
    return False


def replay(path):
    r = json.load(open(path))
    if r.get("kind") == "ssh_config_history":
        return 0 if c16_cache.replay_history(r) else 1
    if "text" not in r:
        print("nothing to replay (no concrete input): %s" % r.get("what"))
        return 1
    holds, got, want = replay_case(r)
    print("file:\n" + r["text"])
    print("lookup(%r)" % r["name"])
    print("returned:", got)
    print("expected:", want)
    print("property holds on this input" if holds else "property FAILS on this input")
    return 0 if holds else 1


MANIFEST = {
    "text": "Coq theorems (props/C16.v, axiom-free) over a line-by-line Gallina model of SSHConfig after parsing (dict + '*' completion, "
            "_merge_hosts, _lookup_fuzzy_match with CPython's backtracking order, lookup) and of SSHKnownHosts: for EVERY parsed file and EVERY name "
            "construction and lookup never raise (lookup_total); a name that is a Host line / listed on one gets that entry with every option it sets "
            "itself intact (lookup_exact, merge_preserves_set, lookup_own_values); every returned value is one some entry of the file has "
            "(lookup_values_from_file); where unanchored search = whole-name match on the name, an unlisted name gets the closest whole-name match, first in "
            "file order, else Host * (lookup_choice_anchored). The FULL statement lookup = spec_lookup is refuted by vm_compute witnesses (unanchored match; "
            "inheritance computed against the pattern text; a non-matching entry contributes) — both replayed on the real code as known findings — and proved "
            "(lookup_refines_spec_partial) for files whose Host lines do not occur in each other, names on which search = whole match and which exactly one "
            "non-default entry matches: partial. known_hosts: the dict is exactly 'last line listing the name' for every name; plain / comma-listed / hashed "
            "lookups return the recorded key and nothing for another host, for ANY hmac/base64 functions, under the named no-collision premise. "
            "The process-wide cache of parsed files (SSHConfig._config_files behind ssh_config_factory) is state of the model (srun: path -> the live parsed "
            "dict; operations: lookup through the factory, driver construction with explicit/omitted port, user, key, dump of the cached entries): on EVERY "
            "history over any paths and names the cached parse stays build(file) and every output is that of a fresh parse (cache_invisible), given that "
            "nothing writes to the Host object lookup hands out -- a fact read from the source by ast on every run (no attribute store / del / augmented "
            "assignment / setattr on a name bound from .lookup() in base_driver.py and ssh_config.py, lookup and _lookup_fuzzy_match store nothing, the "
            "factory keys the cache by its path argument); with a writer the statement is refuted by a vm_compute witness (cache_visible_when_written). "
            "Tie: Gen_SshConfig.v regenerated from the source on every run (HOST_ATTRS, Host() defaults, the pattern->regex expression taken out of the source by "
            "ast and classified per character by behaviour under CPython's re, re.search + re.I, the '<' of the best-match choice, known_hosts constants); "
            "the model is run by vm_compute on the REAL _parse() output of generated files and must reproduce the real merged dict and every lookup; "
            "_parse itself (regex splitting) is confronted with the generator's structure, not modelled: parse by correspondence only -- on the grammar "
            "stream and on the keyword-text family (keywords host / match / hostname / port / user / identityfile inside comments, values, host names, "
            "longer keywords and unread directives; comment and blank lines between an entry's directives; Match blocks before / between / after Host "
            "entries, specification: a Match block ends the preceding Host entry and its directives belong to no Host entry). "
            "Correspondence `sshconfig-cache-history` (harness/c16_cache.py): histories of (ssh_config_factory(path).lookup | BaseDriver / Driver+paramiko / "
            "AsyncDriver+asyncssh construction with explicit or omitted port, auth_username, auth_private_key | SSHConfig(path).lookup on a new parse)* "
            "on one path or on two paths with the same base name, closed by a dump of every cached entry; every observation (looked-up entry; the "
            "driver's port, auth_username, auth_private_key and the port handed to the transport) is compared with the specification lookup on the file's "
            "structure where that is decided without the real code ('tame' pairs), else with a parse of the same text taken before the history and never "
            "cached; a failing history is shrunk and written to the replay file; the model (srun, no writer) is run by vm_compute on the real _parse() "
            "output of the files and must reproduce every observation of every history.",
    "note": "Trusted: Coq kernel + vm_compute; the hand model coq/model/SshConfig.v (incl. the cache state machine sstep/apply_cfg), KnownHosts.v (tied by "
            "correspondence only); the ast reading of 'nothing writes to the looked-up object' in gen/gen_sshconfig.py (fail-closed: any use of the "
            "lookup result other than an attribute read aborts; writes through other modules, e.g. a transport plugin, are not read -- the histories "
            "would show them); the cache model assumes the files do not change during a history (a rewritten file behind a cached path is outside the "
            "property's quantifier and not explored); the [writes = true] model is ONE writer (blank the explicitly given options), used only for the "
            "refutation; the hand-written spec_lookup "
            "(cross-checked against the independent Python oracle on every run); gen/gen_sshconfig.py; CPython's re/shlex/hmac/base64. Section variables: hmac, b64dec "
            "(no hypotheses on them; the no-collision condition is a premise per entry). Observed only (not proved): _parse on generated files of the supported "
            "grammar (ASCII; names incl. 'host' and regex metacharacters, not backslash/quotes/#); the agreement lookup = specification outside the class of the "
            "partial theorem (oracle on 'tame' pairs; in the two known-finding regions a mismatch must equal the reference algorithm's answer). "
            "The keyword-text family is oracle-only at the text level (the model does not parse text; it is run on the real _parse() output of every "
            "second file of the family in the quick tier, of every file in the thorough tier). Match blocks set any option, also ones the preceding Host entry "
            "leaves unset (1 file in 3 of the family); Match criteria are never evaluated by scrapli nor by the oracle. "
            "Known findings: unanchored match (pinned by a unit test), inheritance by pattern text, known_hosts lines with a 4th field. "
            "Fixed in the worktree: re.escape of patterns, line-anchored Host block splitting, HostName inheritance, key types with @/., directives of a "
            "Match block read as the preceding Host entry's (54988e3; replayed on every run).",
    "technique": "Coq proofs by induction over the merge loops / dict invariants and over histories of the cache state machine (invariant cached = "
                 "build(file)), refutation of the full statement by vm_compute witnesses, "
                 "vm_compute correspondence of the model against the real SSHConfig / SSHKnownHosts / ssh_config_factory + driver construction on "
                 "generated files and histories, independent Python oracle",
}
