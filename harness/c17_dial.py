"""C17 dial suite, private helpers: what a transport's real `open()` hands to the thing that connects.

Every entry point through which a transport reaches the outside is replaced by a recorder (no process is
started, nothing is dialled): PtyProcess.spawn (system), base_socket.Socket + paramiko.Transport + RSAKey
(paramiko), asyncssh.connect (asyncssh), Socket (telnet), asyncio.open_connection (asynctelnet).  A recorder
keeps the positional / keyword arguments exactly as given, so an ABSENT keyword stays absent; how the library
would read the call is decided afterwards, by the library where that is possible offline
(asyncssh.SSHClientConnectionOptions, inspect.signature of the real paramiko methods)."""
import asyncio
import contextlib
import inspect

LOG = []          # (kind, payload) in call order; the caller slices it per open()
ABSENT = "<absent>"


def _bind(real, args, kwargs, skip_self=True):
    """arguments as the real callable would receive them; None when the call would be a TypeError"""
    sig = inspect.signature(real)
    try:
        ba = sig.bind(*(((None,) if skip_self else ()) + tuple(args)), **kwargs)
    except TypeError:
        return None
    return dict(ba.arguments)


# ---- system ----
class FakePty:
    def close(self):
        pass

    def isalive(self):
        return True

    def eof(self):
        return False


def make_pty_recorder(real_pty):
    real_spawn = real_pty.spawn.__func__

    class RecPtyProcess:
        @classmethod
        def spawn(cls, *args, **kwargs):
            b = _bind(real_spawn, args, kwargs)
            cmd = None if b is None else b.get("spawn_command")
            # a copy: the list object may be shared / mutated later
            LOG.append(("spawn", {"argv": list(cmd) if isinstance(cmd, (list, tuple)) else repr(cmd)}))
            return FakePty()
    return RecPtyProcess


# ---- sockets (paramiko, telnet) ----
class FakeSock:
    def settimeout(self, t):
        pass

    def close(self):
        pass


def make_socket_recorder(real_socket):
    class RecSocket:
        def __init__(self, *args, **kwargs):
            b = _bind(real_socket.__init__, args, kwargs) or {}
            self.host, self.port, self.timeout = b.get("host", ABSENT), b.get("port", ABSENT), b.get("timeout")
            self.sock = None
            self._alive = False

        def open(self):
            LOG.append(("socket", {"host": self.host, "port": self.port}))
            self.sock = FakeSock()
            self._alive = True

        def close(self):
            self._alive = False

        def isalive(self):
            return self._alive

        def __bool__(self):
            return self._alive
    return RecSocket


# ---- paramiko ----
class FakeKey:
    def __init__(self, b64):
        self._b = b64

    def get_base64(self):
        return self._b


def make_paramiko_recorders(real_transport, real_rsakey, server_key_b64):
    class RecRSAKey:
        def __init__(self, *args, **kwargs):
            b = _bind(real_rsakey.__init__, args, kwargs) or {}
            self.filename = b.get("filename", ABSENT)

    class RecSession:
        def __init__(self, sock, *a, **k):
            self.disabled_algorithms = {}

        def start_client(self, *a, **k):
            pass

        def get_remote_server_key(self):
            return FakeKey(server_key_b64)

        def is_authenticated(self):
            return False

        def is_alive(self):
            return False

        def close(self):            # paramiko.Transport.close(): never raises
            pass

        def _auth(self, name, real, args, kwargs):
            b = _bind(real, args, kwargs)
            rec = {"call": name, "given": sorted(kwargs) + ["#%d" % i for i in range(len(args))]}
            if b is None:
                rec["username"] = ABSENT        # paramiko has no default: the call itself is a TypeError
            else:
                rec["username"] = b.get("username", ABSENT)
                k = b.get("key")
                if name == "auth_publickey":
                    rec["key_file"] = getattr(k, "filename", ABSENT)
            LOG.append(("paramiko_auth", rec))

        def auth_publickey(self, *args, **kwargs):
            self._auth("auth_publickey", real_transport.auth_publickey, args, kwargs)

        def auth_password(self, *args, **kwargs):
            self._auth("auth_password", real_transport.auth_password, args, kwargs)
    return RecSession, RecRSAKey


# ---- asyncssh ----
def make_asyncssh_recorder():
    from asyncssh.misc import PermissionDenied

    async def rec_connect(*args, **kwargs):
        LOG.append(("asyncssh_connect", {"args": list(args), "kwargs": dict(kwargs)}))
        raise PermissionDenied("recorded, not dialled")     # ends open(): ScrapliAuthenticationFailed
    return rec_connect


def resolve_asyncssh(kwargs):
    """(host, port, username, has_client_keys, known_hosts) as asyncssh itself resolves the recorded keywords —
    absent ones from the ssh config file it is given, the local login name, its defaults.  A `client_keys`
    PATH is taken out before (the fixture's key files are not keys) and compared by the caller.
    -> (dict | None, error class name | None)"""
    import asyncssh
    kw = dict(kwargs)
    ck = kw.get("client_keys", ABSENT)
    if isinstance(ck, str) and ck not in ("", ABSENT):
        kw["client_keys"] = ""
    kh = kw.get("known_hosts", ABSENT)
    if isinstance(kh, str) and kh != ABSENT:
        kw["known_hosts"] = None           # the file's content (host keys) is not C17's business; compared as a path
    try:
        o = asyncssh.SSHClientConnectionOptions(**kw)
    except Exception as e:  # noqa
        return None, type(e).__name__
    return {"host": o.host, "port": o.port, "username": o.username,
            "loads_own_keys": bool(o.client_keys) if ck in ("", ABSENT) else False}, None


# ---- asynctelnet ----
class AsyncioProxy:
    """the `asyncio` name inside the asynctelnet transport module: everything real but open_connection"""

    def __init__(self):
        self.__dict__["_real"] = asyncio

    def __getattr__(self, name):
        return getattr(self._real, name)

    @staticmethod
    async def open_connection(*args, **kwargs):
        b = _bind(asyncio.open_connection, args, kwargs, skip_self=False) or {}
        LOG.append(("open_connection", {"host": b.get("host", ABSENT), "port": b.get("port", ABSENT)}))
        raise ConnectionRefusedError("recorded, not dialled")


# ---- process state: every history starts from the state of a fresh process ----
_PRISTINE = []     # (container object, copy of its content at import time)
STATE_MODULES = ["scrapli.transport.base.base_transport", "scrapli.transport.base.sync_transport",
                 "scrapli.transport.base.async_transport", "scrapli.transport.base.base_socket",
                 "scrapli.transport.plugins.system.transport", "scrapli.transport.plugins.paramiko.transport",
                 "scrapli.transport.plugins.asyncssh.transport", "scrapli.transport.plugins.telnet.transport",
                 "scrapli.transport.plugins.asynctelnet.transport"]


def snapshot_process_state():
    """remember the content of every mutable container (list / dict / set) that lives on a transport class or at
    the top level of a transport module — state that outlives a transport object.  Must be called before the
    first transport object is built (run() does so first thing); a replay starts from a fresh process anyway."""
    import copy
    import importlib
    if _PRISTINE:
        return len(_PRISTINE)
    seen = set()
    for name in STATE_MODULES:
        mod = importlib.import_module(name)
        holders = [mod] + [v for v in vars(mod).values() if inspect.isclass(v) and v.__module__ == name]
        for hld in holders:
            for k, v in list(vars(hld).items()):
                if k.startswith("__") or id(v) in seen:
                    continue
                if isinstance(v, (list, dict, set)):
                    seen.add(id(v))
                    _PRISTINE.append((v, copy.deepcopy(v)))
    return len(_PRISTINE)


def restore_process_state():
    """in place (aliases stay aliases): what a freshly started process would hold"""
    import copy
    for obj, was in _PRISTINE:
        if obj != was:
            obj.clear()
            if isinstance(obj, list):
                obj.extend(copy.deepcopy(was))
            else:
                obj.update(copy.deepcopy(was))


@contextlib.contextmanager
def patched(server_key_b64="AAAA"):
    """all recorders in place; restored on exit"""
    import scrapli.transport.plugins.asyncssh.transport as m_asyncssh
    import scrapli.transport.plugins.asynctelnet.transport as m_atelnet
    import scrapli.transport.plugins.paramiko.transport as m_paramiko
    import scrapli.transport.plugins.system.transport as m_system
    import scrapli.transport.plugins.telnet.transport as m_telnet
    import paramiko
    from paramiko.rsakey import RSAKey
    from scrapli.transport.base.base_socket import Socket

    rec_sess, rec_key = make_paramiko_recorders(paramiko.Transport, RSAKey, server_key_b64)
    rec_sock = make_socket_recorder(Socket)
    plan = [(m_system, "PtyProcess", make_pty_recorder(m_system.PtyProcess)),
            (m_paramiko, "Socket", rec_sock), (m_paramiko, "_ParamikoTransport", rec_sess),
            (m_paramiko, "RSAKey", rec_key), (m_asyncssh, "connect", make_asyncssh_recorder()),
            (m_telnet, "Socket", rec_sock), (m_atelnet, "asyncio", AsyncioProxy())]
    saved = []
    for mod, name, new in plan:
        if not hasattr(mod, name):
            raise RuntimeError("dial suite: %s has no %s any more" % (mod.__name__, name))
        saved.append((mod, name, getattr(mod, name)))
    try:
        for mod, name, new in plan:
            setattr(mod, name, new)
        yield
    finally:
        for mod, name, old in saved:
            setattr(mod, name, old)


class Loop:
    """one private event loop for the asyncio transports of a suite"""

    def __init__(self):
        self.loop = asyncio.new_event_loop()

    def run(self, coro):
        return self.loop.run_until_complete(coro)

    def close(self):
        self.loop.close()


def do_open(transport, loop):
    """real open() of one transport object -> (records made during it, exception class name | None)"""
    n0 = len(LOG)
    exc = None
    try:
        r = transport.open()
        if inspect.isawaitable(r):
            loop.run(r)
    except Exception as e:  # noqa
        exc = type(e).__name__
    return LOG[n0:], exc


def do_close(transport):
    try:
        transport.close()
    except Exception as e:  # noqa
        return type(e).__name__
    return None
